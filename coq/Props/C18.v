(* C18 - Distribution manifests and tag lists round-trip and keep install order.
   Property theorems only; every proof is a short appeal to Proofs/Manifest*.v.

   Model/Manifest.v follows python/eups/distrib/server.py with the two one-token repairs
   (Manifest.write: -if flavor-, Dependency.__init__: -distId = None-); the first argument
   true of m_write / m_read / remap selects the repaired code, false the pinned tree.

   Notation.  A file is a str; m_write ... m is the text Manifest.write produces for manifest m
   (noopt = the noOptional argument, fa = the flavor argument, efl = eupsenv.flavor, who/time/ver
   = the strings of the comment block); m_read ... text is Manifest.read on that text.
   wf_manifest: every field is a word (non-empty, no python white space), optional fields may
   be absent or empty, product names do not start with a hash sign.
   norm_manifest: what the property calls -the same- entry: an absent table file or directory
   is spelt none, an absent flavor is the writer's, the flavor argument overrides, and
   None / search / absent / empty all mean -no distribution id-; optional entries are left out
   exactly when noOptional is set; the optional flag itself and the recursion flag are not
   part of the six-column file. *)
From Coq Require Import Lia.
From Eupsv Require Import Base.Base Base.BaseLemmas Model.Manifest Model.ManifestSpec
  Proofs.ManifestLib Proofs.ManifestText Proofs.ManifestTag Proofs.ManifestMap Proofs.ManifestInv.

(* ================================================================== manifests *)

(* write then read: same entries, same order, same version / flavor / table file / directory /
   distribution id (up to the normalisation above); the manifest's own product and version too.
   Level A + B: the statement is about the text of the file. *)
Theorem manifest_roundtrip noopt fa efl who time ver m :
  wf_manifest m = true -> wf_oword fa = true -> wf_word efl = true ->
  no_nl who = true -> no_nl time = true -> no_nl ver = true ->
  m_read true true false empty_manifest (m_write true noopt fa efl who time ver m)
  = Ok (norm_manifest noopt fa efl m).
Proof. apply m_read_write. Qed.
Print Assumptions manifest_roundtrip.

(* install order: the products come back in the order in which they were listed *)
Corollary manifest_keeps_order noopt fa efl who time ver m :
  wf_manifest m = true -> wf_oword fa = true -> wf_word efl = true ->
  no_nl who = true -> no_nl time = true -> no_nl ver = true ->
  exists m', m_read true true false empty_manifest (m_write true noopt fa efl who time ver m) = Ok m' /\
             map d_product (mf_deps m') = map d_product (written noopt (mf_deps m)) /\
             map d_version (mf_deps m') = map d_version (written noopt (mf_deps m)).
Proof.
  intros. eexists. split; [now apply manifest_roundtrip|].
  cbn [norm_manifest mf_deps]. rewrite !map_map. split; reflexivity.
Qed.
Print Assumptions manifest_keeps_order.

(* with no flavor argument a mixed-flavor list keeps every flavor *)
Corollary manifest_keeps_flavors noopt efl who time ver m :
  wf_manifest m = true -> wf_word efl = true ->
  no_nl who = true -> no_nl time = true -> no_nl ver = true ->
  exists m', m_read true true false empty_manifest (m_write true noopt None efl who time ver m) = Ok m' /\
             map d_flavor (mf_deps m') =
             map (fun d => if truthy (d_flavor d) then d_flavor d else Some efl) (written noopt (mf_deps m)).
Proof.
  intros. eexists. split; [now apply manifest_roundtrip|].
  cbn [norm_manifest mf_deps]. rewrite map_map. reflexivity.
Qed.
Print Assumptions manifest_keeps_flavors.

Definition ex_dep1 : dep :=
  mkDep (lit "cfitsio") (lit "3.0") (Some (lit "Darwin")) (Some (lit "cfitsio.table")) (Some (lit "Darwin/cfitsio/3.0"))
        (Some (lit "cfitsio-3.0.tar.gz")) false false [].
Definition ex_dep2 : dep := mkDep (lit "python") (lit "2.6.2") None None None None false false [].
Definition ex_dep3 : dep :=
  mkDep (lit "tcltk") (lit "8.5") (Some (lit "Linux64")) (Some []) None (Some (lit "search")) true false [].
Definition ex_manifest : manifest := mkManifest (Some (lit "afw")) None [ex_dep1; ex_dep2; ex_dep3].

Example manifest_hyps_inhabited :
  wf_manifest ex_manifest = true /\ wf_oword None = true /\ wf_word (lit "Linux64") = true /\
  no_nl (lit "verif") = true /\
  m_read true true false empty_manifest
    (m_write true true None (lit "Linux64") (lit "verif") (lit "T") (lit "V") ex_manifest)
  = Ok (mkManifest (Some (lit "afw")) (Some (lit "generic"))
          [ mkDep (lit "cfitsio") (lit "3.0") (Some (lit "Darwin")) (Some (lit "cfitsio.table"))
                  (Some (lit "Darwin/cfitsio/3.0")) (Some (lit "cfitsio-3.0.tar.gz")) false false [];
            mkDep (lit "python") (lit "2.6.2") (Some (lit "Linux64")) (Some (lit "none")) (Some (lit "none"))
                  None false false [] ]).
Proof. vm_compute. repeat split. Qed.

(* the pinned tree (D3): every flavor is overwritten by the writer's flavor *)
Example manifest_roundtrip_refuted_pinned_flavor :
  exists m', m_read false true false empty_manifest
      (m_write false true None (lit "Linux64") (lit "verif") (lit "T") (lit "V") ex_manifest) = Ok m' /\
    map d_flavor (mf_deps m') = [Some (lit "Linux64"); Some (lit "Linux64")].
Proof. eexists. split; vm_compute; reflexivity. Qed.

(* the pinned tree (D4): an absent distribution id comes back as the text None *)
Example manifest_roundtrip_refuted_pinned_distid :
  exists m', m_read false true false empty_manifest
      (m_write false true None (lit "Linux64") (lit "verif") (lit "T") (lit "V") ex_manifest) = Ok m' /\
    map d_distid (mf_deps m') = [Some (lit "cfitsio-3.0.tar.gz"); Some (lit "None")].
Proof. eexists. split; vm_compute; reflexivity. Qed.

(* ================================================================== tag lists *)

(* Interpretation (DESIGN section 7 item 7): a tagged-release list is a map product ->
   (flavor, version, extras); eups writes it in sorted product order and a reader of flavor fl
   takes the entries of its own flavor and of the wild-card flavor generic.
   wf_entries: fields are words, product names do not start with a hash sign, the list holds
   each product once (which addProduct guarantees). *)

(* write then read for a reader of flavor fl: exactly the visible entries, in the sorted order
   of the file, filed under the reader's flavor *)
Theorem taglist_roundtrip t fl :
  nonl (tl_tag t) -> wf_entries (tl_entries t) ->
  tl_read (tl_new (tl_tag t) (Some fl)) (tl_write None t)
  = Ok (mkTl (tl_tag t) fl (map (as_flavor fl) (filter (visible fl) (sorted_entries (tl_entries t))))).
Proof. apply tl_read_write. Qed.
Print Assumptions taglist_roundtrip.

(* a list all of whose entries have the list's flavor comes back as the same map *)
Theorem taglist_roundtrip_map t :
  nonl (tl_tag t) -> wf_entries (tl_entries t) -> homogeneous (tl_flavor t) (tl_entries t) ->
  exists t', tl_read (tl_new (tl_tag t) (Some (tl_flavor t))) (tl_write None t) = Ok t' /\
             tl_tag t' = tl_tag t /\ tl_flavor t' = tl_flavor t /\
             forall p, alookup p (tl_entries t') = alookup p (tl_entries t).
Proof.
  intros Ht Hwf Hh. eexists. split; [now apply tl_read_write_homogeneous|].
  cbn [tl_tag tl_flavor tl_entries]. repeat split. intros p. apply alookup_sorted_entries. apply Hwf.
Qed.
Print Assumptions taglist_roundtrip_map.

(* write after read after write gives the first file again *)
Theorem taglist_write_read_idempotent t :
  nonl (tl_tag t) -> wf_entries (tl_entries t) -> homogeneous (tl_flavor t) (tl_entries t) ->
  exists t', tl_read (tl_new (tl_tag t) (Some (tl_flavor t))) (tl_write None t) = Ok t' /\
             tl_write None t' = tl_write None t.
Proof.
  intros Ht Hwf Hh. eexists. split; [now apply tl_read_write_homogeneous|].
  apply tl_write_sorted_entries. apply Hwf.
Qed.
Print Assumptions taglist_write_read_idempotent.

Definition ex_tl : tlist :=
  tl_add (tl_add (tl_add (tl_new (lit "current") (Some (lit "Linux64")))
    (lit "zeta") (lit "1.0") None []) (lit "alpha") (lit "2.0") None [lit "x"; lit "y"])
    (lit "beta") (lit "3") None [].

Example taglist_hyps_inhabited :
  forallb wf_tlinfo (tl_entries ex_tl) = true /\
  akeys (tl_entries ex_tl) = [lit "zeta"; lit "alpha"; lit "beta"] /\
  akeys (sorted_entries (tl_entries ex_tl)) = [lit "alpha"; lit "beta"; lit "zeta"] /\
  forallb (fun e => match e with (_, (f, _, _)) => str_eqb f (lit "Linux64") end) (tl_entries ex_tl) = true.
Proof. vm_compute. repeat split. Qed.

(* ================================================================== remap tables *)

(* A remap table is a list of rows, each one call of Mapping.add(inProduct, inVersion,
   outProduct, outVersion, flavor) (what a line of manifest.remap becomes); m_of_rows builds
   the Mapping.  says rows fl p v is what the table says about manifest entry (p, v) when the
   running flavor is fl, read off the rows alone: rows of flavor fl before generic rows, the
   row for version v before the row for any, later rows override earlier ones; the winning row
   either gives a replacement (product, version) or, having no out-version, deletes.
   entry_ok excludes the two situations of the open findings (see the refuted examples):
   a deletion that is not a deletion of the whole product, and a row of the running flavor
   that maps the entry to itself while the generic rows say something else. *)

(* remapEntries does to every entry exactly what the table says: entries the table does not
   name are untouched (same record, same position), named ones are replaced by the fresh
   record of the new product and version, or dropped *)
Theorem remap_exact rows fl ds :
  (forall d, In d ds -> entry_ok rows fl (d_product d) (d_version d) = true) ->
  remap true (m_of_rows rows) fl ds = spec_remap rows fl ds.
Proof. apply remap_says. Qed.
Print Assumptions remap_exact.

Corollary remap_untouched rows fl d :
  entry_ok rows fl (d_product d) (d_version d) = true ->
  says rows fl (d_product d) (d_version d) = None ->
  remap true (m_of_rows rows) fl [d] = [d].
Proof.
  intros Hok Hs. rewrite remap_exact by (intros ? [<-|[]]; assumption).
  cbn [spec_remap flat_map]. unfold spec_remap_dep. now rewrite Hs.
Qed.
Print Assumptions remap_untouched.

Corollary remap_replaced rows fl d q w :
  entry_ok rows fl (d_product d) (d_version d) = true ->
  says rows fl (d_product d) (d_version d) = Some (Replace q w) ->
  (q, w) <> (d_product d, d_version d) ->
  remap true (m_of_rows rows) fl [d] = [replaced q w].
Proof.
  intros Hok Hs Hne. rewrite remap_exact by (intros ? [<-|[]]; assumption).
  cbn [spec_remap flat_map]. unfold spec_remap_dep. rewrite Hs.
  destruct (str_eqb_spec q (d_product d)) as [->|]; [|reflexivity].
  destruct (str_eqb_spec w (d_version d)) as [->|]; [congruence|reflexivity].
Qed.
Print Assumptions remap_replaced.

Corollary remap_deleted rows fl d :
  entry_ok rows fl (d_product d) (d_version d) = true ->
  says rows fl (d_product d) (d_version d) = Some Delete ->
  remap true (m_of_rows rows) fl [d] = [].
Proof.
  intros Hok Hs. rewrite remap_exact by (intros ? [<-|[]]; assumption).
  cbn [spec_remap flat_map]. unfold spec_remap_dep. now rewrite Hs.
Qed.
Print Assumptions remap_deleted.

Definition ex_rows : list row :=
  [ mkRow (lit "doxygen") (lit "1.5.9") None (Some (lit "1.6.3")) (lit "generic");
    mkRow (lit "python") (lit "any") None (Some (lit "2.6.2")) (lit "generic");
    mkRow (lit "tcltk") (lit "any") None None (lit "generic");
    mkRow (lit "tcltk") (lit "any") (Some (lit "dummytk")) (Some (lit "1.0")) (lit "DarwinX86") ].

Example remap_hyps_inhabited :
  forallb (fun d => entry_ok ex_rows (lit "Linux64") (d_product d) (d_version d)) [ex_dep1; ex_dep2; ex_dep3] = true /\
  remap true (m_of_rows ex_rows) (lit "Linux64") [ex_dep1; ex_dep2; ex_dep3] = [ex_dep1; ex_dep2] /\
  remap true (m_of_rows ex_rows) (lit "DarwinX86") [ex_dep3] = [replaced (lit "dummytk") (lit "1.0")].
Proof. vm_compute. repeat split. Qed.

(* open finding (remap-delete): the row -a:1 None- deletes every version of a, not only 1 *)
Theorem remap_exact_refuted_delete_version :
  exists rows fl d,
    says rows fl (d_product d) (d_version d) = None /\
    remap true (m_of_rows rows) fl [d] = [] /\
    entry_ok rows fl (d_product d) (d_version d) = false.
Proof.
  exists [mkRow (lit "a") (lit "1") None None (lit "generic")], (lit "generic"),
         (mkDep (lit "a") (lit "2") None None None None false false []).
  vm_compute. repeat split.
Qed.
Print Assumptions remap_exact_refuted_delete_version.

(* open finding (remap-delete): a deletion row next to a replacement row of the same product is lost *)
Theorem remap_exact_refuted_delete_lost :
  exists rows fl d,
    says rows fl (d_product d) (d_version d) = Some Delete /\
    remap true (m_of_rows rows) fl [d] = [d] /\
    entry_ok rows fl (d_product d) (d_version d) = false.
Proof.
  exists [mkRow (lit "a") (lit "1") None (Some (lit "2")) (lit "generic");
          mkRow (lit "a") (lit "any") None None (lit "generic")], (lit "generic"),
         (mkDep (lit "a") (lit "3") None None None None false false []).
  vm_compute. repeat split.
Qed.
Print Assumptions remap_exact_refuted_delete_lost.

(* open finding (remap-identity): the Linux64 row sends every a to version 2, the generic row to
   version 3; the entry a 2 on Linux64 becomes a 3 *)
Theorem remap_exact_refuted_identity :
  exists rows fl d,
    says rows fl (d_product d) (d_version d) = Some (Replace (d_product d) (d_version d)) /\
    remap true (m_of_rows rows) fl [d] = [replaced (lit "a") (lit "3")] /\
    entry_ok rows fl (d_product d) (d_version d) = false.
Proof.
  exists [mkRow (lit "a") (lit "any") None (Some (lit "2")) (lit "Linux64");
          mkRow (lit "a") (lit "any") None (Some (lit "3")) (lit "generic")], (lit "Linux64"),
         (mkDep (lit "a") (lit "2") None None None None false false []).
  vm_compute. repeat split.
Qed.
Print Assumptions remap_exact_refuted_identity.

(* ================================================================== inverse *)

(* m_rows m: the rows (flavor, inProduct, inVersion, outProduct, outVersion) Mapping.inverse
   visits.  invertible_row: explicit versions on both sides (no any), nothing that add would
   take for the noreinstall keyword or for -absent-, no entry mapped to itself.
   one_to_one m fl: seen from the running flavor fl (its own rows before the generic ones) no
   two named entries are sent to the same target.  fm_nodup: the dictionaries have no
   duplicate keys, which holds of every Mapping built by add (inverse_undoes_table). *)

(* for a one-to-one mapping the inverse undoes apply on every entry the mapping names *)
Theorem inverse_undoes m inv fl p v q w :
  fm_nodup (mp_map m) ->
  forallb invertible_row (m_rows m) = true -> one_to_one m fl = true ->
  m_inverse m = Ok inv ->
  in_dom m fl p v = true -> m_apply m p v fl = (q, Some w) ->
  m_apply inv q w fl = (p, Some v).
Proof.
  intros Hnd Hwf H11 Hinv Hdom Happ.
  eapply inverse_undoes_lemma; eauto using one_to_one_inj.
Qed.
Print Assumptions inverse_undoes.

Corollary inverse_undoes_table rows inv fl p v q w :
  forallb invertible_row (m_rows (m_of_rows rows)) = true -> one_to_one (m_of_rows rows) fl = true ->
  m_inverse (m_of_rows rows) = Ok inv ->
  in_dom (m_of_rows rows) fl p v = true -> m_apply (m_of_rows rows) p v fl = (q, Some w) ->
  m_apply inv q w fl = (p, Some v).
Proof. apply inverse_undoes. apply m_of_rows_nodup. Qed.
Print Assumptions inverse_undoes_table.

(* two rows of one flavor with the same target: inverse raises *)
Theorem inverse_rejects_non_injective m R1 r1 R2 r2 R3 :
  forallb invertible_row (m_rows m) = true ->
  m_rows m = R1 ++ r1 :: R2 ++ r2 :: R3 -> row_target r1 = row_target r2 ->
  m_inverse m = Err Refused.
Proof. intros H1 H2 H3. eapply inverse_rejects_lemma; eauto. Qed.
Print Assumptions inverse_rejects_non_injective.

(* and only then: with pairwise different targets inverse succeeds *)
Theorem inverse_accepts_injective m :
  forallb invertible_row (m_rows m) = true -> NoDup (map row_target (m_rows m)) ->
  exists inv, m_inverse m = Ok inv.
Proof.
  intros H1 H2. apply inverse_accepts_lemma; [assumption|].
  erewrite map_ext; [exact H2|]. apply tgt_row_target.
Qed.
Print Assumptions inverse_accepts_injective.

Definition ex_inv_rows : list row :=
  [ mkRow (lit "a") (lit "1") None (Some (lit "2")) (lit "generic");
    mkRow (lit "b") (lit "1") (Some (lit "c")) (Some (lit "7")) (lit "generic");
    mkRow (lit "a") (lit "1") (Some (lit "d")) (Some (lit "4")) (lit "Linux64") ].

Example inverse_hyps_inhabited :
  forallb invertible_row (m_rows (m_of_rows ex_inv_rows)) = true /\
  one_to_one (m_of_rows ex_inv_rows) (lit "Linux64") = true /\
  in_dom (m_of_rows ex_inv_rows) (lit "Linux64") (lit "a") (lit "1") = true /\
  m_apply (m_of_rows ex_inv_rows) (lit "a") (lit "1") (lit "Linux64") = (lit "d", Some (lit "4")) /\
  exists inv, m_inverse (m_of_rows ex_inv_rows) = Ok inv /\
              m_apply inv (lit "d") (lit "4") (lit "Linux64") = (lit "a", Some (lit "1")) /\
              m_apply inv (lit "c") (lit "7") (lit "Linux64") = (lit "b", Some (lit "1")).
Proof. do 4 (split; [vm_compute; reflexivity|]). vm_compute. eexists. split; [reflexivity|]. split; reflexivity. Qed.

Example inverse_rejects_inhabited :
  m_inverse (m_of_rows [ mkRow (lit "a") (lit "1") None (Some (lit "3")) (lit "generic");
                         mkRow (lit "a") (lit "2") None (Some (lit "3")) (lit "generic") ]) = Err Refused.
Proof. vm_compute. reflexivity. Qed.
