(* C18 - Distribution manifests and tag lists round-trip and keep install order.
   Property theorems only; every proof is a short appeal to Proofs/Manifest*.v.

   Model/Manifest.v follows python/eups/distrib/server.py with the two one-token repairs
   (Manifest.write: -if flavor-, Dependency.__init__: -distId = None-); the first argument
   true of m_write / m_read / remap selects the repaired code, false the pinned tree.
   Mapping (add, _apply, apply, merge, inverse) and the manifest.remap reader follow the code with
   the repairs of proposed_fixes/C18-*.diff; the definitions ending in _pinned follow the tree
   before them and are used only in the refuted_pinned examples.

   Notation.  A file is a str; m_write ... m is the text Manifest.write produces for manifest m
   (noopt = the noOptional argument, fa = the flavor argument, efl = eupsenv.flavor, who/time/ver
   = the strings of the comment block); m_read ... text is Manifest.read on that text.
   wf_manifest: every field is a word (non-empty, no python white space), optional fields may
   be absent or empty, product names do not start with a hash sign.
   norm_manifest: what the property calls -the same- entry: an absent table file or directory
   is spelt none, an absent flavor is the writer's, the flavor argument overrides, and
   None / search / absent / empty all mean -no distribution id-; optional entries are left out
   exactly when noOptional is set; the optional flag itself and the recursion flag are not
   part of the six-column file. *)
From Coq Require Import Lia.
From Eupsv Require Import Base.Base Base.BaseLemmas Model.Manifest Model.ManifestSpec Model.ManifestOps
  Proofs.ManifestLib Proofs.ManifestText Proofs.ManifestTag Proofs.ManifestMap Proofs.ManifestInv
  Proofs.ManifestMerge Proofs.ManifestRemapFile Proofs.ManifestOps Proofs.ManifestWidth.

(* ================================================================== manifests *)

(* write then read: same entries, same order, same version / flavor / table file / directory /
   distribution id (up to the normalisation above); the manifest's own product and version too.
   Level A + B: the statement is about the text of the file. *)
Theorem manifest_roundtrip noopt fa efl who time ver m :
  wf_manifest m = true -> wf_oword fa = true -> wf_word efl = true ->
  no_nl who = true -> no_nl time = true -> no_nl ver = true ->
  m_read true true false empty_manifest (m_write true noopt fa efl who time ver m)
  = Ok (norm_manifest noopt fa efl m).
Proof. apply m_read_write. Qed.
Print Assumptions manifest_roundtrip.

(* install order: the products come back in the order in which they were listed *)
Corollary manifest_keeps_order noopt fa efl who time ver m :
  wf_manifest m = true -> wf_oword fa = true -> wf_word efl = true ->
  no_nl who = true -> no_nl time = true -> no_nl ver = true ->
  exists m', m_read true true false empty_manifest (m_write true noopt fa efl who time ver m) = Ok m' /\
             map d_product (mf_deps m') = map d_product (written noopt (mf_deps m)) /\
             map d_version (mf_deps m') = map d_version (written noopt (mf_deps m)).
Proof.
  intros. eexists. split; [now apply manifest_roundtrip|].
  cbn [norm_manifest mf_deps]. rewrite !map_map. split; reflexivity.
Qed.
Print Assumptions manifest_keeps_order.

(* with no flavor argument a mixed-flavor list keeps every flavor *)
Corollary manifest_keeps_flavors noopt efl who time ver m :
  wf_manifest m = true -> wf_word efl = true ->
  no_nl who = true -> no_nl time = true -> no_nl ver = true ->
  exists m', m_read true true false empty_manifest (m_write true noopt None efl who time ver m) = Ok m' /\
             map d_flavor (mf_deps m') =
             map (fun d => if truthy (d_flavor d) then d_flavor d else Some efl) (written noopt (mf_deps m)).
Proof.
  intros. eexists. split; [now apply manifest_roundtrip|].
  cbn [norm_manifest mf_deps]. rewrite map_map. reflexivity.
Qed.
Print Assumptions manifest_keeps_flavors.

Definition ex_dep1 : dep :=
  mkDep (lit "cfitsio") (lit "3.0") (Some (lit "Darwin")) (Some (lit "cfitsio.table")) (Some (lit "Darwin/cfitsio/3.0"))
        (Some (lit "cfitsio-3.0.tar.gz")) false false [].
Definition ex_dep2 : dep := mkDep (lit "python") (lit "2.6.2") None None None None false false [].
Definition ex_dep3 : dep :=
  mkDep (lit "tcltk") (lit "8.5") (Some (lit "Linux64")) (Some []) None (Some (lit "search")) true false [].
Definition ex_manifest : manifest := mkManifest (Some (lit "afw")) None [ex_dep1; ex_dep2; ex_dep3].

Example manifest_hyps_inhabited :
  wf_manifest ex_manifest = true /\ wf_oword None = true /\ wf_word (lit "Linux64") = true /\
  no_nl (lit "verif") = true /\
  m_read true true false empty_manifest
    (m_write true true None (lit "Linux64") (lit "verif") (lit "T") (lit "V") ex_manifest)
  = Ok (mkManifest (Some (lit "afw")) (Some (lit "generic"))
          [ mkDep (lit "cfitsio") (lit "3.0") (Some (lit "Darwin")) (Some (lit "cfitsio.table"))
                  (Some (lit "Darwin/cfitsio/3.0")) (Some (lit "cfitsio-3.0.tar.gz")) false false [];
            mkDep (lit "python") (lit "2.6.2") (Some (lit "Linux64")) (Some (lit "none")) (Some (lit "none"))
                  None false false [] ]).
Proof. vm_compute. repeat split. Qed.

(* the pinned tree (D3): every flavor is overwritten by the writer's flavor *)
Example manifest_roundtrip_refuted_pinned_flavor :
  exists m', m_read false true false empty_manifest
      (m_write false true None (lit "Linux64") (lit "verif") (lit "T") (lit "V") ex_manifest) = Ok m' /\
    map d_flavor (mf_deps m') = [Some (lit "Linux64"); Some (lit "Linux64")].
Proof. eexists. split; vm_compute; reflexivity. Qed.

(* the pinned tree (D4): an absent distribution id comes back as the text None *)
Example manifest_roundtrip_refuted_pinned_distid :
  exists m', m_read false true false empty_manifest
      (m_write false true None (lit "Linux64") (lit "verif") (lit "T") (lit "V") ex_manifest) = Ok m' /\
    map d_distid (mf_deps m') = [Some (lit "cfitsio-3.0.tar.gz"); Some (lit "None")].
Proof. eexists. split; vm_compute; reflexivity. Qed.

(* ================================================================== tag lists *)

(* Interpretation (DESIGN section 7 item 7): a tagged-release list is a map product ->
   (flavor, version, extras); eups writes it in sorted product order and a reader of flavor fl
   takes the entries of its own flavor and of the wild-card flavor generic.
   wf_entries: fields are words, product names do not start with a hash sign, the list holds
   each product once (which addProduct guarantees). *)

(* write then read for a reader of flavor fl: exactly the visible entries, in the sorted order
   of the file, filed under the reader's flavor *)
Theorem taglist_roundtrip t fl :
  nonl (tl_tag t) -> wf_entries (tl_entries t) ->
  tl_read (tl_new (tl_tag t) (Some fl)) (tl_write None t)
  = Ok (mkTl (tl_tag t) fl (map (as_flavor fl) (filter (visible fl) (sorted_entries (tl_entries t))))).
Proof. apply tl_read_write. Qed.
Print Assumptions taglist_roundtrip.

(* a list all of whose entries have the list's flavor comes back as the same map *)
Theorem taglist_roundtrip_map t :
  nonl (tl_tag t) -> wf_entries (tl_entries t) -> homogeneous (tl_flavor t) (tl_entries t) ->
  exists t', tl_read (tl_new (tl_tag t) (Some (tl_flavor t))) (tl_write None t) = Ok t' /\
             tl_tag t' = tl_tag t /\ tl_flavor t' = tl_flavor t /\
             forall p, alookup p (tl_entries t') = alookup p (tl_entries t).
Proof.
  intros Ht Hwf Hh. eexists. split; [now apply tl_read_write_homogeneous|].
  cbn [tl_tag tl_flavor tl_entries]. repeat split. intros p. apply alookup_sorted_entries. apply Hwf.
Qed.
Print Assumptions taglist_roundtrip_map.

(* write after read after write gives the first file again *)
Theorem taglist_write_read_idempotent t :
  nonl (tl_tag t) -> wf_entries (tl_entries t) -> homogeneous (tl_flavor t) (tl_entries t) ->
  exists t', tl_read (tl_new (tl_tag t) (Some (tl_flavor t))) (tl_write None t) = Ok t' /\
             tl_write None t' = tl_write None t.
Proof.
  intros Ht Hwf Hh. eexists. split; [now apply tl_read_write_homogeneous|].
  apply tl_write_sorted_entries. apply Hwf.
Qed.
Print Assumptions taglist_write_read_idempotent.

Definition ex_tl : tlist :=
  tl_add (tl_add (tl_add (tl_new (lit "current") (Some (lit "Linux64")))
    (lit "zeta") (lit "1.0") None []) (lit "alpha") (lit "2.0") None [lit "x"; lit "y"])
    (lit "beta") (lit "3") None [].

Example taglist_hyps_inhabited :
  forallb wf_tlinfo (tl_entries ex_tl) = true /\
  akeys (tl_entries ex_tl) = [lit "zeta"; lit "alpha"; lit "beta"] /\
  akeys (sorted_entries (tl_entries ex_tl)) = [lit "alpha"; lit "beta"; lit "zeta"] /\
  forallb (fun e => match e with (_, (f, _, _)) => str_eqb f (lit "Linux64") end) (tl_entries ex_tl) = true.
Proof. vm_compute. repeat split. Qed.

(* ================================================================== field widths *)

(* The writers pad their columns: "%-20s %-10s %s" (tag list), "%-15s %-12s %-10s %-25s %-30s %s"
   (manifest); Model/Manifest.v prints the same way (ljust N field ++ blank).  The round-trip theorems
   above have no hypothesis on the length of any field - a field may be narrower than its column, fill
   it exactly or overflow it.  The statements below make the reason explicit: a column is the field,
   the padding (none when the field is as wide as the column or wider) and then the blank of the format,
   so that the words of a written line are its fields whatever their lengths. *)

(* a column is the field followed by at least one blank, for every column width and every field *)
Theorem column_separated n s x :
  ljust n s ++ c_sp :: x = s ++ repeat c_sp (S (n - length s)) ++ x /\
  (n <= length s -> ljust n s ++ c_sp :: x = s ++ c_sp :: x).
Proof. split; [apply column_shape|apply column_wide]. Qed.
Print Assumptions column_separated.

(* the fields of a tag-list line come back as its words: every product name, flavor (the entry's or
   the override), version and extra column that is a word, of any length *)
Theorem taglist_line_fields_any_width fa p f v ex :
  word p -> word (tl_flav fa f) -> word v -> Forall word ex ->
  words (tl_line fa p (f, v, ex)) = p :: tl_flav fa f :: v :: ex.
Proof. apply words_tl_line_any. Qed.
Print Assumptions taglist_line_fields_any_width.

(* the same for a manifest line: product, flavor (argument, entry's or writer's), version, table file
   and directory (none when absent) come back as the first five words *)
Theorem manifest_line_fields_any_width fa efl d :
  wf_dep d = true -> wf_oword fa = true -> wf_word efl = true ->
  exists F T D,
    norm_flavor fa efl (d_flavor d) = Some F /\ word F /\
    norm_ostr k_low_none (d_table d) = Some T /\ word T /\
    norm_ostr k_low_none (d_dir d) = Some D /\ word D /\
    words (dep_line true fa efl d) = d_product d :: F :: d_version d :: T :: D :: words (ostr (d_distid d)).
Proof. apply words_dep_line_any. Qed.
Print Assumptions manifest_line_fields_any_width.

(* the blank of the format is what separates: with padding alone a field as wide as its column runs
   into the next field and the line has a word less *)
Theorem padding_alone_does_not_separate n a b :
  word a -> word b -> n <= length a -> words (ljust n a ++ b) = [a ++ b].
Proof. apply words_glued. Qed.
Print Assumptions padding_alone_does_not_separate.

(* at the boundary: product names of 19, 20, 21 and 40 characters, flavors of 10, 11 and 15 *)
Example taglist_lines_at_the_boundary :
  tl_line None (lit "ctrl_platform_lsstv") (lit "Linux64", lit "1.0", [])
    = lit "ctrl_platform_lsstv  Linux64    1.0" /\
  tl_line None (lit "ctrl_platform_lsstvc") (lit "Linux64", lit "1.0", [])
    = lit "ctrl_platform_lsstvc Linux64    1.0" /\
  tl_line None (lit "ctrl_platform_lsstvcX") (lit "Linux64", lit "1.0", [])
    = lit "ctrl_platform_lsstvcX Linux64    1.0" /\
  tl_line None (lit "meas_extensions_photometryKron_shapeHSMx") (lit "Linux64", lit "1.0", [])
    = lit "meas_extensions_photometryKron_shapeHSMx Linux64    1.0" /\
  tl_line None (lit "afw") (lit "Linux64-gl", lit "1.0", [lit "x"])
    = lit "afw                  Linux64-gl 1.0  x" /\
  tl_line None (lit "afw") (lit "Linux64-gli", lit "1.0", [lit "x"])
    = lit "afw                  Linux64-gli 1.0  x" /\
  tl_line (Some (lit "DarwinX86-arm64")) (lit "afw") (lit "Linux64", lit "1.0", [lit "x"])
    = lit "afw                  DarwinX86-arm64 1.0  x".
Proof. vm_compute. repeat split. Qed.

Definition ex_tl_wide : tlist :=
  tl_add (tl_add (tl_add (tl_add (tl_add (tl_new (lit "current") (Some (lit "Linux64-gli")))
    (lit "zlib") (lit "1.2.5") None [lit "x"])
    (lit "meas_extensions_photometryKron_shapeHSMx") (lit "7.3.1.0+2") None [lit "eupspkg"; lit "meas-7.3.1.0.eupspkg"])
    (lit "ctrl_platform_lsstvcX") (lit "3.1") None [])
    (lit "ctrl_platform_lsstvc") (lit "3.1") (Some (lit "generic")) [])
    (lit "ctrl_platform_lsstv") (lit "3.1") (Some (lit "Linux64")) [].

(* a list with such names, under a flavor of 11 characters: what its own reader, and a reader of the
   15-character flavor it is published for, read back *)
Example taglist_roundtrip_at_the_boundary :
  forallb wf_tlinfo (tl_entries ex_tl_wide) = true /\
  match tl_read (tl_new (lit "current") (Some (lit "Linux64-gli"))) (tl_write None ex_tl_wide) with
  | Ok t => tl_products t
  | Err _ => []
  end
  = [ [lit "ctrl_platform_lsstvc"; lit "Linux64-gli"; lit "3.1"];
           [lit "ctrl_platform_lsstvcX"; lit "Linux64-gli"; lit "3.1"];
           [lit "meas_extensions_photometryKron_shapeHSMx"; lit "Linux64-gli"; lit "7.3.1.0+2"; lit "eupspkg";
            lit "meas-7.3.1.0.eupspkg"];
           [lit "zlib"; lit "Linux64-gli"; lit "1.2.5"; lit "x"] ] /\
  match tl_read (tl_new (lit "current") (Some (lit "DarwinX86-arm64")))
                (tl_write (Some (lit "DarwinX86-arm64")) ex_tl_wide) with
  | Ok t => map (hd []) (tl_products t)
  | Err _ => []
  end
  = [ lit "ctrl_platform_lsstv"; lit "ctrl_platform_lsstvc"; lit "ctrl_platform_lsstvcX";
           lit "meas_extensions_photometryKron_shapeHSMx"; lit "zlib" ].
Proof. vm_compute. repeat split. Qed.

Definition ex_dep_wide : dep :=
  mkDep (lit "meas_extensions_") (lit "7.3.1.0+svn") (Some (lit "Linux64-glibc")) (Some (lit "ups/meas_extensions_.table"))
        (Some (lit "Linux64/meas_extensions_/7.3.1x")) None false false [].

(* every column of a manifest line overflown by one character *)
Example manifest_line_at_the_boundary :
  dep_line true None (lit "Linux64") ex_dep_wide
    = lit "meas_extensions_ Linux64-glibc 7.3.1.0+svn ups/meas_extensions_.table Linux64/meas_extensions_/7.3.1x None" /\
  m_read true true false empty_manifest
    (m_write true true None (lit "Linux64") (lit "verif") (lit "T") (lit "V")
       (mkManifest (Some (lit "top")) (Some (lit "1.0")) [ex_dep2; ex_dep_wide; ex_dep1]))
  = Ok (norm_manifest true None (lit "Linux64")
       (mkManifest (Some (lit "top")) (Some (lit "1.0")) [ex_dep2; ex_dep_wide; ex_dep1])) /\
  wf_dep ex_dep_wide = true.
Proof. vm_compute. repeat split. Qed.

(* ================================================================== one object, several operations *)

(* Model/ManifestOps.v: the object and the files it has written are a state (ts_list, ts_files);
   addProduct, write(file, flavor=fa, noaction) and read(file) are steps on it.  The property
   speaks of -a list written by eups-: whatever was done to the object before, and whatever is
   written afterwards, the file holds the list as it stands.  write is a function of the list:
   it returns the list unchanged. *)

(* a write - with or without the flavor override, dry run or not - leaves the list it writes as it was *)
Theorem write_leaves_list_unchanged s f fa na s' :
  tl_step s (TWrite f fa na) = Ok s' -> ts_list s' = ts_list s.
Proof. apply tl_step_write_list. Qed.
Print Assumptions write_leaves_list_unchanged.

(* a dry run changes nothing at all: neither the list nor any file *)
Theorem write_noaction_changes_nothing s f fa : tl_step s (TWrite f fa true) = Ok s.
Proof. apply tl_step_noaction. Qed.
Print Assumptions write_noaction_changes_nothing.

(* any sequence of writes succeeds and leaves the list as it was *)
Theorem writes_leave_list_unchanged s ops :
  forallb tl_is_write ops = true ->
  exists s', tl_run s ops = Ok s' /\ ts_list s' = ts_list s.
Proof.
  intros Hw. destruct (tl_run_writes_ok ops s Hw) as [s' Hr]. exists s'. split; [assumption|].
  now apply (tl_run_writes_list ops s s').
Qed.
Print Assumptions writes_leave_list_unchanged.

(* write(file, flavor=g) read back: a reader of flavor fl sees the visible ones among the entries
   restamped with g - same products, sorted, same version and extra columns *)
Theorem taglist_roundtrip_override t g fl :
  nonl (tl_tag t) -> wf_entries (tl_entries t) -> wf_word g = true ->
  tl_read (tl_new (tl_tag t) (Some fl)) (tl_write (Some g) t)
  = Ok (mkTl (tl_tag t) fl
         (map (as_flavor fl) (filter (visible fl) (map (restamp g) (sorted_entries (tl_entries t)))))).
Proof. apply tl_read_write_override. Qed.
Print Assumptions taglist_roundtrip_override.

(* read back for the flavor it was written for: every product of the list, under that flavor *)
Theorem write_override_roundtrip t g :
  nonl (tl_tag t) -> wf_entries (tl_entries t) -> wf_word g = true ->
  tl_read (tl_new (tl_tag t) (Some g)) (tl_write (Some g) t)
  = Ok (mkTl (tl_tag t) g (map (restamp g) (sorted_entries (tl_entries t)))).
Proof.
  intros Ht Hwf Hg. rewrite tl_read_write_override by assumption. now rewrite visible_restamp_same.
Qed.
Print Assumptions write_override_roundtrip.

(* read back for any other flavor (the override not being the wild card): nothing *)
Theorem write_override_other_reader t g fl :
  nonl (tl_tag t) -> wf_entries (tl_entries t) -> wf_word g = true -> g <> fl -> g <> s_generic ->
  tl_read (tl_new (tl_tag t) (Some fl)) (tl_write (Some g) t) = Ok (mkTl (tl_tag t) fl []).
Proof.
  intros Ht Hwf Hg H1 H2. rewrite tl_read_write_override by assumption.
  now rewrite visible_restamp_other.
Qed.
Print Assumptions write_override_other_reader.

(* the sequence of the seeded change, for all lists and all sequences of writes before: after any
   writes (overrides, dry runs, other files or the same one) a plain write puts into the file the
   list as it was before them, and a reader of flavor fl reads back exactly its visible entries *)
Theorem write_after_writes_roundtrip s ops f fl s' :
  forallb tl_is_write ops = true ->
  nonl (tl_tag (ts_list s)) -> wf_entries (tl_entries (ts_list s)) ->
  tl_run s (ops ++ [TWrite f None false]) = Ok s' ->
  ts_list s' = ts_list s /\
  exists text, alookup f (ts_files s') = Some text /\
    tl_read (tl_new (tl_tag (ts_list s)) (Some fl)) text
    = Ok (mkTl (tl_tag (ts_list s)) fl
           (map (as_flavor fl) (filter (visible fl) (sorted_entries (tl_entries (ts_list s)))))).
Proof.
  intros Hw Ht Hwf Hr. rewrite tl_run_app in Hr.
  destruct (tl_run_writes_ok ops s Hw) as [s1 H1]. rewrite H1 in Hr.
  assert (Hl := tl_run_writes_list ops s s1 Hw H1).
  cbn [tl_run tl_step] in Hr. inversion Hr; subst s'; clear Hr. cbn [ts_list ts_files].
  split; [assumption|]. eexists. split; [apply alookup_aset_same|].
  rewrite Hl. now apply tl_read_write.
Qed.
Print Assumptions write_after_writes_roundtrip.

(* the same for Manifest objects: addDependency, write(file, noOptional, flavor, noaction),
   read(file, setproduct, shouldRecurse) into the same object, reverse *)
Theorem mwrite_leaves_manifest_unchanged efl who time ver s f noopt fa na s' :
  m_step efl who time ver s (MWrite f noopt fa na) = Ok s' -> ms_man s' = ms_man s.
Proof. apply m_step_write_man. Qed.
Print Assumptions mwrite_leaves_manifest_unchanged.

Theorem mwrite_noaction_changes_nothing efl who time ver s f noopt fa :
  m_step efl who time ver s (MWrite f noopt fa true) = Ok s.
Proof. apply m_step_noaction. Qed.
Print Assumptions mwrite_noaction_changes_nothing.

(* after any writes a further write puts into the file the manifest as it was before them: read
   back it gives the same entries in the same order with the same fields (manifest_roundtrip) *)
Theorem mwrite_after_writes_roundtrip efl who time ver s ops f noopt fa s' :
  forallb m_is_write ops = true ->
  wf_manifest (ms_man s) = true -> wf_oword fa = true -> wf_word efl = true ->
  no_nl who = true -> no_nl time = true -> no_nl ver = true ->
  m_run efl who time ver s (ops ++ [MWrite f noopt fa false]) = Ok s' ->
  ms_man s' = ms_man s /\
  exists text, alookup f (ms_files s') = Some text /\
    m_read true true false empty_manifest text = Ok (norm_manifest noopt fa efl (ms_man s)).
Proof.
  intros Hw Hwf Hfa Hefl H1 H2 H3 Hr. rewrite m_run_app in Hr.
  destruct (m_run_writes_ok efl who time ver ops s Hw) as [s1 Hs1]. rewrite Hs1 in Hr.
  assert (Hm := m_run_writes_man efl who time ver ops s s1 Hw Hs1).
  cbn [m_run m_step] in Hr. inversion Hr; subst s'; clear Hr. cbn [ms_man ms_files].
  split; [assumption|]. eexists. split; [apply alookup_aset_same|].
  rewrite Hm. now apply manifest_roundtrip.
Qed.
Print Assumptions mwrite_after_writes_roundtrip.

Definition ex_tl_mixed : tlist :=
  tl_add (tl_add (tl_add (tl_new (lit "stable") (Some (lit "Linux64")))
    (lit "afw") (lit "3.2") None []) (lit "base") (lit "1.0") (Some (lit "generic")) [lit "x"])
    (lit "cfitsio") (lit "3006.2") (Some (lit "DarwinX86")) [].

(* a list of three flavors published for another platform (also as a dry run), then as it is: the
   second file gives a Linux64 reader afw and base, a DarwinX86 reader base and cfitsio; the first
   file gives a DarwinX86 reader all three; the dry run wrote no file *)
Definition ex_ops : list tl_op :=
  [TWrite (lit "d") (Some (lit "DarwinX86")) false; TWrite (lit "n") (Some (lit "DarwinX86")) true].

Definition ex_ops_seen : option (list str * list (list str)) :=
  match tl_run (mkTs ex_tl_mixed []) (ex_ops ++ [TWrite (lit "f") None false]) with
  | Ok s' =>
      Some (akeys (ts_files s'),
            map (fun fr => match alookup (fst fr) (ts_files s') with
                           | Some text => match tl_read (tl_new (lit "stable") (Some (snd fr))) text with
                                          | Ok t => akeys (tl_entries t)
                                          | Err _ => []
                                          end
                           | None => []
                           end)
                [(lit "f", lit "Linux64"); (lit "f", lit "DarwinX86"); (lit "d", lit "DarwinX86")])
  | Err _ => None
  end.

Example ops_hyps_inhabited :
  forallb tl_is_write ex_ops = true /\ forallb wf_tlinfo (tl_entries ex_tl_mixed) = true /\
  ex_ops_seen = Some ([lit "d"; lit "f"],
                      [[lit "afw"; lit "base"]; [lit "base"; lit "cfitsio"]; [lit "afw"; lit "base"; lit "cfitsio"]]).
Proof. vm_compute. repeat split. Qed.

(* ================================================================== remap tables *)

(* A remap table is a list of rows, each one call of Mapping.add(inProduct, inVersion,
   outProduct, outVersion, flavor) (what a line of manifest.remap becomes); m_of_rows builds
   the Mapping.  says rows fl p v is what the table says about manifest entry (p, v) when the
   running flavor is fl, read off the rows alone: rows of flavor fl before generic rows, the
   row for version v before the row for any, later rows override earlier ones; the winning row
   either gives a replacement (product, version) or, having no out-version, deletes. *)

(* remapEntries does to every entry exactly what the table says: entries the table does not
   name are untouched (same record, same position), named ones are replaced by the fresh
   record of the new product and version, or dropped.  For all tables and all lists. *)
Theorem remap_exact rows fl ds :
  remap true (m_of_rows rows) fl ds = spec_remap rows fl ds.
Proof. apply remap_says. Qed.
Print Assumptions remap_exact.

Corollary remap_untouched rows fl d :
  says rows fl (d_product d) (d_version d) = None ->
  remap true (m_of_rows rows) fl [d] = [d].
Proof.
  intros Hs. rewrite remap_exact. cbn [spec_remap flat_map]. unfold spec_remap_dep. now rewrite Hs.
Qed.
Print Assumptions remap_untouched.

Corollary remap_replaced rows fl d q w :
  says rows fl (d_product d) (d_version d) = Some (Replace q w) ->
  (q, w) <> (d_product d, d_version d) ->
  remap true (m_of_rows rows) fl [d] = [replaced q w].
Proof.
  intros Hs Hne. rewrite remap_exact. cbn [spec_remap flat_map]. unfold spec_remap_dep. rewrite Hs.
  destruct (str_eqb_spec q (d_product d)) as [->|]; [|reflexivity].
  destruct (str_eqb_spec w (d_version d)) as [->|]; [congruence|reflexivity].
Qed.
Print Assumptions remap_replaced.

Corollary remap_deleted rows fl d :
  says rows fl (d_product d) (d_version d) = Some Delete ->
  remap true (m_of_rows rows) fl [d] = [].
Proof.
  intros Hs. rewrite remap_exact. cbn [spec_remap flat_map]. unfold spec_remap_dep. now rewrite Hs.
Qed.
Print Assumptions remap_deleted.

(* the same, for Mapping.apply alone *)
Theorem apply_exact_table rows fl p v :
  match says rows fl p v with
  | None => m_apply (m_of_rows rows) p v fl = (p, Some v)
  | Some (Replace q w) => m_apply (m_of_rows rows) p v fl = (q, Some w)
  | Some Delete => snd (m_apply (m_of_rows rows) p v fl) = None
  end.
Proof.
  destruct (says rows fl p v) as [[q w|]|] eqn:E;
    [now apply apply_replaced | now apply apply_deleted | now apply apply_untouched].
Qed.
Print Assumptions apply_exact_table.

Definition ex_rows : list row :=
  [ mkRow (lit "doxygen") (lit "1.5.9") None (Some (lit "1.6.3")) (lit "generic");
    mkRow (lit "python") (lit "any") None (Some (lit "2.6.2")) (lit "generic");
    mkRow (lit "tcltk") (lit "any") None None (lit "generic");
    mkRow (lit "tcltk") (lit "any") (Some (lit "dummytk")) (Some (lit "1.0")) (lit "DarwinX86") ].

Example remap_hyps_inhabited :
  remap true (m_of_rows ex_rows) (lit "Linux64") [ex_dep1; ex_dep2; ex_dep3] = [ex_dep1; ex_dep2] /\
  remap true (m_of_rows ex_rows) (lit "DarwinX86") [ex_dep3] = [replaced (lit "dummytk") (lit "1.0")].
Proof. vm_compute. repeat split. Qed.

Definition mk (p v : string) : dep := mkDep (lit p) (lit v) None None None None false false [].
Arguments mk (p v)%string.
Definition remap_pinned := remap_with (m_apply_pinned true).
Definition remap_pinned27 := remap_with (m_apply_pinned false).

(* the tree before the repair (D26): the row -a:1 None- deleted every version of a, not only 1;
   the repaired code keeps a 2 *)
Example remap_exact_refuted_pinned_delete_version :
  let rows := [mkRow (lit "a") (lit "1") None None (lit "generic")] in
  says rows (lit "generic") (lit "a") (lit "2") = None /\
  remap_pinned (m_of_rows_pinned rows) (lit "generic") [mk "a" "2"] = [] /\
  remap true (m_of_rows rows) (lit "generic") [mk "a" "2"; mk "a" "1"] = [mk "a" "2"].
Proof. vm_compute. repeat split. Qed.

(* the tree before the repair (D26): a deletion row next to a replacement row of the same product
   was lost *)
Example remap_exact_refuted_pinned_delete_lost :
  let rows := [mkRow (lit "a") (lit "1") None (Some (lit "2")) (lit "generic");
               mkRow (lit "a") (lit "any") None None (lit "generic")] in
  says rows (lit "generic") (lit "a") (lit "3") = Some Delete /\
  remap_pinned (m_of_rows_pinned rows) (lit "generic") [mk "a" "3"] = [mk "a" "3"] /\
  remap true (m_of_rows rows) (lit "generic") [mk "a" "3"; mk "a" "1"] = [replaced (lit "a") (lit "2")].
Proof. vm_compute. repeat split. Qed.

(* the tree before the repair (D27): the Linux64 row sends every a to version 2, the generic row
   to version 3; the entry a 2 on Linux64 became a 3 (with or without the repair of D26) *)
Example remap_exact_refuted_pinned_identity :
  let rows := [mkRow (lit "a") (lit "any") None (Some (lit "2")) (lit "Linux64");
               mkRow (lit "a") (lit "any") None (Some (lit "3")) (lit "generic")] in
  says rows (lit "Linux64") (lit "a") (lit "2") = Some (Replace (lit "a") (lit "2")) /\
  remap_pinned (m_of_rows_pinned rows) (lit "Linux64") [mk "a" "2"] = [replaced (lit "a") (lit "3")] /\
  remap_pinned27 (m_of_rows rows) (lit "Linux64") [mk "a" "2"] = [replaced (lit "a") (lit "3")] /\
  remap true (m_of_rows rows) (lit "Linux64") [mk "a" "2"] = [mk "a" "2"].
Proof. vm_compute. repeat split. Qed.

(* ================================================================== merged tables *)

(* Mapping.merge(other, overwrite) is the row-wise union of the two tables: every lookup
   (flavor, product, version) in the merged table is the lookup in the table that takes
   precedence when it has such a row, else the lookup in the other one.  fm_nodup: the
   dictionaries have no duplicate keys, which holds of every table built by add and merge. *)
Theorem merge_lookup m o ow f p k :
  fm_nodup (mp_map o) ->
  fm_get (mp_map (m_merge m o ow)) f p k =
  if ow then match fm_get (mp_map o) f p k with Some x => Some x | None => fm_get (mp_map m) f p k end
  else match fm_get (mp_map m) f p k with Some x => Some x | None => fm_get (mp_map o) f p k end.
Proof.
  intros H. rewrite <- !mget_fm_get. cbn [m_merge mp_map]. rewrite mget_fm_merge by assumption.
  destruct ow; reflexivity.
Qed.
Print Assumptions merge_lookup.

(* laws, up to the equality of all lookups: the empty table is neutral, merge is idempotent and
   associative, and merging without overwrite is merging the other way round with overwrite *)
Theorem merge_laws a b c ow :
  fm_nodup a -> fm_nodup b -> fm_nodup c ->
  fm_merge a [] ow = a /\ fm_equiv (fm_merge [] a ow) a /\ fm_equiv (fm_merge a a ow) a /\
  fm_equiv (fm_merge (fm_merge a b ow) c ow) (fm_merge a (fm_merge b c ow) ow) /\
  fm_equiv (fm_merge a b false) (fm_merge b a true) /\
  fm_nodup (fm_merge a b ow).
Proof.
  intros Ha Hb Hc. split; [reflexivity|]. split; [now apply merge_empty_l|]. split; [now apply merge_idem|].
  split; [now apply merge_assoc|]. split; [now apply merge_flip|]. now apply fm_merge_nodup.
Qed.
Print Assumptions merge_laws.

(* the merged table of two remap tables is the table of the concatenated rows, the rows of the
   table that takes precedence last *)
Theorem merge_is_concatenation a b ow :
  fm_equiv (mp_map (m_merge (m_of_rows a) (m_of_rows b) ow))
           (mp_map (m_of_rows (if ow then a ++ b else b ++ a))).
Proof. apply merge_rows. Qed.
Print Assumptions merge_is_concatenation.

(* remapEntries with the rows of the manifest.remap files merged under the rows passed in (a per-user
   or rebuild table over a server table) does exactly what all the rows together say *)
Theorem remap_merged_exact extra files fl ds :
  remap true (m_merge (m_of_rows extra) (m_of_rows files) false) fl ds = spec_remap (files ++ extra) fl ds.
Proof. apply remap_merged_says. Qed.
Print Assumptions remap_merged_exact.

(* the tree before the repair: merge took the flavors for products and the products for versions, so
   the unit kept or replaced was the whole dictionary of a product; the file row for a 2 was lost
   when the table passed in had a row for a 1 *)
Example merge_refuted_pinned :
  let extra := [mkRow (lit "a") (lit "1") None (Some (lit "5")) (lit "generic")] in
  let files := [mkRow (lit "a") (lit "2") None (Some (lit "6")) (lit "generic")] in
  says (files ++ extra) (lit "generic") (lit "a") (lit "2") = Some (Replace (lit "a") (lit "6")) /\
  remap true (m_merge_pinned (m_of_rows extra) (m_of_rows files) false) (lit "generic") [mk "a" "2"] = [mk "a" "2"] /\
  remap true (m_merge (m_of_rows extra) (m_of_rows files) false) (lit "generic") [mk "a" "2"]
    = [replaced (lit "a") (lit "6")].
Proof. vm_compute. repeat split. Qed.

(* ================================================================== remap files *)

(* remap_rows mode text: the rows the lines of a manifest.remap file name when the mode asked for
   is mode (None on installation, create when a distribution is made): comments and blank lines
   dropped, a line with a bracketed prefix applies exactly when the prefix is the mode, a line
   without prefix exactly when no mode is asked for, verbose lines skipped, each remaining line
   -product[:version] [[outProduct:]outVersion] [flavor]- one row.  Err Crash: a field that begins
   with a colon (AttributeError in the code). *)

(* the reader adds exactly the rows of the file, in the order of the file *)
Theorem read_remap_adds_rows ow mode text m :
  read_remap ow mode text m =
  match remap_rows mode text with
  | Ok rows => Ok (fold_left (add_row_ow ow) rows m)
  | Err e => Err e
  end.
Proof. apply read_remap_rows. Qed.
Print Assumptions read_remap_adds_rows.

(* remapEntries(mapping, mode) with manifest.remap files: the entries are treated exactly as the
   rows of the files (in the order of hooks.customisationDirs) followed by the rows passed in say *)
Theorem remap_entries_exact extra texts mode fl ds frows :
  files_rows mode texts = Ok frows ->
  remap_entries true (m_of_rows extra) texts mode fl ds =
  Ok (m_merge (m_of_rows extra) (m_of_rows frows) false, spec_remap (frows ++ extra) fl ds).
Proof. apply remap_entries_says. Qed.
Print Assumptions remap_entries_exact.

(* Mapping.__str__ prints a table in the format of manifest.remap; reading the print back gives a
   table that answers every lookup as the printed one (python: equal dictionaries), hence remaps
   alike.  wf_table: fields are words free of hash signs, in-products free of colons and equals
   signs and not opening a bracket, in-versions not the capitalised Any, out-versions none of
   any / none / None / noreinstall, removal rows carry the in-product *)
Theorem remap_print_parse m :
  wf_table m = true -> fm_nodup (mp_map m) ->
  exists m', read_remap true None (m_print m) empty_mapping = Ok m' /\
             fm_equiv (mp_map m') (mp_map m) /\ mp_nore m' = [] /\
             forall fl ds, remap true m' fl ds = remap true m fl ds.
Proof.
  intros Hwf Hnd. destruct (print_parse_lemma m Hwf Hnd) as [m' [H1 [H2 H3]]].
  exists m'. repeat split; auto. intros fl ds. now apply remap_equiv.
Qed.
Print Assumptions remap_print_parse.

Corollary remap_print_parse_table rows :
  wf_table (m_of_rows rows) = true ->
  exists m', read_remap true None (m_print (m_of_rows rows)) empty_mapping = Ok m' /\
             forall fl ds, remap true m' fl ds = spec_remap rows fl ds.
Proof.
  intros Hwf. destruct (remap_print_parse _ Hwf (m_of_rows_nodup rows)) as [m' [H1 [_ [_ H4]]]].
  exists m'. split; [assumption|]. intros fl ds. now rewrite H4, remap_exact.
Qed.
Print Assumptions remap_print_parse_table.

(* the example of the documentation of remapEntries *)
Definition nl1 : str := [c_nl].
Definition ex_file : str :=
  lit "# a comment" ++ nl1 ++
  lit "doxygen:1.5.9                1.6.3" ++ nl1 ++
  lit "python:Any                   2.6.2   # any python" ++ nl1 ++
  nl1 ++
  lit "tcltk                        None" ++ nl1 ++
  lit "tcltk:*                      dummy:1.0               DarwinX86" ++ nl1 ++
  lit "[create]afwdata              None" ++ nl1 ++
  lit "verbose = 1" ++ nl1.

Example remap_file_inhabited :
  remap_rows None ex_file =
    Ok [ mkRow (lit "doxygen") (lit "1.5.9") (Some (lit "doxygen")) (Some (lit "1.6.3")) (lit "generic");
         mkRow (lit "python") (lit "any") (Some (lit "python")) (Some (lit "2.6.2")) (lit "generic");
         mkRow (lit "tcltk") (lit "any") (Some (lit "tcltk")) None (lit "generic");
         mkRow (lit "tcltk") (lit "*") (Some (lit "dummy")) (Some (lit "1.0")) (lit "DarwinX86") ] /\
  remap_rows (Some (lit "create")) ex_file =
    Ok [ mkRow (lit "afwdata") (lit "any") (Some (lit "afwdata")) None (lit "generic") ] /\
  wf_table (m_of_rows ex_rows) = true /\
  m_print (m_of_rows [mkRow (lit "tcltk") (lit "any") None None (lit "generic");
                      mkRow (lit "a") (lit "1") (Some (lit "b")) (Some (lit "2")) (lit "Linux64")])
    = lit "tcltk:any    None    generic" ++ nl1 ++ lit "a:1    b:2    Linux64" ++ nl1.
Proof. vm_compute. repeat split. Qed.

(* the tree before the repair: remapEntries passed its mode in the place of overwrite, so the reader
   saw no mode; the create line was applied on installation too (afwdata dropped although no line
   for installation names it), and the lines for installation were applied when creating *)
Example remap_mode_refuted_pinned :
  (exists m, read_remap_pinned None ex_file empty_mapping = Ok m /\
             remap true m (lit "Linux64") [mk "afwdata" "1"] = []) /\
  (exists m, read_remap true None ex_file empty_mapping = Ok m /\
             remap true m (lit "Linux64") [mk "afwdata" "1"] = [mk "afwdata" "1"]) /\
  (exists m, read_remap_pinned (Some (lit "create")) ex_file empty_mapping = Ok m /\
             remap true m (lit "Linux64") [mk "doxygen" "1.5.9"] = [replaced (lit "doxygen") (lit "1.6.3")]) /\
  (exists m, read_remap true (Some (lit "create")) ex_file empty_mapping = Ok m /\
             remap true m (lit "Linux64") [mk "doxygen" "1.5.9"; mk "afwdata" "1"] = [mk "doxygen" "1.5.9"]).
Proof. repeat split; eexists; (split; [vm_compute; reflexivity|vm_compute; reflexivity]). Qed.

(* an entry replaced by version dummy of a product without such a version is declared on the way
   (at most once); the list that comes back does not depend on it *)
Example remap_dummy_inhabited :
  let rows := [mkRow (lit "tcltk") (lit "any") (Some (lit "tk")) (Some (lit "dummy")) (lit "generic")] in
  remap_declares (m_of_rows rows) (lit "Linux64") [] [mk "tcltk" "8.5"; mk "a" "1"; mk "tcltk" "8.6"] = [lit "tk"] /\
  remap_declares (m_of_rows rows) (lit "Linux64") [lit "tk"] [mk "tcltk" "8.5"] = [].
Proof. vm_compute. repeat split. Qed.

(* ================================================================== inverse *)

(* m_rows m: the rows (flavor, inProduct, inVersion, outProduct, outVersion) Mapping.inverse
   visits; a row without out-version is a removal and is skipped.  invertible_row: a replacement
   row has explicit versions on both sides (no any) and nothing that add would take for the
   noreinstall keyword or for -absent-.  one_to_one m fl: seen from the running flavor fl (its own
   rows before the generic ones) no two named entries that are kept are sent to the same target.
   fm_nodup: the dictionaries have no duplicate keys, which holds of every Mapping built by add
   (inverse_undoes_table). *)

(* for a one-to-one mapping the inverse undoes apply on every entry the mapping names and keeps;
   rows that map an entry to itself and removal rows are allowed *)
Theorem inverse_undoes m inv fl p v q w :
  fm_nodup (mp_map m) ->
  forallb invertible_row (m_rows m) = true -> one_to_one m fl = true ->
  m_inverse m = Ok inv ->
  in_dom m fl p v = true -> m_apply m p v fl = (q, Some w) ->
  m_apply inv q w fl = (p, Some v).
Proof.
  intros Hnd Hwf H11 Hinv Hdom Happ.
  eapply inverse_undoes_lemma; eauto using one_to_one_inj.
Qed.
Print Assumptions inverse_undoes.

Corollary inverse_undoes_table rows inv fl p v q w :
  forallb invertible_row (m_rows (m_of_rows rows)) = true -> one_to_one (m_of_rows rows) fl = true ->
  m_inverse (m_of_rows rows) = Ok inv ->
  in_dom (m_of_rows rows) fl p v = true -> m_apply (m_of_rows rows) p v fl = (q, Some w) ->
  m_apply inv q w fl = (p, Some v).
Proof. apply inverse_undoes. apply m_of_rows_nodup. Qed.
Print Assumptions inverse_undoes_table.

(* two replacement rows of one flavor with the same target: inverse raises *)
Theorem inverse_rejects_non_injective m R1 r1 R2 r2 R3 :
  forallb invertible_row (m_rows m) = true ->
  m_rows m = R1 ++ r1 :: R2 ++ r2 :: R3 -> live_row r1 = true -> row_target r1 = row_target r2 ->
  m_inverse m = Err Refused.
Proof. intros H1 H2 H3 H4. eapply inverse_rejects_lemma; eauto. Qed.
Print Assumptions inverse_rejects_non_injective.

(* and only then: with pairwise different targets of the replacement rows inverse succeeds *)
Theorem inverse_accepts_injective m :
  forallb invertible_row (m_rows m) = true -> NoDup (map row_target (filter live_row (m_rows m))) ->
  exists inv, m_inverse m = Ok inv.
Proof. intros H1 H2. apply inverse_accepts_lemma; [assumption|]. now apply NoDup_tgt_lives. Qed.
Print Assumptions inverse_accepts_injective.

Definition ex_inv_rows : list row :=
  [ mkRow (lit "a") (lit "1") None (Some (lit "2")) (lit "generic");
    mkRow (lit "b") (lit "1") (Some (lit "c")) (Some (lit "7")) (lit "generic");
    mkRow (lit "a") (lit "1") (Some (lit "d")) (Some (lit "4")) (lit "Linux64");
    mkRow (lit "k") (lit "1") None (Some (lit "1")) (lit "Linux64");
    mkRow (lit "k") (lit "1") None (Some (lit "9")) (lit "generic");
    mkRow (lit "z") (lit "any") None None (lit "generic") ].

Example inverse_hyps_inhabited :
  forallb invertible_row (m_rows (m_of_rows ex_inv_rows)) = true /\
  one_to_one (m_of_rows ex_inv_rows) (lit "Linux64") = true /\
  in_dom (m_of_rows ex_inv_rows) (lit "Linux64") (lit "a") (lit "1") = true /\
  m_apply (m_of_rows ex_inv_rows) (lit "a") (lit "1") (lit "Linux64") = (lit "d", Some (lit "4")) /\
  m_apply (m_of_rows ex_inv_rows) (lit "k") (lit "1") (lit "Linux64") = (lit "k", Some (lit "1")) /\
  exists inv, m_inverse (m_of_rows ex_inv_rows) = Ok inv /\
              m_apply inv (lit "d") (lit "4") (lit "Linux64") = (lit "a", Some (lit "1")) /\
              m_apply inv (lit "c") (lit "7") (lit "Linux64") = (lit "b", Some (lit "1")) /\
              m_apply inv (lit "k") (lit "1") (lit "Linux64") = (lit "k", Some (lit "1")).
Proof. do 5 (split; [vm_compute; reflexivity|]). vm_compute. eexists. split; [reflexivity|]. repeat split. Qed.

Example inverse_rejects_inhabited :
  m_inverse (m_of_rows [ mkRow (lit "a") (lit "1") None (Some (lit "3")) (lit "generic");
                         mkRow (lit "a") (lit "2") None (Some (lit "3")) (lit "generic") ]) = Err Refused.
Proof. vm_compute. reflexivity. Qed.
