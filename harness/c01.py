"""C01 - setup yields a consistent environment with no residue of superseded versions.

Model: coq/Model/Setup.v (driver build/c01/run); theorems: coq/Props/C01.v (the consistency invariant is preserved by
every call of setup, for every resolver).  Tie and oracle: harness/setupsim.py.
"""
import json

import common
import setupsim as S


MS_PLAIN, MS_DIRECTED, REFS, NEIGHBOURS = 40, 24, 36, 30      # quick-tier sizes of the families added in round 5
SESSIONS, SHARED_TABLE = 40, 24                               # ... in round 6


def gen_scenario(rng):
    w = S.gen_world(rng)
    reqs = [S.gen_request(rng, w, allow_fail=0.0) for _ in range(rng.choice([0, 1, 2, 3]))]
    last = S.gen_request(rng, w, allow_fail=0.08)
    env0 = {"PATH": "/usr/bin:/bin"}
    if rng.random() < 0.3:
        env0["PATH"] = "/usr/bin::/opt/x/bin:/usr/bin:/bin:"
    if rng.random() < 0.3:
        env0["LD_LIBRARY_PATH"] = "/usr/lib"
    if rng.random() < 0.3:
        env0["XLIST"] = "/pre/x;/pre/y"
    return {"world": w, "requests": reqs + [last], "env0": env0}


def gen_scenario_full(rng):
    """scenarios aimed at the composed model (setup + resolver): the other dependency-line forms processArgs
    accepts (bracketed expression without a version, relational version, -j with a version), and every request
    of the sequence may carry --keep / --just / --max-depth or name a version"""
    import re
    w = S.gen_world(rng)
    for name, vs in w["products"].items():
        for v, lines in vs.items():
            for i, l in enumerate(lines):
                m = re.match(r"(setupRequired|setupOptional)\((\w+)", l)
                if m and rng.random() < 0.4:
                    dep, v1, v2 = m.group(2), rng.choice(S.VERSIONS), rng.choice(S.VERSIONS)
                    form = rng.choice(["%s [>= %s]" % (dep, v1), "%s >= %s" % (dep, v1), "%s %s [== %s]" % (dep, v1, v2),
                                       "%s -j %s" % (dep, v1), "%s < %s" % (dep, v1), "%s %s [> %s]" % (dep, v1, v2)])
                    lines[i] = "%s(%s)" % (m.group(1), form)
    reqs = []
    for _ in range(rng.choice([1, 2, 3, 4])):
        rq = S.gen_request(rng, w, allow_fail=0.05)
        r = rng.random()
        if r < 0.3:
            rq["keep"] = True
        elif r < 0.4:
            rq["just"] = True
        elif r < 0.55:
            rq["max_depth"] = rng.choice([0, 1, 2])
        elif r < 0.62:
            rq = {"name": rq["name"], "fwd": False}
        reqs.append(rq)
    env0 = {"PATH": "/usr/bin:/bin"}
    if rng.random() < 0.3:
        env0["XLIST"] = "/pre/x;/pre/y"
    return {"world": w, "requests": reqs, "env0": env0}


def contributions_state(res, env, name, version):
    """(present elements/values, absent elements/values) of one product version in env"""
    paths, sets, _ = S.own_contributions(res, name, version)
    own_dir = S.product_dirs(res)[(name, version)]
    under = lambda x: x == own_dir or x.startswith(own_dir + "/")
    pres, miss = [], []
    for var, val, d in paths:
        have = [x for x in (env.get(var) or "").split(d) if x]
        # a value that refers to other variables contributes the elements of its expansion in env; such an element
        # is the version's OWN (counts as a residue when the version is not set up) only if it lies in its directory:
        # the same site directory may be contributed by several products
        for el in S.path_contribution_elems(val, d, env):
            if el in have:
                if not S.has_ref(val) or under(el):
                    pres.append((var, el))
            else:
                miss.append((var, el))
    for var, val in sets.items():
        ref = S.has_ref(val)
        if ref:
            val = S.expand_refs(val, env)
            if not val:
                continue            # cannot be expanded from env / expands to nothing: the line is skipped
        if env.get(var) == val:
            if not ref or any(under(x) for x in val.replace(";", ":").split(":")):
                pres.append((var, val))
        else:
            miss.append((var, val))
    return pres, miss


def inv_violation(s, res, env):
    """None if the environment is consistent (the python statement of Inv), else a description"""
    recs = S.setup_records(env)
    dirs = S.product_dirs(res)
    for name, vs in s["world"]["products"].items():
        rec = recs.get(name)
        for v in vs:
            pres, miss = contributions_state(res, env, name, v)
            if rec == v:
                if env.get(name.upper() + "_DIR") != dirs[(name, v)]:
                    return "%s_DIR is %r, declared directory of %s %s is %r" % (
                        name.upper(), env.get(name.upper() + "_DIR"), name, v, dirs[(name, v)])
                if miss:
                    return "%s %s is set up but its contributions %r are missing" % (name, v, miss[:3])
            elif pres:
                return "%s %s is not the set-up version (%s) but its contributions %r are present" % (
                    name, v, rec, pres[:3])
    return None


def closure_oracle(ctx, s, res, rec, case):
    """the closure clause, evaluated on the real run: when every product asked for during the request (successful
    branches and failed optional ones alike) was decided at one version and the request succeeded, the products set
    up are the dependency closure - required lines, plus optional lines whose product sets up (its version is found,
    its required dependencies set up, and every command of its table can be executed); a line that says -j
    contributes its product and not that product's dependencies - each at the decided version.
    Nothing reachable set up before: the products set up among the reachable ones are EXACTLY the closure (the
    clause as proved: closure_exact in coq/Props/C01.v, there without -j lines).
    Something reachable set up before: every member of the closure is set up at its version, except the members
    that the unsetup of a replaced version may have taken away (DESIGN section 7: a version that is replaced is
    unset up together with the dependencies of ITS table - unless it is asked for with -j, which unsets it alone).
    (No --just / --max-depth / --keep on the request.)"""
    rq = rec["request"]
    if not rec["ok"] or not rq.get("fwd", True) or rq.get("keep") or rq.get("just") or rq.get("max_depth") is not None:
        return
    D = {}
    for n, v in zip(rec["decision_names"], rec["decisions"]):
        if n in D and D[n] != v:
            ctx.bump("closure-oracle:conflicting-versions")
            return
        D[n] = v
    touched = S.touched_names(res, rq["name"])
    before = S.setup_records(rec["before"])
    prior = any(n in before for n in touched)

    def lines(n, v=None):
        out = []
        for a in res["parsed"]["%s %s" % (n, v or D[n])]["actions"]:
            f = a.split(",")
            if f[0] == "S":
                out.append((f[1] == "1", common.dec(f[2]), f[3] == "1"))
        return out
    env_names = set(rec["before"]) | set(rec["after"])

    def executable(n):
        # a table with a command that cannot be executed does not set up: a reference without ? and without default
        # to a variable that no environment of the request defines
        import re
        for a in res["parsed"]["%s %s" % (n, D[n])]["actions"]:
            if a[:2] in ("P,", "E,"):
                for x in a.split(",")[1:]:
                    for opt, key, dflt in re.findall(r"\$(\?)?{([^-}]*)(?:-([^}]+))?}", common.dec(x)):
                        if not opt and not dflt and key not in env_names:
                            return False
        return True
    memo = {}

    def sets_up(n, alone=False):
        """does the product set up?  alone: asked for with -j (its dependency lines are not read)"""
        if D.get(n) is None or "%s %s" % (n, D[n]) not in res["parsed"]:
            return False
        if (n, alone) not in memo:
            memo[(n, alone)] = True         # (acyclic worlds)
            memo[(n, alone)] = executable(n) and (alone or all(sets_up(x, j) for (opt, x, j) in lines(n) if not opt))
        return memo[(n, alone)]
    closure, todo, has_j = {}, [(rq["name"], False)], False
    while todo:
        n, alone = todo.pop()
        if n in closure and (closure[n] is False or alone):
            continue
        closure[n] = alone and closure.get(n, True)
        if alone:
            has_j = True
            continue
        for (opt, x, j) in lines(n):
            if sets_up(x, j):
                todo.append((x, j))
    if not sets_up(rq["name"]):
        return
    after = S.setup_records(rec["after"])
    expected = {n: D[n] for n in closure}
    if not prior:
        ctx.bump("closure-oracle:evaluated")
        if has_j:
            ctx.bump("closure-oracle:evaluated-with--j-lines")
        if len(closure) > 2:
            ctx.bump("closure-oracle:evaluated-3-or-more-products")
        observed = {n: v for n, v in after.items() if n in touched}
        if expected != observed:
            ctx.fail("closure", case, expected=expected, observed=observed,
                     what="setup %s: the products set up among the reachable ones are %r, the dependency closure at the "
                          "decided versions is %r" % (rq["name"], observed, expected))
        return
    # something reachable was set up before: what the unsetup of a replaced version may take away
    g = S.world_graph_lines(res)
    removable = set()
    for n, v in before.items():
        if n in D and D[n] is not None and D[n] != v and not closure.get(n, False) and "%s %s" % (n, v) in res["parsed"]:
            # n is replaced, and not by a -j line alone: its old table is unset up recursively
            todo2 = [x for (opt, x, j) in lines(n, v)]
            while todo2:
                m = todo2.pop()
                if m not in removable:
                    removable.add(m)
                    todo2 += [x for (x, j) in g.get(m, ())]
    ctx.bump("closure-oracle:evaluated-with-prior-set-ups")
    if has_j:
        ctx.bump("closure-oracle:evaluated-with-prior-set-ups-and--j-lines")
    missing = {n: v for n, v in expected.items() if n not in removable and after.get(n) != v}
    if missing:
        ctx.fail("closure-member-missing", case, expected=missing, observed={n: after.get(n) for n in missing},
                 what="setup %s: %r belong to the dependency closure at the decided versions (no product was asked for "
                      "in two versions, none of them is below a replaced version that is unset up with its "
                      "dependencies) but are set up as %r" % (rq["name"], missing, {n: after.get(n) for n in missing}))


def oracle(ctx, s, res):
    rec = res["records"][-1]
    rq = rec["request"]
    before, after = rec["before"], rec["after"]
    sb, sa = S.setup_records(before), S.setup_records(after)
    switched = sorted(n for n in sb if sa.get(n) != sb[n])
    shape = "%s/%s/%s" % ("explicit" if rq.get("version") else "bare", "ok" if rec["ok"] else "failed",
                          "switches-%d" % min(len(switched), 3))
    ctx.count(1, key=shape, nontrivial=json.dumps([s["world"], s["requests"]], sort_keys=True) if rec["ok"] else None)
    if not rec["ok"]:
        return
    case = {"world": s["world"], "requests": s["requests"], "env0": s["env0"]}
    # the version named explicitly is the version set up
    if rq.get("version") and not S.parse_relational(rq["version"]) and sa.get(rq["name"]) != rq["version"]:
        ctx.fail("explicit-version", case, expected=rq["version"], observed=sa.get(rq["name"]),
                 what="setup %s %s recorded version %s" % (rq["name"], rq["version"], sa.get(rq["name"])))
        return
    # no residue of a version replaced during the request; directory variable and own contributions of what is set up
    dirs = S.product_dirs(res)
    for name in switched:
        old = sb[name]
        if old in s["world"]["products"].get(name, {}):
            pres, _ = contributions_state(res, after, name, old)
            if pres:
                ctx.fail("residue", case, expected="nothing of %s %s left" % (name, old), observed=pres[:4],
                         what="%s %s was replaced by %s during the request but %r is still present" % (
                             name, old, sa.get(name), pres[:3]))
                return
            d = dirs[(name, old)]
            for var, val in after.items():
                if not var.startswith("SETUP_") and any(x == d or x.startswith(d + "/") for x in val.replace(";", ":").split(":")):
                    ctx.fail("residue-dir", case, expected=None, observed={var: val},
                             what="%s still refers to the directory of the replaced %s %s" % (var, name, old))
                    return
    for name, v in sa.items():
        if (name, v) in dirs:
            if after.get(name.upper() + "_DIR") != dirs[(name, v)]:
                ctx.fail("dir-variable", case, expected=dirs[(name, v)], observed=after.get(name.upper() + "_DIR"),
                         what="%s_DIR does not hold the declared directory of %s %s" % (name.upper(), name, v))
                return
    # the invariant as a whole, when it held before the request
    if inv_violation(s, res, before) is None:
        bad = inv_violation(s, res, after)
        ctx.bump("invariant-held-before")
        if bad:
            ctx.fail("invariant", case, expected="consistent environment", observed=bad, what=bad)
            return
    # the closure clause, on every request of the scenario
    for r in res["records"]:
        closure_oracle(ctx, s, res, r, case)


def oracle_ms(ctx, s, res):
    """the same clauses on a world with several stacks: a product is identified by its version AND the stack that
    SETUP_NAME records (setupsim.ms_records reads the value the way findSetupVersion does)"""
    rec = res["records"][-1]
    rq = rec["request"]
    before, after = rec["before"], rec["after"]
    sb, sa = S.ms_records(before), S.ms_records(after)
    switched = sorted(n for n in sb if sa.get(n) != sb[n])
    shape = "ms/%s/%s/%s/switches-%d" % ("explicit" if rq.get("version") else "bare",
                                         "selected-stacks" if (rq.get("Z") is not None or rq.get("z")) else "whole-path",
                                         "ok" if rec["ok"] else "failed", min(len(switched), 3))
    ctx.count(1, key=shape, nontrivial=json.dumps([s["world"], s["requests"]], sort_keys=True) if rec["ok"] else None)
    if not rec["ok"]:
        return
    case = {"world": s["world"], "requests": s["requests"], "env0": s["env0"]}
    name = rq["name"]
    if rq.get("fwd", True):
        if rq.get("version") and not S.parse_relational(rq["version"]) and (sa.get(name) or (None,))[0] != rq["version"]:
            ctx.fail("explicit-version", case, expected=rq["version"], observed=sa.get(name),
                     what="setup %s %s recorded %r" % (name, rq["version"], sa.get(name)))
            return
        # the stack recorded is the one the product was found in, and one the command selected
        found = rec["decisions"][0] if rec["decisions"] else None
        got = list(sa[name][:2]) if name in sa else None
        sel = S.selected_roots(res["roots"], rq)
        if found is None or got != found or got[1] not in sel:
            ctx.fail("recorded-stack", case, expected=S.strip_roots(res, found), observed=S.strip_roots(res, got),
                     what="setup %s: the product was found as %r (stacks selected: %r), SETUP_%s records %r" % (
                         name, S.strip_roots(res, found), S.strip_roots(res, sel), name.upper(), S.strip_roots(res, got)))
            return
    for n in switched:
        old = sb[n]
        info = S.ms_entry(res, n, old[0], old[1])
        if info is None:
            continue
        cur = S.ms_entry(res, n, sa[n][0], sa[n][1]) if n in sa else None
        pres, _ = S.ms_contributions_state(info, after, minus=cur)
        if pres:
            ctx.fail("residue", case, expected="nothing of %s %s (stack%d) left" % (n, old[0], info["stack"]), observed=S.strip_roots(res, pres[:4]),
                     what="%s %s of stack%d was replaced by %r during the request but %r is still present" % (
                         n, old[0], info["stack"], S.strip_roots(res, sa.get(n)), S.strip_roots(res, pres[:3])))
            return
        d = info["dir"]
        for var, val in after.items():
            if not var.startswith("SETUP_") and any(x == d or x.startswith(d + "/") for x in val.replace(";", ":").split(":")):
                ctx.fail("residue-dir", case, expected=None, observed=S.strip_roots(res, {var: val}),
                         what="%s still refers to the directory of the replaced %s %s of stack%d" % (var, n, old[0], info["stack"]))
                return
    for n, (v, root, fl) in sa.items():
        info = S.ms_entry(res, n, v, root)
        if info is None:
            ctx.fail("recorded-undeclared", case, expected="a declared product", observed=S.strip_roots(res, [n, v, root]),
                     what="SETUP_%s records %s in %s, where it is not declared" % (n.upper(), v, S.strip_roots(res, root)))
            return
        if after.get(n.upper() + "_DIR") != info["dir"]:
            ctx.fail("dir-variable", case, expected=S.strip_roots(res, info["dir"]), observed=S.strip_roots(res, after.get(n.upper() + "_DIR")),
                     what="%s_DIR does not hold the directory of %s %s as declared in the recorded stack (stack%d)" % (
                         n.upper(), n, v, info["stack"]))
            return
        if fl != (info.get("flavor") or S.FLAVOR):
            ctx.fail("recorded-flavor", case, expected=info.get("flavor"), observed=fl,
                     what="SETUP_%s records flavor %s, %s %s is declared in that stack under %s" % (n.upper(), fl, n, v, info.get("flavor")))
            return
    # each product at the version the resolution order designates: a look-up by relational expression designates the
    # newest version, over all the stacks the command selected, that satisfies the expression
    sel = S.selected_roots(res["roots"], rq)
    for (m, alts, d) in S.ms_expression_requests(res, rec):
        want = S.designated_by_expression(res, sel, m, alts)
        got = d[0] if d else None
        ctx.bump("ms-expression-look-ups-evaluated")
        if len(set(i["root"] for i in res["parsed"] if i["name"] == m and i["root"] in sel and S.satisfies(i["version"], alts))) > 1:
            ctx.bump("ms-expression-look-ups-evaluated:satisfying-versions-in-both-stacks")
        if want != got:
            ctx.fail("designated-version", case, expected={m: want}, observed={m: got},
                     what="setup %s: %s was looked up by the expression %r; the newest version that satisfies it in the selected "
                          "stacks %r is %s, the version chosen is %s" % (name, m, " || ".join("%s %s" % a for a in alts),
                                                                          S.strip_roots(res, sel), want, got))
            return
    if S.ms_inv_violation(res, before) is None:
        bad = S.ms_inv_violation(res, after)
        ctx.bump("ms-invariant-held-before")
        if bad:
            ctx.fail("invariant", case, expected="consistent environment", observed=S.strip_roots(res, bad), what=S.strip_roots(res, bad))
            return


def designation_clause(ctx, s, res, case):
    """each product at the version the resolution order designates, stated for the plainest case: a product that is not
    set up when the request starts, that the request (if it names it) names without a version, and that every table
    line names bare, is set up at its current version - whatever the process did before the request (no --keep, no tag
    option on the request: the shipped order ends with current)"""
    for rec in res["records"]:
        rq = rec["request"]
        if not rec["ok"] or not rq.get("fwd", True) or rq.get("keep") or rq.get("tag"):
            continue
        before, after = S.setup_records(rec["before"]), S.setup_records(rec["after"])
        for n, v in zip(rec["decision_names"], rec["decisions"]):
            if v is None or n in before or (n == rq["name"] and rq.get("version")) or not S.bare_only(res, n):
                continue
            cur = [k.split(" ")[1] for k, info in res["parsed"].items() if k.split(" ")[0] == n and "current" in info["tags"]]
            if len(cur) != 1:
                continue
            ctx.bump("designation-clause:bare-look-ups-evaluated")
            if v != cur[0] or after.get(n) not in (None, cur[0]):       # (None: an optional branch that failed further down)
                ctx.fail("designated-version", case, expected={n: cur[0]}, observed={n: after.get(n), "decided": v},
                         what="request %d (setup %s): %s was not set up beforehand and is asked for without a version; "
                              "the resolution order designates the current version %s, the version decided on is %s and "
                              "the version set up is %s" % (res["records"].index(rec) + 1, rq["name"], n, cur[0], v, after.get(n)))
                return True
    return False


def oracle_session(ctx, s, res, fresh):
    """requests served by ONE long-lived Eups instance: the clauses of the property on every request of the session (the
    environment a request starts from is the one the previous request left), the designation clause, and - the property
    speaks of the request and the prior environment, not of what the instance served before - the same outcome as a
    fresh instance gives for the same request from the same environment"""
    case = {"world": s["world"], "requests": s["requests"], "env0": s["env0"], "session": True}
    ctx.bump("session:requests-on-one-instance-%d" % len(s["requests"]))
    if any(not q.get("fwd", True) for q in s["requests"][:-1]):
        ctx.bump("session:with-an-unsetup-in-between")
    for i in range(1, len(res["records"]) + 1):
        sub = dict(res, records=res["records"][:i])
        n = len(ctx.failures)
        if i == len(res["records"]):
            oracle(ctx, s, sub)
        elif res["records"][i - 1]["ok"]:
            oracle_quiet(ctx, s, sub)
        if len(ctx.failures) > n:
            ctx.failures[-1]["input"]["session"] = True
            return
    if designation_clause(ctx, s, res, case):
        return
    for i, (a, b) in enumerate(zip(res["records"], fresh["records"])):
        if a["before"] != b["before"]:
            break
        ctx.bump("session:requests-compared-with-a-fresh-instance")
        if (a["ok"], a["decisions"], a["after"]) != (b["ok"], b["decisions"], b["after"]):
            diff = {k: (b["after"].get(k), a["after"].get(k)) for k in set(a["after"]) | set(b["after"])
                    if a["after"].get(k) != b["after"].get(k)}
            ctx.fail("instance-history", case, expected={"ok": b["ok"], "decisions": b["decisions"]},
                     observed={"ok": a["ok"], "decisions": a["decisions"], "env_diff(fresh,session)": diff},
                     what="request %d (%s %s) from the same environment: an instance that served the earlier requests "
                          "decides %r, a fresh instance decides %r" % (i + 1, "setup" if a["request"].get("fwd", True) else "unsetup",
                                                                      a["request"]["name"], a["decisions"], b["decisions"]))
            return


def oracle_quiet(ctx, s, res):
    """the clauses of oracle on the last record of res, without the histogram count (a prefix of a session)"""
    count = ctx.count
    ctx.count = lambda *a, **k: None
    try:
        oracle(ctx, s, res)
    finally:
        ctx.count = count


def oracle_shared(ctx, s, res):
    """one table file for several versions: what the table gives each version is read off the generator's text by hand
    (PRODUCT_DIR, PRODUCT_VERSION of THAT version), not taken from the parser: every set-up version has its own
    contributions, nothing of a version that is not set up is left; then the clauses of oracle"""
    rec = res["records"][-1]
    case = {"world": s["world"], "requests": s["requests"], "env0": s["env0"]}
    if rec["ok"]:
        after = rec["after"]
        sa = S.setup_records(after)
        dirs = S.product_dirs(res)
        for name in s["world"].get("shared_tables", ()):
            ctx.bump("shared-table:requests-evaluated")
            if S.setup_records(rec["before"]).get(name) not in (None, sa.get(name)):
                ctx.bump("shared-table:a-version-replaced-by-another-of-the-same-file")
            for v in s["world"]["products"][name]:
                paths, sets = S.shared_table_contributions(s["world"], name, v, dirs[(name, v)])
                if sa.get(name) == v:
                    miss = [(var, el) for var, el in paths if el not in (after.get(var) or "").split(":")] + \
                           [(var, val) for var, val in sets.items() if after.get(var) != val]
                    if miss:
                        ctx.fail("own-contributions", case, expected=S.strip_stack(res, json.dumps(miss)), observed=S.strip_stack(res, json.dumps({var: after.get(var) for var, _ in miss})),
                                 what="%s %s is set up; its table (one file for all versions of %s, expanded for this version) "
                                      "contributes %s" % (name, v, name, S.strip_stack(res, json.dumps(miss[:3]))))
                        return
                else:
                    left = [(var, el) for var, el in paths if el in (after.get(var) or "").split(":")] + \
                           [(var, val) for var, val in sets.items() if after.get(var) == val and
                            (dirs[(name, v)] in val)]
                    if left:
                        ctx.fail("residue", case, expected="nothing of %s %s" % (name, v), observed=S.strip_stack(res, json.dumps(left)),
                                 what="%s %s is not set up (set up: %s) but %s is still there" % (name, v, sa.get(name), S.strip_stack(res, json.dumps(left[:3]))))
                        return
    oracle(ctx, s, res)


def m_dep_variable_after_dependency(f):
    """known finding D61: see setupsim.m_dep_variable_residue"""
    return S.m_dep_variable_residue(f)


def register(ctx):
    ctx.matchers["c01.dep_variable_after_dependency"] = m_dep_variable_after_dependency


def run(ctx):
    register(ctx)
    ctx.rule = ("random worlds (3-5 products x 1-3 versions, acyclic tables with path/envSet/alias commands and required/"
                "optional/versioned/expression/-j dependencies, diamonds with conflicting versions, stack path with or "
                "without a blank), 0-3 prior real setups (so other versions of the same products are already set up), "
                "final request bare or with an explicit version; then scenarios for the composed model: the other line "
                "forms (bracketed expression alone, relational version, -j with a version) and requests carrying "
                "--keep / --just / --max-depth / unsetup anywhere in the sequence; then worlds whose table texts vary "
                "(synonyms and letter case of command names, layout, quoting, legacy variable names, PRODUCT_NAME / "
                "VERSION / FLAVOR, UPS_DIR, PRODUCTS, PRODUCT_DIR_EXTRA, if / else if / else blocks on type and flavor, "
                "empty branches) with setups and unsetups, and directed tables (first-spelling rule of PRODUCT_DIR, "
                "replacement in the first argument, option words of dependency lines, a fall-back-flavor product with "
                "a flavor condition); then worlds of two stacks (random split, and directed: the same version in both "
                "stacks with the copy of the later stack set up and then replaced; look-ups by relational expression whose "
                "newest satisfying version is only in the later stack, as a table line and as the top-level request); "
                "tables whose values refer to other variables (the directory variable of a dependency set up by an "
                "earlier line in envSet and - findings D60 / D61 - in path commands; list-valued variables of the user's "
                "environment in the forms ${V}, $?{V}, ${V-default}) with the owner's and the dependency's version being "
                "replaced; neighbours (names in a prefix relation, -j on table lines, the exact block of an expanded "
                "table, a product below the request set up beforehand with its own dependencies); sessions of 2-5 requests "
                "served by ONE long-lived Eups instance (selectVRO + Eups.setup per request; an explicit set-up, an unsetup, "
                "then a request that meets the product again bare - as a dependency or at the top level, D63), every "
                "session also run with one instance per request; products whose versions are declared with ONE table "
                "file named by an absolute path (declare -m), one version replaced by another; non-trivial = the "
                "final request succeeds; distinct = distinct (world, requests)")
    ctx.trusted_base = common.COMMON_TRUSTED + [
        "two model runs per request: Model/Setup.v fed with the decisions of the real resolver (captured by a spy), and "
        "the composed model Model/SetupFull.v (setup + the resolver of C03, alreadySetupProducts, per-line VRO) fed with "
        "NO decisions - world, per-line request information as the real Action.processArgs returns it, chain files as "
        "the real database reports them, environment before; compared: success, environment, aliases, and every "
        "version decided along the way",
        "tables enter these two models as the actions the real parser derives (C11); a third run per request, the "
        "text-fed model Model/SetupText.v (C11's table_actions, the implicit product line, expandEupsVariables, command "
        "kinds, processArgs, then Model/Setup.v), starts from the table TEXTS the generator wrote and is fed the same "
        "decisions; every table is also compared action by action (text-table-comparisons)",
        "harness/setupsim.py tworld_field / model_line_text: directory and flavor of every product as the real "
        "findProduct reports them; Eups.setupType = exact and the implicit product name as shipped",
        "the composed model runs twice: with the dotted-numeric comparator of Model/Resolve.v on worlds whose version "
        "names are 1.0 2.0 3.0 9.9 (composed-model-comparisons), and with the comparator and the matcher of C10 "
        "(coq/Model/ResolveReal.v request_full_real, op fullv) on every world (real-comparator-comparisons), among them "
        "the worlds of gen_world_versions: version names of C10's grammar (1.0.1 1.0+1 1.0-rc1 1.10 1.9 v1_2, spellings "
        "of one key) and relational expressions with alternatives over them; the declarations reach the model in the "
        "listing order of Database.findProducts (version names sorted as strings)",
        "harness/setupsim.py line_infos / model_line_full: encoding of processArgs results and product tags"]
    ctx.assumptions = ["sessions on one instance: Model/SetupSession.v (the code after the repair of D63), "
                       "session_on_one_instance_is_memoryless; the session oracle adds the designation clause for bare "
                       "look-ups (current) and the same-outcome-as-a-fresh-instance comparison",
                       "declared products only (no setup -r, no --force); the theorems of the one-stack model and their "
                       "ms_ counterparts for several stacks (closure clause: one stack; several stacks by the tie and "
                       "the designation oracle for look-ups by relational expression)",
                       "table values that refer to other variables are outside WF (wf_path / wf_set: values free of "
                       "references): covered by the tie, the oracles, envset_is_taken_back_whatever_its_value and the "
                       "Examples dep_variable_residue_refuted (finding D61, matcher c01.dep_variable_after_dependency)",
                       "composed model: dependency lines of the forms name / name version / name version [expr] / "
                       "name [expr] / name relational-expression, with or without -j; no -t, --vro, -k on a line; the "
                       "shipped configuration (Generated/Config.v); closure_exact: conflict_free, no --max-depth, "
                       "no --just, no -j line, no keep in the VRO, wf_db and a total order on the version names; "
                       "closure_exact_real: the same with fw_real_ok (conventional names, per product no two spellings "
                       "of one key) instead of the total order; closure_exact_real_sorted: fw_conv and db_sorted "
                       "(conventional names, listings sorted as strings), the designation rule read in vcmp_sorted",
                       "WF2 of Proofs/SetupInv.v for the theorems (contributions of different names and versions apart, "
                       "acyclic dependency graph over names, single-word names and versions)"]
    ctx.check_theorems()
    scenarios = [c for c in S.corpus("C01") if not S.is_ms(c["world"]) and not c.get("session")] + [gen_scenario(ctx.rng) for _ in range(ctx.size(150, 3000))]
    for s in scenarios[:3]:
        ctx.sample({"requests": s["requests"], "env0": s["env0"], "products": s["world"]["products"]})
    for i in range(0, len(scenarios), 400):
        S.run_scenarios(ctx, scenarios[i:i + 400], oracle)
    # generated after (and so without disturbing) the scenarios above
    extra = [gen_scenario_full(ctx.rng) for _ in range(ctx.size(60, 1200))]
    for i in range(0, len(extra), 400):
        S.run_scenarios(ctx, extra[i:i + 400], oracle)
    # scenarios aimed at the text-fed model (coq/Model/SetupText.v): table texts under the other spellings and layouts of
    # the grammar, the other variables expandEupsVariables replaces, conditional blocks; then the directed ones
    textual = S.directed_text_scenarios() + [S.gen_scenario_text(ctx.rng) for _ in range(ctx.size(60, 1200))]
    for i in range(0, len(textual), 400):
        S.run_scenarios(ctx, textual[i:i + 400], oracle)


    # worlds with version names of C10's grammar (1.0.1 1.0+1 1.0-rc1 1.10 1.9, spellings of one key) and relational
    # expressions over them: the composed model with the real comparator (coq/Model/ResolveReal.v) decides every version
    versions = S.directed_version_scenarios() + [S.gen_scenario_versions(ctx.rng, "plain") for _ in range(ctx.size(80, 1500))]
    for i in range(0, len(versions), 400):
        S.run_scenarios(ctx, versions[i:i + 400], oracle)
    # several stacks on EUPS_PATH (coq/Model/SetupMS.v, SetupMSFull.v, SetupMSText.v): the same name and version declared
    # in two stacks with different directories, tables, flavors and current tags, a version only in the second stack,
    # requests with -Z / -z (through Eups and through setupcmd.EupsSetup), prior set-ups from the other stack
    ms = [c for c in S.corpus("C01") if S.is_ms(c["world"])] + [S.gen_scenario_ms(ctx.rng, "plain") for _ in range(ctx.size(MS_PLAIN, 1200))] + \
         [S.gen_scenario_ms_directed(ctx.rng, "plain") for _ in range(ctx.size(MS_DIRECTED, 600))]
    for i in range(0, len(ms), 400):
        S.run_scenarios_ms(ctx, ms[i:i + 400], oracle_ms)
    # table values that refer to OTHER variables (the directory variable of a dependency set up by an earlier line, list-
    # valued variables of the user's environment), the version of the owner and of the dependency being replaced; and
    # neighbours: names in a prefix relation, -j on table lines and the block of an expanded table, a product below the
    # request set up beforehand together with dependencies of its own
    refs = [S.gen_scenario_refs(ctx.rng, "plain") for _ in range(ctx.size(REFS, 600))] + \
           [S.gen_scenario_neighbours(ctx.rng) for _ in range(ctx.size(NEIGHBOURS, 600))]
    for sc in refs:
        ctx.bump("family:" + sc["world"]["family"])
    for i in range(0, len(refs), 400):
        S.run_scenarios(ctx, refs[i:i + 400], oracle)


    # round 6.  ONE long-lived Eups instance serving 2-4 requests (per-instance tables such as alreadySetupProducts must
    # not outlive a request): each session is also run with one instance per request; and products whose versions share
    # ONE table file named by an absolute path (declare -m): the table is expanded per product
    sessions = [c for c in S.corpus("C01") if c.get("session")] + [S.gen_scenario_session(ctx.rng) for _ in range(ctx.size(SESSIONS, 900))]
    shared = [S.gen_scenario_shared_table(ctx.rng) for _ in range(ctx.size(SHARED_TABLE, 600))]
    for sc in sessions + shared:
        ctx.bump("family:" + sc["world"]["family"])
    for sc in sessions:
        sc["session"] = True
    S.run_scenarios_session(ctx, sessions, oracle_session)
    S.run_scenarios(ctx, shared, oracle_shared)


def replay(ctx, path):
    ctx.matchers["c01.dep_variable_after_dependency"] = m_dep_variable_after_dependency
    obj = json.load(open(path))
    if obj["input"].get("session"):
        S.run_scenarios_session(ctx, [obj["input"]], oracle_session)
    elif obj["input"]["world"].get("shared_tables"):
        S.run_scenarios(ctx, [obj["input"]], oracle_shared)
    elif S.is_ms(obj["input"]["world"]):
        S.run_scenarios_ms(ctx, [obj["input"]], oracle_ms)
    else:
        S.run_scenarios(ctx, [obj["input"]], oracle)
    bad = [f for f in ctx.failures if not ctx._known(f)] or ctx.disagreements
    print("replay %s: %s" % (path, "still fails" if bad else "passes"))
    return 1 if bad else 0
