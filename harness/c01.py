"""C01 - setup yields a consistent environment with no residue of superseded versions.

Model: coq/Model/Setup.v (driver build/c01/run); theorems: coq/Props/C01.v (the consistency invariant is preserved by
every call of setup, for every resolver).  Tie and oracle: harness/setupsim.py.
"""
import json

import common
import setupsim as S


def gen_scenario(rng):
    w = S.gen_world(rng)
    reqs = [S.gen_request(rng, w, allow_fail=0.0) for _ in range(rng.choice([0, 1, 2, 3]))]
    last = S.gen_request(rng, w, allow_fail=0.08)
    env0 = {"PATH": "/usr/bin:/bin"}
    if rng.random() < 0.3:
        env0["PATH"] = "/usr/bin::/opt/x/bin:/usr/bin:/bin:"
    if rng.random() < 0.3:
        env0["LD_LIBRARY_PATH"] = "/usr/lib"
    if rng.random() < 0.3:
        env0["XLIST"] = "/pre/x;/pre/y"
    return {"world": w, "requests": reqs + [last], "env0": env0}


def gen_scenario_full(rng):
    """scenarios aimed at the composed model (setup + resolver): the other dependency-line forms processArgs
    accepts (bracketed expression without a version, relational version, -j with a version), and every request
    of the sequence may carry --keep / --just / --max-depth or name a version"""
    import re
    w = S.gen_world(rng)
    for name, vs in w["products"].items():
        for v, lines in vs.items():
            for i, l in enumerate(lines):
                m = re.match(r"(setupRequired|setupOptional)\((\w+)", l)
                if m and rng.random() < 0.4:
                    dep, v1, v2 = m.group(2), rng.choice(S.VERSIONS), rng.choice(S.VERSIONS)
                    form = rng.choice(["%s [>= %s]" % (dep, v1), "%s >= %s" % (dep, v1), "%s %s [== %s]" % (dep, v1, v2),
                                       "%s -j %s" % (dep, v1), "%s < %s" % (dep, v1), "%s %s [> %s]" % (dep, v1, v2)])
                    lines[i] = "%s(%s)" % (m.group(1), form)
    reqs = []
    for _ in range(rng.choice([1, 2, 3, 4])):
        rq = S.gen_request(rng, w, allow_fail=0.05)
        r = rng.random()
        if r < 0.3:
            rq["keep"] = True
        elif r < 0.4:
            rq["just"] = True
        elif r < 0.55:
            rq["max_depth"] = rng.choice([0, 1, 2])
        elif r < 0.62:
            rq = {"name": rq["name"], "fwd": False}
        reqs.append(rq)
    env0 = {"PATH": "/usr/bin:/bin"}
    if rng.random() < 0.3:
        env0["XLIST"] = "/pre/x;/pre/y"
    return {"world": w, "requests": reqs, "env0": env0}


def contributions_state(res, env, name, version):
    """(present elements/values, absent elements/values) of one product version in env"""
    paths, sets, _ = S.own_contributions(res, name, version)
    pres, miss = [], []
    for var, val, d in paths:
        (pres if val in [x for x in (env.get(var) or "").split(d) if x] else miss).append((var, val))
    for var, val in sets.items():
        (pres if env.get(var) == val else miss).append((var, val))
    return pres, miss


def inv_violation(s, res, env):
    """None if the environment is consistent (the python statement of Inv), else a description"""
    recs = S.setup_records(env)
    dirs = S.product_dirs(res)
    for name, vs in s["world"]["products"].items():
        rec = recs.get(name)
        for v in vs:
            pres, miss = contributions_state(res, env, name, v)
            if rec == v:
                if env.get(name.upper() + "_DIR") != dirs[(name, v)]:
                    return "%s_DIR is %r, declared directory of %s %s is %r" % (
                        name.upper(), env.get(name.upper() + "_DIR"), name, v, dirs[(name, v)])
                if miss:
                    return "%s %s is set up but its contributions %r are missing" % (name, v, miss[:3])
            elif pres:
                return "%s %s is not the set-up version (%s) but its contributions %r are present" % (
                    name, v, rec, pres[:3])
    return None


def closure_oracle(ctx, s, res, rec, case):
    """the closure clause, evaluated on the real run: when every product asked for during the request (successful
    branches and failed optional ones alike) was decided at one version, nothing reachable was set up before, and
    the request succeeded, the products set up among the reachable ones are exactly the dependency closure -
    required lines, plus optional lines whose product sets up (its version is found, its required dependencies set
    up, and every command of its table can be executed) - each at that version.  (No -j line in the tables
    read, no --just / --max-depth / --keep: the conditions of closure_exact in coq/Props/C01.v.)"""
    rq = rec["request"]
    if not rec["ok"] or not rq.get("fwd", True) or rq.get("keep") or rq.get("just") or rq.get("max_depth") is not None:
        return
    D = {}
    for n, v in zip(rec["decision_names"], rec["decisions"]):
        if n in D and D[n] != v:
            ctx.bump("closure-oracle:conflicting-versions")
            return
        D[n] = v
    touched = S.touched_names(res, rq["name"])
    before = S.setup_records(rec["before"])
    if any(n in before for n in touched):
        ctx.bump("closure-oracle:something-set-up-before")
        return

    def lines(n):
        out = []
        for a in res["parsed"]["%s %s" % (n, D[n])]["actions"]:
            f = a.split(",")
            if f[0] == "S":
                out.append((f[1] == "1", common.dec(f[2]), f[3] == "1"))
        return out
    memo = {}

    class JustLine(Exception):
        pass

    def sets_up(n):
        if n not in memo:
            if D.get(n) is None:
                memo[n] = False
            else:
                if any(j for (opt, x, j) in lines(n)):
                    raise JustLine()           # a -j line in a table that is read: outside the clause as proved
                # a table with a command that cannot be executed (the generator's only such command refers to a
                # variable that nothing defines) does not set up either
                raises = any("${UNDEFINED_VARIABLE}" in common.dec(x)
                             for a in res["parsed"]["%s %s" % (n, D[n])]["actions"] if a[:2] in ("P,", "E,")
                             for x in a.split(",")[1:])
                memo[n] = not raises and all(sets_up(x) for (opt, x, j) in lines(n) if not opt)
        return memo[n]
    closure, todo = set(), [rq["name"]]
    try:
        sets_up(rq["name"])
        while todo:
            n = todo.pop()
            if n in closure:
                continue
            closure.add(n)
            for (opt, x, j) in lines(n):
                if sets_up(x):
                    todo.append(x)
    except JustLine:
        ctx.bump("closure-oracle:-j-line")
        return
    ctx.bump("closure-oracle:evaluated")
    if len(closure) > 2:
        ctx.bump("closure-oracle:evaluated-3-or-more-products")
    after = S.setup_records(rec["after"])
    expected = {n: D[n] for n in closure}
    observed = {n: v for n, v in after.items() if n in touched}
    if expected != observed:
        ctx.fail("closure", case, expected=expected, observed=observed,
                 what="setup %s: the products set up among the reachable ones are %r, the dependency closure at the "
                      "decided versions is %r" % (rq["name"], observed, expected))


def oracle(ctx, s, res):
    rec = res["records"][-1]
    rq = rec["request"]
    before, after = rec["before"], rec["after"]
    sb, sa = S.setup_records(before), S.setup_records(after)
    switched = sorted(n for n in sb if sa.get(n) != sb[n])
    shape = "%s/%s/%s" % ("explicit" if rq.get("version") else "bare", "ok" if rec["ok"] else "failed",
                          "switches-%d" % min(len(switched), 3))
    ctx.count(1, key=shape, nontrivial=json.dumps([s["world"], s["requests"]], sort_keys=True) if rec["ok"] else None)
    if not rec["ok"]:
        return
    case = {"world": s["world"], "requests": s["requests"], "env0": s["env0"]}
    # the version named explicitly is the version set up
    if rq.get("version") and sa.get(rq["name"]) != rq["version"]:
        ctx.fail("explicit-version", case, expected=rq["version"], observed=sa.get(rq["name"]),
                 what="setup %s %s recorded version %s" % (rq["name"], rq["version"], sa.get(rq["name"])))
        return
    # no residue of a version replaced during the request; directory variable and own contributions of what is set up
    dirs = S.product_dirs(res)
    for name in switched:
        old = sb[name]
        if old in s["world"]["products"].get(name, {}):
            pres, _ = contributions_state(res, after, name, old)
            if pres:
                ctx.fail("residue", case, expected="nothing of %s %s left" % (name, old), observed=pres[:4],
                         what="%s %s was replaced by %s during the request but %r is still present" % (
                             name, old, sa.get(name), pres[:3]))
                return
            d = dirs[(name, old)]
            for var, val in after.items():
                if not var.startswith("SETUP_") and any(x == d or x.startswith(d + "/") for x in val.replace(";", ":").split(":")):
                    ctx.fail("residue-dir", case, expected=None, observed={var: val},
                             what="%s still refers to the directory of the replaced %s %s" % (var, name, old))
                    return
    for name, v in sa.items():
        if (name, v) in dirs:
            if after.get(name.upper() + "_DIR") != dirs[(name, v)]:
                ctx.fail("dir-variable", case, expected=dirs[(name, v)], observed=after.get(name.upper() + "_DIR"),
                         what="%s_DIR does not hold the declared directory of %s %s" % (name.upper(), name, v))
                return
    # the invariant as a whole, when it held before the request
    if inv_violation(s, res, before) is None:
        bad = inv_violation(s, res, after)
        ctx.bump("invariant-held-before")
        if bad:
            ctx.fail("invariant", case, expected="consistent environment", observed=bad, what=bad)
            return
    # the closure clause, on every request of the scenario
    for r in res["records"]:
        closure_oracle(ctx, s, res, r, case)


def run(ctx):
    ctx.rule = ("random worlds (3-5 products x 1-3 versions, acyclic tables with path/envSet/alias commands and required/"
                "optional/versioned/expression/-j dependencies, diamonds with conflicting versions, stack path with or "
                "without a blank), 0-3 prior real setups (so other versions of the same products are already set up), "
                "final request bare or with an explicit version; then scenarios for the composed model: the other line "
                "forms (bracketed expression alone, relational version, -j with a version) and requests carrying "
                "--keep / --just / --max-depth / unsetup anywhere in the sequence; then worlds whose table texts vary "
                "(synonyms and letter case of command names, layout, quoting, legacy variable names, PRODUCT_NAME / "
                "VERSION / FLAVOR, UPS_DIR, PRODUCTS, PRODUCT_DIR_EXTRA, if / else if / else blocks on type and flavor, "
                "empty branches) with setups and unsetups, and directed tables (first-spelling rule of PRODUCT_DIR, "
                "replacement in the first argument, option words of dependency lines, a fall-back-flavor product with "
                "a flavor condition); non-trivial = the final request "
                "succeeds; distinct = distinct (world, requests)")
    ctx.trusted_base = common.COMMON_TRUSTED + [
        "two model runs per request: Model/Setup.v fed with the decisions of the real resolver (captured by a spy), and "
        "the composed model Model/SetupFull.v (setup + the resolver of C03, alreadySetupProducts, per-line VRO) fed with "
        "NO decisions - world, per-line request information as the real Action.processArgs returns it, chain files as "
        "the real database reports them, environment before; compared: success, environment, aliases, and every "
        "version decided along the way",
        "tables enter these two models as the actions the real parser derives (C11); a third run per request, the "
        "text-fed model Model/SetupText.v (C11's table_actions, the implicit product line, expandEupsVariables, command "
        "kinds, processArgs, then Model/Setup.v), starts from the table TEXTS the generator wrote and is fed the same "
        "decisions; every table is also compared action by action (text-table-comparisons)",
        "harness/setupsim.py tworld_field / model_line_text: directory and flavor of every product as the real "
        "findProduct reports them; Eups.setupType = exact and the implicit product name as shipped",
        "the composed model runs twice: with the dotted-numeric comparator of Model/Resolve.v on worlds whose version "
        "names are 1.0 2.0 3.0 9.9 (composed-model-comparisons), and with the comparator and the matcher of C10 "
        "(coq/Model/ResolveReal.v request_full_real, op fullv) on every world (real-comparator-comparisons), among them "
        "the worlds of gen_world_versions: version names of C10's grammar (1.0.1 1.0+1 1.0-rc1 1.10 1.9 v1_2, spellings "
        "of one key) and relational expressions with alternatives over them; the declarations reach the model in the "
        "listing order of Database.findProducts (version names sorted as strings)",
        "harness/setupsim.py line_infos / model_line_full: encoding of processArgs results and product tags"]
    ctx.assumptions = ["one stack, one flavor, declared products only (no setup -r, no --force)",
                       "composed model: dependency lines of the forms name / name version / name version [expr] / "
                       "name [expr] / name relational-expression, with or without -j; no -t, --vro, -k on a line; the "
                       "shipped configuration (Generated/Config.v); closure_exact: conflict_free, no --max-depth, "
                       "no --just, no -j line, no keep in the VRO, wf_db and a total order on the version names; "
                       "closure_exact_real: the same with fw_real_ok (conventional names, per product no two spellings "
                       "of one key) instead of the total order; closure_exact_real_sorted: fw_conv and db_sorted "
                       "(conventional names, listings sorted as strings), the designation rule read in vcmp_sorted",
                       "WF2 of Proofs/SetupInv.v for the theorems (contributions of different names and versions apart, "
                       "acyclic dependency graph over names, single-word names and versions)"]
    ctx.check_theorems()
    scenarios = S.corpus("C01") + [gen_scenario(ctx.rng) for _ in range(ctx.size(200, 3000))]
    for s in scenarios[:3]:
        ctx.sample({"requests": s["requests"], "env0": s["env0"], "products": s["world"]["products"]})
    for i in range(0, len(scenarios), 400):
        S.run_scenarios(ctx, scenarios[i:i + 400], oracle)
    # generated after (and so without disturbing) the scenarios above
    extra = [gen_scenario_full(ctx.rng) for _ in range(ctx.size(80, 1200))]
    for i in range(0, len(extra), 400):
        S.run_scenarios(ctx, extra[i:i + 400], oracle)
    # scenarios aimed at the text-fed model (coq/Model/SetupText.v): table texts under the other spellings and layouts of
    # the grammar, the other variables expandEupsVariables replaces, conditional blocks; then the directed ones
    textual = S.directed_text_scenarios() + [S.gen_scenario_text(ctx.rng) for _ in range(ctx.size(80, 1200))]
    for i in range(0, len(textual), 400):
        S.run_scenarios(ctx, textual[i:i + 400], oracle)


    # worlds with version names of C10's grammar (1.0.1 1.0+1 1.0-rc1 1.10 1.9, spellings of one key) and relational
    # expressions over them: the composed model with the real comparator (coq/Model/ResolveReal.v) decides every version
    versions = S.directed_version_scenarios() + [S.gen_scenario_versions(ctx.rng, "plain") for _ in range(ctx.size(120, 1500))]
    for i in range(0, len(versions), 400):
        S.run_scenarios(ctx, versions[i:i + 400], oracle)


def replay(ctx, path):
    obj = json.load(open(path))
    S.run_scenarios(ctx, [obj["input"]], oracle)
    bad = [f for f in ctx.failures if not ctx._known(f)] or ctx.disagreements
    print("replay %s: %s" % (path, "still fails" if bad else "passes"))
    return 1 if bad else 0
