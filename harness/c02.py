"""C02 - unsetup is the inverse of setup; a failing request changes nothing.

Model: coq/Model/Setup.v (driver build/c01/run); theorems: coq/Props/C02.v.  Tie and oracle: harness/setupsim.py.
"""
import json

import common
import setupsim as S


def gen_scenario(rng):
    w = S.gen_world(rng)
    first = S.gen_request(rng, w, allow_fail=0.12)
    reqs = [first, {"name": first["name"], "fwd": False}]
    env0 = {"PATH": "/usr/bin:/bin"}
    r = rng.random()
    if r < 0.3:
        env0["PATH"] = "/usr/bin::/opt/x/bin:/usr/bin:/bin:"
    if rng.random() < 0.4:
        env0["LD_LIBRARY_PATH"] = rng.choice(["/usr/lib:/usr/lib", "/l1:/l2:/l1::", "/l1:/l2:/l3:/l2:/l1"])
    if rng.random() < 0.4:
        env0["XLIST"] = rng.choice(["/pre/x;/pre/y", "/pre/x", ";/pre/x;;/pre/y;", "/pre/x;/pre/y;/pre/x"])
    if rng.random() < 0.15:
        n = rng.choice(sorted(w["products"]))
        env0[n.upper() + "_HOME"] = "preexisting"
    return {"world": w, "requests": reqs, "env0": env0}


SHELL, MS_INVERSE, MS_DIRECTED, REFS, NEIGHBOURS = 50, 40, 20, 34, 12      # quick-tier sizes of the families added in round 5


def gen_scenario_shell(rng):
    """setup X then unsetup X through the command-line front end: the record of each request carries the command list
    (what the shell sources); the path variables the tables touch are more often than not unset or empty beforehand, so
    that the unsetup takes their last element away"""
    s = gen_scenario(rng)
    for k in ("LD_LIBRARY_PATH", "XLIST"):
        r = rng.random()
        if r < 0.45:
            s["env0"].pop(k, None)
        elif r < 0.6:
            s["env0"][k] = ""
    for q in s["requests"]:
        q["cli"] = True
    return s


CSH, EUPS_PATH_FORMS, MS_CLI = 40, 30, 30       # quick-tier sizes of the families added in round 6
DIRECTORY = 40          # quick-tier size of the family added in round 7 (setup -r DIR / -m TABLE, then unsetup)
UNNORMALISED = ["@STACK@/", "@STACK@:/nonexistent/stack", "@STACK@:@STACK@", "@STACK@/./", ":@STACK@", "@STACK@//:/nonexistent"]


def gen_scenario_csh(rng):
    """gen_scenario_shell for a user of the csh family: EUPS_SHELL names csh / tcsh (by name or by path), the command list
    speaks setenv / unsetenv / alias / unalias; most closures have a table with addAlias"""
    s = gen_scenario_shell(rng)
    s["env0"]["EUPS_SHELL"] = rng.choice(["csh", "tcsh", "/bin/tcsh", "/usr/bin/csh"])
    for name, vs in s["world"]["products"].items():
        for v, lines in vs.items():
            if not any(l.startswith("addAlias") for l in lines) and rng.random() < 0.5:
                lines.insert(rng.randrange(len(lines) + 1), "addAlias(run_%s, echo %s %s)" % (name, name, v))
    s["world"]["family"] = "csh-command-list"
    return s


def gen_scenario_eups_path(rng):
    """gen_scenario_shell with EUPS_PATH as users write it - a trailing slash, an entry that is no directory, an entry
    twice, an empty entry: the Eups constructor rewrites os.environ[EUPS_PATH] for itself; the user's shell must keep
    the value it had (now and then for a csh user)"""
    s = gen_scenario_shell(rng)
    s["env0"]["EUPS_PATH"] = rng.choice(UNNORMALISED)
    if rng.random() < 0.2:
        s["env0"]["EUPS_SHELL"] = "tcsh"
    if rng.random() < 0.6:
        # through the python interface that returns the command list (Eups object, then eups.app.setup) instead of setupcmd
        for q in s["requests"]:
            del q["cli"]
            q["api"] = True
    s["world"]["family"] = "un-normalised-EUPS_PATH"
    return s


def gen_scenario_ms_cli(rng):
    """two stacks on EUPS_PATH, setup X with -Z / -z (some of the stacks selected) and unsetup X, BOTH through the
    command-line front end: the two command lists are what the shell sources; EUPS_PATH sometimes un-normalised too"""
    s = S.gen_scenario_ms(rng, "inverse")
    first, second = s["requests"]
    n = len(s["world"]["stacks"])
    if first.get("Z") is None and not first.get("z"):
        r = rng.random()
        if r < 0.4:
            first["Z"] = [rng.randrange(n)]
        elif r < 0.6:
            first["Z"] = list(reversed(range(n)))
        else:
            import os
            first["z"] = os.path.basename(s["world"]["stacks"][rng.randrange(n)]["root"])
    first.pop("cli", None)
    second.pop("cli", None)
    mode = "api" if rng.random() < 0.6 else "cli"       # eups.app.setup on an Eups(path=, dbz=) object / setupcmd
    first[mode] = second[mode] = True
    if rng.random() < 0.3:
        s["env0"]["EUPS_PATH"] = rng.choice(["@STACK0@/:@STACK1@", "@STACK0@:/nonexistent:@STACK1@", "@STACK0@:@STACK1@:@STACK0@"])
    s["world"]["family"] = "ms-command-lists"
    return s


def contrib(name, rng=None):
    up = name.upper()
    out = ["envPrepend(PATH, ${PRODUCT_DIR}/bin)", "envAppend(LD_LIBRARY_PATH, ${PRODUCT_DIR}/lib)",
           "envAppend(XLIST, ${PRODUCT_DIR}/x, \";\")", "envSet(%s_HOME, ${PRODUCT_DIR}/home)" % up,
           "addAlias(run_%s, echo %s)" % (name, name)]
    if rng is not None:
        out = [l for l in out if rng.random() < 0.8] or out[:1]
    return out


def gen_switch_then_failure(rng):
    """a product that is switched from one version to another inside an OPTIONAL subtree which then fails one or two
    levels further down (so the switch is rolled back with the environment), and is asked for again afterwards - in the
    version it was rolled back to, in the version of the failed subtree, or in a third one; then unsetup of the top
    product.  Random parts: which versions, how deep the failure is, what fails (an undeclared product, an undeclared
    version, an undefined variable), whether the subtree looks the product up once or twice, the order of the lines"""
    b, helper, plugin, app, top = "p1", "p2", "p3", "p4", "p5"
    vs = list(S.VERSIONS)
    rng.shuffle(vs)
    v1, v2, v3 = vs
    tail = rng.choice(["setupRequired(ghost)", "setupRequired(%s 9.9)" % b, "envPrepend(PATH, ${UNDEFINED_VARIABLE}/bin)"])
    prods = {b: {v: contrib(b) for v in S.VERSIONS}}
    deep = rng.random() < 0.7
    if deep:
        prods[helper] = {"1.0": contrib(helper, rng) + (["setupRequired(%s %s)" % (b, v2)] if rng.random() < 0.7 else []) + [tail]}
        prods[plugin] = {"1.0": contrib(plugin, rng) + ["setupRequired(%s %s)" % (b, v2), "setupRequired(%s)" % helper]}
    else:
        prods[helper] = {"1.0": contrib(helper, rng)}
        prods[plugin] = {"1.0": contrib(plugin, rng) + ["setupRequired(%s %s)" % (b, v2), "setupRequired(%s)" % helper, tail]}
    again = rng.choice([v3, v3, v1, v2, None])
    prods[app] = {"1.0": contrib(app, rng) + ["setupRequired(%s)" % (b if again is None else "%s %s" % (b, again))]}
    lines = ["setupRequired(%s %s)" % (b, v1), "setupOptional(%s)" % plugin, "setupRequired(%s)" % app]
    if rng.random() < 0.3:
        lines = lines[1:] + lines[:1] if rng.random() < 0.5 else [lines[1], lines[0], lines[2]]
    prods[top] = {"1.0": contrib(top, rng) + lines}
    w = {"root": rng.choice(["stack", "stack", "stack dir"]), "products": prods,
         "current": {b: rng.choice(S.VERSIONS), helper: "1.0", plugin: "1.0", app: "1.0", top: "1.0"}, "generic": []}
    env0 = {"PATH": "/usr/bin:/bin"}
    if rng.random() < 0.4:
        env0["XLIST"] = rng.choice(["/pre/x;/pre/y", ""])
    return {"world": w, "requests": [{"name": top, "fwd": True}, {"name": top, "fwd": False}], "env0": env0}


def gen_envunset_own_dir(rng):
    """a table may remove the product's own directory variable again (envUnset(P1_DIR)): the product is set up all the
    same (SETUP_P1 records it) and unsetup - of the product itself, or of a product that depends on it - must still
    find it and take everything else it contributed away"""
    lo, top = "p1", "p2"
    where = rng.choice(["dep", "top", "both"])
    unset = lambda n: ["envUnset(%s_DIR)" % n.upper()]
    prods = {lo: {v: contrib(lo, rng) + (unset(lo) if where in ("dep", "both") else []) for v in S.VERSIONS[:2]},
             top: {"1.0": contrib(top, rng) + (unset(top) if where in ("top", "both") else []) +
                   ["%s(%s%s)" % (rng.choice(["setupRequired", "setupOptional"]), lo, rng.choice(["", " 1.0", " 2.0"]))]}}
    w = {"root": "stack", "products": prods, "current": {lo: rng.choice(S.VERSIONS[:2]), top: "1.0"}, "generic": []}
    name = rng.choice([top, top, lo])
    return {"world": w, "requests": [{"name": name, "fwd": True}, {"name": name, "fwd": False}],
            "env0": {"PATH": "/usr/bin:/bin"}}


def gen_scenario_directory(rng):
    """setup X then unsetup X where X is named by its directory and/or a table file of the user's choice (setup -r DIR,
    setup -r DIR -m TABLE with a table kept outside DIR/ups, DIR with or without a table of its own, setup X 1.0 -m
    TABLE of a declared product); the unsetup is a new invocation that sees the environment only.  The tables name
    their own variables and (sometimes) require a declared product"""
    def lines(tagword, dep):
        out = ["envPrepend(PATH, ${PRODUCT_DIR}/bin%s)" % tagword]
        if rng.random() < 0.7:
            out.append("envSet(TOOL_MODE%s, %s)" % (tagword, tagword or "own"))
        if rng.random() < 0.6:
            out.append("envAppend(TOOL_PATH, ${PRODUCT_DIR}/lib%s)" % tagword)
        if dep:
            out.append(rng.choice(["setupRequired(lib)", "setupRequired(lib 1.0)", "setupOptional(lib)", "setupOptional(nosuch)"]))
        return out
    own = lambda n: ["envPrepend(PATH, ${PRODUCT_DIR}/bin)", "envSet(%s_HOME, ${PRODUCT_DIR}/home)" % n.upper()]
    w = {"root": "stack", "products": {"lib": {"1.0": own("lib"), "2.0": own("lib")},
                                       "tool": {"1.0": lines("_D", rng.random() < 0.4)}},
         "current": {"lib": rng.choice(["1.0", "2.0"]), "tool": "1.0"}, "generic": [], "family": "directory-and-table-file"}
    shape = rng.choice(["r-and-m", "r-and-m", "r-and-m", "r", "declared-and-m"])
    has_own = True if shape == "r" else rng.random() < 0.6
    first = {"name": "tool", "fwd": True}
    if shape in ("r-and-m", "r"):
        first["dir"] = "tool"
    else:
        first["version"] = "1.0"
    if shape != "r":
        first["table"] = "dev"
    env0 = {"PATH": "/usr/bin:/bin"}
    if rng.random() < 0.4:
        env0["TOOL_PATH"] = rng.choice(["/opt/site/lib", "/opt/a:/opt/b", ""])
    return {"world": w, "requests": [first, {"name": "tool", "fwd": False}], "env0": env0, "shape": shape,
            "locals": {"tool": lines("_L", rng.random() < 0.4) if has_own else None},
            "tables": {"dev": lines("_M", rng.random() < 0.5)}}


def oracle_directory(ctx, s, res):
    """the property as written, on the environment alone: after setup + unsetup every variable is as before (path-like
    values as duplicate-free lists of non-empty elements, unset = empty)"""
    r1, r2 = res["records"][0], res["records"][1]
    case = {k: s[k] for k in ("world", "requests", "env0", "locals", "tables")}
    own = s["locals"].get("tool") is not None
    ctx.count(1, key="directory/%s/%s/%s" % (s.get("shape") or "replay", "own-table" if own else "no-own-table",
                                             "setup-ok" if r1["ok"] else "setup-failed"),
              nontrivial=json.dumps(case, sort_keys=True) if r1["ok"] and len(S.setup_records(r1["after"])) > 1 else None)
    if not r1["ok"]:
        return
    if not any(k.startswith("SETUP_") for k in r1["after"]):
        ctx.fail("setup-did-nothing", case, expected="a setup record", observed=sorted(r1["after"]), what="setup reported success but recorded nothing")
        return
    if not r2["ok"]:
        ctx.fail("unsetup-failed", case, expected="unsetup succeeds", observed="failed",
                 what="unsetup of a product that was just set up failed")
        return
    norm = lambda env: {k: S.uniq_list([x for x in v.split(":") if x]) for k, v in env.items()
                        if k not in ("EUPS_PATH", "EUPS_USERDATA", "EUPS_FLAVOR", "EUPS_SHELL", "HOME") and [x for x in v.split(":") if x]}
    a, b = norm(r1["before"]), norm(r2["after"])
    if a != b:
        diff = {k: (a.get(k), b.get(k)) for k in set(a) | set(b) if a.get(k) != b.get(k)}
        ctx.fail("not-restored", case, expected={k: v[0] for k, v in diff.items()}, observed={k: v[1] for k, v in diff.items()},
                 what="after setup + unsetup of %r: %r" % (r1["request"], diff))


def norm_env(res, env):
    """path-like values as duplicate-free lists of non-empty elements (unset = empty); bookkeeping variables dropped"""
    delims = {}
    for (q, v) in S.product_dirs(res):
        for var, val, d in S.own_contributions(res, q, v)[0]:
            delims[var] = d
    out = {}
    for k, v in env.items():
        if k in ("EUPS_PATH", "EUPS_USERDATA", "EUPS_FLAVOR", "EUPS_SHELL", "HOME"):
            continue
        d = delims.get(k, ":")
        els = S.uniq_list([x for x in v.split(d) if x])
        if els:
            out[k] = els
    return out


def shell_oracle(ctx, case, r1, r2, norm, strip=lambda x: x):
    """the command list eups.app.setup returned for the setup and for the unsetup (what setupcmd printed), sourced one
    after the other by a shell that starts with the environment before: every variable (and shell function) is back
    to its prior state - in the shell, which only sees the commands, not only in os.environ of the eups processes"""
    if r1.get("cmds") is None or r2.get("cmds") is None:
        return
    ctx.bump("command-lists-sourced-by-a-shell")
    import re
    csh = bool(re.search(r"(^|/)(csh|tcsh)$", r1["before"].get("EUPS_SHELL", "sh")))
    funcs = {}
    apply_ = S.csh_apply if csh else S.shell_apply
    sh1 = apply_(r1["cmds"], r1["before"], funcs)
    defined = dict(funcs)
    sh2 = apply_(r2["cmds"], sh1, funcs) if sh1 is not None else None
    if sh2 is None:
        ctx.fail("command-list-unreadable", case, expected="setenv N V / unsetenv N / alias N 'body' / unalias N" if csh else
                 "export N=V / unset N / unset -f N / name() { ... ; }",
                 observed=strip((r1["cmds"] if sh1 is None else r2["cmds"])[-600:]), what="a command of the list is of no known form")
        return
    if csh:
        ctx.bump("command-lists-sourced-by-a-shell:csh-dialect")
        if defined:
            ctx.bump("command-lists-sourced-by-a-shell:csh-dialect-with-aliases")
    # the stacks the user listed: Eups.__init__ rewrites os.environ[EUPS_PATH] for its own use (the stacks -Z / -z select,
    # normalised); the shell that sources the two lists must have EUPS_PATH as it was
    pa, pb = [x for x in S.uniq_list(r1["before"].get("EUPS_PATH", "").split(":")) if x], \
             [x for x in S.uniq_list(sh2.get("EUPS_PATH", "").split(":")) if x]
    if r1["before"].get("EUPS_PATH") != ":".join(pa) or r1["request"].get("Z") is not None or r1["request"].get("z"):
        ctx.bump("command-lists-sourced-by-a-shell:the-constructor-rewrites-EUPS_PATH")
    if pa != pb:
        ctx.fail("shell-not-restored", case, expected=strip({"EUPS_PATH": r1["before"].get("EUPS_PATH")}),
                 observed=strip({"EUPS_PATH": sh2.get("EUPS_PATH")}),
                 what="a shell that sources the command lists of setup and of unsetup of %s ends with EUPS_PATH=%s; it was %s" % (
                     r1["request"]["name"], strip(sh2.get("EUPS_PATH")), strip(r1["before"].get("EUPS_PATH"))))
        return
    if csh:
        # (the shell fragment of coq/Model/SetupCmds.v is the sh dialect: a csh list is read by the harness only)
        a, b = norm(r1["before"]), norm(sh2)
        if a != b:
            diff = {k: (a.get(k), b.get(k)) for k in set(a) | set(b) if a.get(k) != b.get(k)}
            ctx.fail("shell-not-restored", case, expected=strip({k: v[0] for k, v in diff.items()}),
                     observed=strip({k: v[1] for k, v in diff.items()}),
                     what="a csh that sources the command lists of setup and of unsetup of %s ends with %r" % (r1["request"]["name"], strip(diff)))
            return
        if funcs:
            ctx.fail("alias-left", case, expected={}, observed=funcs,
                     what="the csh that sourced the two command lists still has the aliases %r (variables and aliases are "
                          "separate name spaces: unsetenv does not remove an alias)" % sorted(funcs))
        return
    # the same shell on the model side (coq/Model/SetupCmds.v shell_after: the emitter and the shell fragment of C05 applied
    # to the three environments of the real run): its environment is the one the real command lists leave
    out = ctx.model(["\t".join(["cmds", common.enc_env(r1["before"]), common.enc_env(r1["after"]), common.enc_env(r2["after"])])],
                    pid="C01")[0].split("\t")
    if out[0] == "ok":
        msh = {}
        for k, v in common.dec_env(out[1]):
            msh.setdefault(k, v)
        ctx.bump("command-lists-sourced-by-a-shell:compared-with-the-model-shell")
        if msh != sh2:
            diff = {k: (msh.get(k), sh2.get(k)) for k in set(msh) | set(sh2) if msh.get(k) != sh2.get(k)}
            ctx.disagree(case, {"shell_env_diff(model,impl)": strip(diff)}, {"commands": strip(r2["cmds"][-400:])},
                         where="shell-after-the-command-lists")
    elif out[0] == "outside":
        ctx.bump("command-lists-sourced-by-a-shell:outside-cmds_in_claim")
    else:
        ctx.disagree(case, out, None, where="shell-model-error")
    emptied = [k for k, v in r2["after"].items() if v == "" and r1["before"].get(k) in (None, "")]
    if emptied:
        ctx.bump("command-lists-sourced-by-a-shell:a-variable-ends-empty")
    a, b = norm(r1["before"]), norm(sh2)
    if a != b:
        diff = {k: (a.get(k), b.get(k)) for k in set(a) | set(b) if a.get(k) != b.get(k)}
        ctx.fail("shell-not-restored", case, expected=strip({k: v[0] for k, v in diff.items()}),
                 observed=strip({k: v[1] for k, v in diff.items()}),
                 what="a shell that sources the command lists of setup and of unsetup of %s ends with %r (os.environ of the "
                      "unsetup process is as before the setup)" % (r1["request"]["name"], strip(diff)))
        return
    if funcs:
        ctx.fail("alias-left", case, expected={}, observed=funcs,
                 what="the shell that sourced the two command lists still has the functions %r" % sorted(funcs))


def oracle(ctx, s, res):
    if len(res["records"]) > 2:
        res = dict(res, records=res["records"][-2:])      # setup X, unsetup X at the end of a longer sequence
    r1, r2 = res["records"][0], res["records"][1]
    case = {"world": s["world"], "requests": s["requests"], "env0": s["env0"]}
    pre = [k for k in s["env0"] if k.endswith("_HOME")]
    shape = "%s/%s" % ("setup-ok" if r1["ok"] else "setup-failed", "preexisting-envset" if pre else "fresh")
    ctx.count(1, key=shape, nontrivial=json.dumps([s["world"], s["requests"], s["env0"]], sort_keys=True)
              if r1["ok"] and len(S.setup_records(r1["after"])) > 1 else None)
    if not r1["ok"]:
        # a failing request: the real command emits nothing but `false` (C05: which changes nothing)
        if not (r1["outcome"] == "fail" or r1["outcome"].startswith("raise")):
            ctx.fail("failed-request", case, expected="failure reported", observed=r1["outcome"], what="unexpected outcome")
        return
    if not r2["ok"]:
        ctx.fail("unsetup-failed", case, expected="unsetup succeeds", observed=r2["outcome"],
                 what="unsetup of a product that was just set up failed")
        return
    a, b = norm_env(res, r1["before"]), norm_env(res, r2["after"])
    if a != b:
        diff = {k: (a.get(k), b.get(k)) for k in set(a) | set(b) if a.get(k) != b.get(k)}
        kind = "envset-preexisting" if all(k in pre for k in diff) else "not-restored"
        ctx.fail(kind, case, expected={k: v[0] for k, v in diff.items()}, observed={k: v[1] for k, v in diff.items()},
                 what="after setup + unsetup of %s: %r" % (r1["request"]["name"], diff))
        return
    if r2["aliases"]:
        ctx.fail("alias-left", case, expected={}, observed=r2["aliases"], what="aliases remain after unsetup")
        return
    # the aliases of the shell that sources the two commands (app.setup: define Eups.aliases, remove the names in
    # Eups.oldAliases that are not defined again), starting without any
    shell = {}
    for r in (r1, r2):
        for k in r.get("old_aliases", []):
            if k not in r["aliases"]:
                shell.pop(k, None)
        shell.update(r["aliases"])
    if shell:
        ctx.fail("alias-left", case, expected={}, observed=shell,
                 what="after setup + unsetup of %s the shell still has the aliases %r (defined by the setup: %r)" % (
                     r1["request"]["name"], sorted(shell), r1["aliases"]))
        return
    shell_oracle(ctx, case, r1, r2, lambda e: norm_env(res, e), lambda x: json.loads(S.strip_stack(res, json.dumps(x))))


def oracle_ms(ctx, s, res):
    """setup X then unsetup X on a world with several stacks (the unsetup possibly with other stacks selected than the
    setup: the product is looked up in the stack SETUP_X records)"""
    r1, r2 = res["records"][0], res["records"][1]
    case = {"world": s["world"], "requests": s["requests"], "env0": s["env0"]}
    sa = S.ms_records(r1["after"]) if r1["ok"] else {}
    second = any(v[1] != res["roots"][0] for v in sa.values())
    other = r2["request"].get("Z") is not None or bool(r2["request"].get("z"))
    shape = "ms/%s/%s/%s" % ("setup-ok" if r1["ok"] else "setup-failed",
                             "something-from-second-stack" if second else "all-from-first-stack",
                             "unsetup-with-selected-stacks" if other else "unsetup-on-whole-path")
    ctx.count(1, key=shape, nontrivial=json.dumps([s["world"], s["requests"], s["env0"]], sort_keys=True)
              if r1["ok"] and len(sa) > 1 else None)
    if not r1["ok"]:
        if not (r1["outcome"] == "fail" or r1["outcome"].startswith("raise")):
            ctx.fail("failed-request", case, expected="failure reported", observed=r1["outcome"], what="unexpected outcome")
        return
    if not r2["ok"]:
        ctx.fail("unsetup-failed", case, expected="unsetup succeeds", observed=r2["outcome"],
                 what="unsetup of a product that was just set up failed (it is recorded as %r)" % (
                     S.strip_roots(res, sa.get(r1["request"]["name"])),))
        return
    a, b = S.ms_norm_env(res, r1["before"]), S.ms_norm_env(res, r2["after"])
    if a != b:
        diff = {k: (a.get(k), b.get(k)) for k in set(a) | set(b) if a.get(k) != b.get(k)}
        ctx.fail("not-restored", case, expected=S.strip_roots(res, {k: v[0] for k, v in diff.items()}),
                 observed=S.strip_roots(res, {k: v[1] for k, v in diff.items()}),
                 what="after setup + unsetup of %s: %r" % (r1["request"]["name"], S.strip_roots(res, diff)))
        return
    shell = {}
    for r in (r1, r2):
        for k in r.get("old_aliases", []):
            if k not in r["aliases"]:
                shell.pop(k, None)
        shell.update(r["aliases"])
    if r2["aliases"] or shell:
        ctx.fail("alias-left", case, expected={}, observed=shell or r2["aliases"],
                 what="after setup + unsetup of %s the shell still has the aliases %r" % (r1["request"]["name"], sorted(shell or r2["aliases"])))
        return
    shell_oracle(ctx, case, r1, r2, lambda e: S.ms_norm_env(res, e), lambda x: S.strip_roots(res, x))


def m_stack_root_marker(f):
    """candidate finding (several stacks): utils.encodePath writes a blank of the stack root as the marker -+-, and a
    root with the characters -+ in front of a blank (or a blank in front of +-) gives a text that utils.decodePath reads
    back as another path; the product set up from such a stack cannot be unset up"""
    w = f["input"].get("world", {})
    return f["kind"] == "unsetup-failed" and S.is_ms(w) and \
        any("-+ " in st["root"] or " +-" in st["root"] for st in w["stacks"])


def m_dep_variable_after_dependency(f):
    """known finding D60: see setupsim.m_dep_variable_not_restored"""
    return S.m_dep_variable_not_restored(f)


def register(ctx):
    ctx.matchers["c02.envset_preexisting"] = m_envset_preexisting
    ctx.matchers["c02.stack_root_marker"] = m_stack_root_marker
    ctx.matchers["c02.dep_variable_after_dependency"] = m_dep_variable_after_dependency


def m_envset_preexisting(f):
    """known finding D11: envSet in unsetup mode unsets the variable, a value it had before setup is not restored"""
    return f["kind"] == "envset-preexisting"


def run(ctx):
    register(ctx)
    ctx.rule = ("random worlds as for C01; from an environment in which nothing of the closure is set up (path variables "
                "with duplicate, doubled and trailing delimiters, sometimes a pre-existing value of a variable a table "
                "sets): setup X (bare / explicit version / unknown version) then unsetup X; the same through the "
                "command-line front end with the path variables unset or empty beforehand, the two printed command lists "
                "sourced by a shell (export / unset / function definitions interpreted in harness/setupsim.py shell_apply) "
                "and the shell's final environment compared with the one before; tables whose values refer to other "
                "variables (a dependency's directory variable; list-valued variables of the user's environment: "
                "envAppend(PLUGIN_PATH, ${SITE_DIRS_P3}, ;) with SITE_DIRS_P3=/site/p3/a;/site/p3/b); worlds of two stacks "
                "(random and directed); names in a prefix relation and -j lines; command lists in the csh dialect (EUPS_SHELL = csh / "
                "tcsh: setenv / unsetenv / alias / unalias read by setupsim.csh_apply, variables and aliases in separate "
                "name spaces, tables with addAlias); EUPS_PATH as users write it (trailing slash, an entry that is no "
                "directory, an entry twice, an empty entry) and two stacks with -Z / -z, the command lists taken from "
                "eups.app.setup on an Eups(path=, dbz=) object as well as from setupcmd: EUPS_PATH of the sourcing shell "
                "must end as it was; non-trivial = the setup "
                "succeeds and sets up at least two products; distinct = distinct (world, requests, env0)")
    ctx.trusted_base = common.COMMON_TRUSTED + [
        "two model runs per request: Model/Setup.v fed with the decisions of the real resolver (captured by a spy), and "
        "the composed model Model/SetupFull.v (setup + the resolver of C03) fed with NO decisions - with the "
        "dotted-numeric comparator on worlds with the version names 1.0 2.0 3.0, and with the comparator and matcher of "
        "C10 (coq/Model/ResolveReal.v, real-comparator-comparisons) on every world, those of gen_world_versions "
        "(version names of C10's grammar, relational expressions over them) included; compared: success, "
        "environment, aliases, decisions; a third run, the text-fed model Model/SetupText.v (C11's parser model, "
        "expandEupsVariables, command kinds, processArgs, then Model/Setup.v) starts from the table texts and is fed "
        "the same decisions; every table is also compared action by action",
        "the shell's alias state across the two commands is reconstructed from Eups.aliases / Eups.oldAliases the way "
        "app.setup emits them (define, then remove the old names that are not defined again)"]
    ctx.assumptions = ["declared products only", "WF2 of Proofs/SetupInv.v for the theorems (its base WF excludes table "
                       "values with references: those are covered by the tie, the oracle, the theorems "
                       "unsetup_removes_every_element_of_a_list_valued_reference / list_valued_reference_is_taken_back "
                       "and the Example dep_variable_after_dependency_refuted = finding D60)",
                       "unsetup_commands_restore_the_shell: cmds_in_claim (the hypotheses of C05's emit_sound at both "
                       "calls; no call removes EUPS_DIR / EUPS_PATH / EUPS_PKGROOT / EUPS_SHELL); alias commands are "
                       "outside the shell fragment of Model/Shell.v and are read by the harness only; the csh dialect of the command "
                       "list is outside Model/SetupCmds.v (sh only): read by setupsim.csh_apply and judged by the oracle alone",
                       "unsetup_inverts_setup: the hypotheses of closure_exact (conflict_free: no product requested in two "
                       "versions; no --max-depth / --just / -j line / keep; wf_db; total order on the version names - for the "
                       "real comparator: fw_real_ok, or fw_conv and db_sorted with the rule read in vcmp_sorted), Inv "
                       "and fresh_for of the start state (no variable or alias that a reachable product owns is set: "
                       "outside it finding D11 applies); the code after the fix of D36 (popStack env restores the aliases)"]
    ctx.check_theorems()
    scenarios = [c for c in S.corpus("C02") if not S.is_ms(c["world"])] + [gen_scenario(ctx.rng) for _ in range(ctx.size(150, 3000))]
    for s in scenarios[:3]:
        ctx.sample({"requests": s["requests"], "env0": s["env0"], "products": s["world"]["products"]})
    for i in range(0, len(scenarios), 400):
        S.run_scenarios(ctx, scenarios[i:i + 400], oracle)
    # directed families: a version switch inside an optional subtree that fails further down and is rolled back, the
    # product being asked for again afterwards; tables that remove their own directory variable
    directed = [gen_switch_then_failure(ctx.rng) for _ in range(ctx.size(30, 600))] + \
               [gen_envunset_own_dir(ctx.rng) for _ in range(ctx.size(12, 200))]
    for i in range(0, len(directed), 400):
        S.run_scenarios(ctx, directed[i:i + 400], oracle)
    # setup then unsetup on worlds whose table texts vary (see harness/setupsim.py gen_scenario_text): the text-fed
    # model of coq/Model/SetupText.v is the one that reads them
    textual = [S.gen_scenario_text(ctx.rng, inverse=True) for _ in range(ctx.size(40, 900))]
    for i in range(0, len(textual), 400):
        S.run_scenarios(ctx, textual[i:i + 400], oracle)


    # setup then unsetup on worlds with version names of C10's grammar: the composed model with the real comparator
    # (coq/Model/ResolveReal.v) decides every version
    versions = [s for s in S.directed_version_scenarios() if len(s["requests"]) == 2] + \
               [S.gen_scenario_versions(ctx.rng, "inverse") for _ in range(ctx.size(70, 1200))]
    for i in range(0, len(versions), 400):
        S.run_scenarios(ctx, versions[i:i + 400], oracle)
    # several stacks on EUPS_PATH (coq/Model/SetupMS*.v): setup X then unsetup X, products found in the second stack, the
    # same version in both stacks with different tables, the unsetup made with another selection of stacks (-Z / -z)
    ms = [c for c in S.corpus("C02") if S.is_ms(c["world"])] + \
         [S.gen_scenario_ms(ctx.rng, "inverse") for _ in range(ctx.size(MS_INVERSE, 1200))] + \
         [S.gen_scenario_ms_directed(ctx.rng, "inverse") for _ in range(ctx.size(MS_DIRECTED, 600))]
    for i in range(0, len(ms), 400):
        S.run_scenarios_ms(ctx, ms[i:i + 400], oracle_ms)
    # the command list (observe_at: command list returned by eups.app.setup): both requests through setupcmd, the printed
    # commands sourced by a shell; table values that refer to other variables (a dependency's directory variable, list-
    # valued variables of the user's environment); names in a prefix relation and -j lines
    nb = [sc for sc in (S.gen_scenario_neighbours(ctx.rng, rng_shape) for rng_shape in ["unsetup"] * ctx.size(NEIGHBOURS, 300))]
    for sc in nb:
        sc["requests"] = sc["requests"][-2:]
        if sc["requests"][0].get("cli"):
            sc["requests"][1]["cli"] = True
    extra = [gen_scenario_shell(ctx.rng) for _ in range(ctx.size(SHELL, 900))] + \
            [S.gen_scenario_refs(ctx.rng, "inverse") for _ in range(ctx.size(REFS, 600))] + nb
    for sc in extra:
        ctx.bump("family:" + sc["world"].get("family", "shell"))
    for i in range(0, len(extra), 400):
        S.run_scenarios(ctx, extra[i:i + 400], oracle)
    # round 6.  The command list for a csh / tcsh user (setenv / unsetenv / alias / unalias, read by setupsim.csh_apply:
    # variables and aliases in separate name spaces); EUPS_PATH as users write it (the constructor's rewrite of
    # os.environ[EUPS_PATH] is not the shell's business); two stacks with -Z / -z, both requests through the front end
    r6 = [gen_scenario_csh(ctx.rng) for _ in range(ctx.size(CSH, 600))] + \
         [gen_scenario_eups_path(ctx.rng) for _ in range(ctx.size(EUPS_PATH_FORMS, 600))]
    r6ms = [gen_scenario_ms_cli(ctx.rng) for _ in range(ctx.size(MS_CLI, 600))]
    for sc in r6 + r6ms:
        ctx.bump("family:" + sc["world"]["family"])
    S.run_scenarios(ctx, r6, oracle)
    S.run_scenarios_ms(ctx, r6ms, oracle_ms)
    # round 7.  Products named by a directory and / or a table file of the user's choice (setup -r DIR [-m TABLE], setup
    # X 1.0 -m TABLE), then unsetup by a new invocation; real code only, judged by the oracle
    r7 = [gen_scenario_directory(ctx.rng) for _ in range(ctx.size(DIRECTORY, 600))]
    for sc in r7:
        ctx.bump("family:" + sc["world"]["family"])
    S.run_scenarios_local(ctx, r7, oracle_directory)


def replay(ctx, path):
    register(ctx)
    obj = json.load(open(path))
    if "locals" in obj["input"]:
        S.run_scenarios_local(ctx, [obj["input"]], oracle_directory)
    elif S.is_ms(obj["input"]["world"]):
        S.run_scenarios_ms(ctx, [obj["input"]], oracle_ms)
    else:
        S.run_scenarios(ctx, [obj["input"]], oracle)
    bad = [f for f in ctx.failures if not ctx._known(f)] or ctx.disagreements
    print("replay %s: %s" % (path, "still fails" if bad else "passes"))
    return 1 if bad else 0
