"""C03 - the version chosen is the one the Version Resolution Order designates.

Model: coq/Model/Resolve.v   Spec: coq/Model/ResolveSpec.v   Theorems: coq/Props/C03.v
Generated: coq/Generated/Config.v (default VRO, preferred tags, tag groups) - rewritten on every run from
python/eups/hooks.py and python/eups/Eups.py by the fail-closed ast extractor below.

Implementation side (forked children, up to 16 at a time, one scratch database per case group):
  real Eups(...) -> getPreferredTags() -> selectVRO(...) -> getVRO()/getPreferredTags()
  -> findProductFromVRO(...)                       compared with find_from_vro
  -> Eups.setup(name, version, recursionDepth=...)  compared with resolve_request
     (observed: alreadySetupProducts[name] = (product, vroReason), SETUP_<NAME>)
with readCache off and on.  The oracle is the designation rule of the property text, written here in
python on plain dictionaries, and evaluated on what the real code returned.
"""
import ast
import itertools
import json
import os
import shutil
import sys
import time

import common
from common import enc, dec

PID = "C03"
NATIVE, FALLBACK = "Linux64", "generic"
PRODUCTS = ["p1", "p2", "p3"]
VERSIONS = ["1.0", "1.1", "2.0", "10.0"]
DB_TAGS = ["current", "stable", "beta", "t"]          # tags that live in chain files
CL_TAGS = ["stable", "beta", "latest", "t", "current"]  # tags offered to -t / -T
EXTRA_GLOBAL = ["beta", "t"]                          # registered through hooks.config.Eups.globalTags
STACKS = ["s1", "s2"]
NPROC = 16


# ------------------------------------------------------------------ config extractor (fail closed)

class ExtractError(Exception):
    pass


WATCHED = ("VRO", "preferredTags", "globalTags", "reservedTags", "userTags", "fallbackFlavors")


def _is_cfg_attr(node, name=None):
    """node is  config.Eups.<name>"""
    return (isinstance(node, ast.Attribute) and isinstance(node.value, ast.Attribute)
            and node.value.attr == "Eups" and isinstance(node.value.value, ast.Name)
            and node.value.value.id == "config" and (name is None or node.attr == name))


def _mentions_watched(node):
    for sub in ast.walk(node):
        if _is_cfg_attr(sub) and sub.attr in WATCHED:
            return sub.attr
    return None


def _taken(stmts):
    """top-level statements with constant-test ifs resolved; yields (stmt, live)"""
    for st in stmts:
        if isinstance(st, ast.If) and isinstance(st.test, ast.Constant) and isinstance(st.test.value, bool):
            for x in _taken(st.body if st.test.value else st.orelse):
                yield x
        else:
            yield st


def _dead_nodes(stmts, acc):
    for st in stmts:
        if isinstance(st, ast.If) and isinstance(st.test, ast.Constant) and isinstance(st.test.value, bool):
            dead = st.orelse if st.test.value else st.body
            for d in dead:
                for sub in ast.walk(d):
                    acc.add(id(sub))
            _dead_nodes(st.body if st.test.value else st.orelse, acc)


def extract_hooks(path):
    tree = ast.parse(open(path).read(), path)
    vals = {}
    accepted = set()
    for st in _taken(tree.body):
        if isinstance(st, ast.Assign) and len(st.targets) == 1 and _is_cfg_attr(st.targets[0]) \
                and st.targets[0].attr in WATCHED:
            name = st.targets[0].attr
            try:
                v = ast.literal_eval(st.value)
            except Exception:
                raise ExtractError("hooks.py: config.Eups.%s is not assigned a literal (line %d)" % (name, st.lineno))
            if name in vals:
                raise ExtractError("hooks.py: config.Eups.%s assigned twice (line %d)" % (name, st.lineno))
            vals[name] = v
            accepted.add(id(st))
    dead = set()
    _dead_nodes(tree.body, dead)
    for node in ast.walk(tree):
        if id(node) in dead or id(node) in accepted:
            continue
        targets = []
        if isinstance(node, ast.Assign):
            targets = node.targets
        elif isinstance(node, (ast.AugAssign, ast.AnnAssign)):
            targets = [node.target]
        elif isinstance(node, ast.Delete):
            targets = node.targets
        elif isinstance(node, ast.Call) and isinstance(node.func, ast.Attribute) and \
                node.func.attr in ("append", "extend", "insert", "update", "remove", "pop", "clear", "setdefault",
                                   "__setitem__", "sort", "reverse"):
            targets = [node.func.value]
        for t in targets:
            w = _mentions_watched(t)
            if w:
                raise ExtractError("hooks.py line %d: config.Eups.%s is modified in a way the extractor does not "
                                   "understand" % (getattr(node, "lineno", 0), w))
    for k in ("VRO", "preferredTags", "globalTags", "reservedTags", "userTags"):
        if k not in vals:
            raise ExtractError("hooks.py: no literal assignment to config.Eups.%s" % k)

    def strlist(k, v):
        if not (isinstance(v, list) and all(isinstance(x, str) and x and " " not in x for x in v)):
            raise ExtractError("hooks.py: config.Eups.%s is not a list of words: %r" % (k, v))
        return v
    out = {k: strlist(k, vals[k]) for k in ("preferredTags", "globalTags", "reservedTags", "userTags")}
    vro = vals["VRO"]
    if isinstance(vro, str):
        vro = {"commandLine": vro}          # Eups.__init__ does the same
    if not (isinstance(vro, dict) and vro and all(isinstance(k, str) and isinstance(v, str) for k, v in vro.items())):
        raise ExtractError("hooks.py: config.Eups.VRO is not a dictionary of strings (per-database dictionaries are "
                           "outside the model): %r" % (vro,))
    out["VRO"] = [[k, v.split()] for k, v in vro.items()]
    return out


def extract_taggroups(path):
    """the registration loop of Eups.__init__:  for tags, group in [(globalTags, None), ([latest], None),
    (userTags, Tags.user), ([pseudo...], Tags.pseudo)]"""
    tree = ast.parse(open(path).read(), path)
    loops = []
    for cls in tree.body:
        if isinstance(cls, ast.ClassDef) and cls.name == "Eups":
            for fn in cls.body:
                if isinstance(fn, ast.FunctionDef) and fn.name == "__init__":
                    for node in ast.walk(fn):
                        if isinstance(node, ast.For) and isinstance(node.target, ast.Tuple) and \
                                [getattr(x, "id", None) for x in node.target.elts] == ["tags", "group"]:
                            loops.append(node)
    if len(loops) != 1 or not isinstance(loops[0].iter, ast.List) or len(loops[0].iter.elts) != 4:
        raise ExtractError("Eups.py: the tag registration loop of Eups.__init__ has changed shape")
    el = loops[0].iter.elts

    def hooks_attr(n, name):
        return (isinstance(n, ast.Attribute) and n.attr == name and isinstance(n.value, ast.Attribute)
                and n.value.attr == "Eups" and isinstance(n.value.value, ast.Attribute)
                and n.value.value.attr == "config")

    def tags_attr(n, name):
        return isinstance(n, ast.Attribute) and n.attr == name and isinstance(n.value, ast.Name) and n.value.id == "Tags"

    def const_none(n):
        return isinstance(n, ast.Constant) and n.value is None

    def words(n):
        v = ast.literal_eval(n)
        if not (isinstance(v, list) and all(isinstance(x, str) for x in v)):
            raise ExtractError("Eups.py: tag list is not a list of strings")
        return v
    ok = all(isinstance(t, ast.Tuple) and len(t.elts) == 2 for t in el)
    if not (ok and hooks_attr(el[0].elts[0], "globalTags") and const_none(el[0].elts[1])
            and isinstance(el[1].elts[0], ast.List) and const_none(el[1].elts[1])
            and hooks_attr(el[2].elts[0], "userTags") and tags_attr(el[2].elts[1], "user")
            and isinstance(el[3].elts[0], ast.List) and tags_attr(el[3].elts[1], "pseudo")):
        raise ExtractError("Eups.py: the tag registration loop of Eups.__init__ has changed shape")
    return {"builtinGlobal": words(el[1].elts[0]), "pseudo": words(el[3].elts[0])}


def coq_str(s):
    if not all(32 <= ord(ch) < 127 and ch != '"' for ch in s):
        raise ExtractError("unprintable word %r" % s)
    return '(lit "%s")' % s


def coq_list(words):
    return "[" + "; ".join(coq_str(w) for w in words) + "]"


def config_text(h, g):
    vro = "[" + "; ".join("(%s, %s)" % (coq_str(k), coq_list(v)) for k, v in h["VRO"]) + "]"
    return "\n".join([
        "(* GENERATED on every run of ./check C03 by harness/c03.py from python/eups/hooks.py (config.Eups.VRO,",
        "   preferredTags, globalTags, reservedTags, userTags) and python/eups/Eups.py (tag registration loop of",
        "   Eups.__init__).  Do not edit. *)",
        "From Eupsv Require Import Base.Base Model.Resolve.",
        "",
        "Definition hooks_vro : list (str * list str) := %s." % vro,
        "Definition hooks_preferred_tags : list str := %s." % coq_list(h["preferredTags"]),
        "Definition hooks_global_tags : list str := %s." % coq_list(h["globalTags"]),
        "Definition hooks_reserved_tags : list str := %s." % coq_list(h["reservedTags"]),
        "Definition hooks_user_tags : list str := %s." % coq_list(h["userTags"]),
        "Definition eups_builtin_global_tags : list str := %s." % coq_list(g["builtinGlobal"]),
        "Definition eups_pseudo_tags : list str := %s." % coq_list(g["pseudo"]),
        "",
        "(* the configuration of a site that registers the extra global tags [extra] and runs as user [user] *)",
        "Definition site_config (extra user : list str) : config :=",
        "  mkConfig hooks_vro hooks_preferred_tags",
        "           (hooks_global_tags ++ extra ++ eups_builtin_global_tags)",
        "           (hooks_user_tags ++ user) eups_pseudo_tags.",
        "",
        "Definition default_config : config := site_config [] [].",
        ""])


def regen_config(ctx=None):
    h = extract_hooks(os.path.join(common.REPO, "python", "eups", "hooks.py"))
    g = extract_taggroups(os.path.join(common.REPO, "python", "eups", "Eups.py"))
    txt = config_text(h, g)
    d = os.path.join(common.COQ, "Generated")
    os.makedirs(d, exist_ok=True)
    p = os.path.join(d, "Config.v")
    have = open(p).read() if os.path.exists(p) else None
    if have != txt:
        tmp = p + ".tmp%d" % os.getpid()
        with open(tmp, "w") as f:
            f.write(txt)
        os.replace(tmp, p)
    if ctx is not None:
        ctx.extra["generated_config"] = {"hooks": h, "taggroups": g}
    return h, g


# ------------------------------------------------------------------ case generation

def gen_db(rng):
    """two stacks; per stack and product up to 4 versions, each declared for the native and/or the fallback
    flavor; chain entries per (product, flavor, tag), a few of them dangling"""
    stacks = []
    for sid in STACKS:
        decl, chain = [], []
        for n in PRODUCTS:
            r = rng.random()
            if r < 0.15:
                continue
            k = rng.choice([1, 1, 2, 2, 3, 4])
            for v in sorted(rng.sample(VERSIONS, k), key=VERSIONS.index):
                fl = rng.choice([[NATIVE], [NATIVE], [FALLBACK], [NATIVE, FALLBACK]])
                for f in fl:
                    decl.append([n, v, f])
            for f in (NATIVE, FALLBACK):
                mine = [d[1] for d in decl if d[0] == n and d[2] == f]
                for t in DB_TAGS:
                    p = {"current": 0.6, "stable": 0.35, "beta": 0.35, "t": 0.25}[t]
                    if mine and rng.random() < p:
                        chain.append([n, f, t, rng.choice(mine)])
                    elif rng.random() < 0.06:
                        # dangling: the chain names a version whose record does not exist for this flavor
                        others = [v for v in VERSIONS + ["3.0"] if v not in mine]
                        chain.append([n, f, t, rng.choice(others)])
        stacks.append({"id": sid, "decl": decl, "chain": chain})
    return stacks


def gen_opts(rng):
    def pick():
        r = rng.random()
        k = 0 if r < 0.35 else 1 if r < 0.75 else 2 if r < 0.95 else 3
        return rng.sample(CL_TAGS, k)
    return {"keep": rng.random() < 0.2, "exact": rng.random() < 0.2, "inexact": rng.random() < 0.1,
            "tags": pick(), "posttags": pick()}


def gen_request(rng, db):
    n = rng.choice(PRODUCTS + PRODUCTS + PRODUCTS + ["p9"])
    r = rng.random()
    ops = ["<", "<=", "==", ">=", ">"]
    version = expr = None
    if r < 0.3:
        form = "bare"
    elif r < 0.6:
        form = "version"
        version = rng.choice(VERSIONS + ["3.0"])
    elif r < 0.85:
        form = "expr"
        version = rng.choice(ops) + rng.choice(["", " "]) + rng.choice(VERSIONS + ["1.5", "0.5"])
    else:
        form = "version+expr"
        version = rng.choice(VERSIONS + ["3.0"])
        expr = rng.choice(ops) + " " + rng.choice(VERSIONS + ["1.5"])
    depth = rng.choice([0, 1, 1])
    flavors = [NATIVE, FALLBACK] if rng.random() < 0.85 else [FALLBACK, FALLBACK]
    prev = None
    if rng.random() < 0.18:
        # the product has been chosen before in this command
        cands = [(s["id"], d) for s in db for d in s["decl"] if d[0] == n]
        if cands:
            sid, d = rng.choice(cands)
            rk = rng.random()
            if rk < 0.25:
                reason = None
            elif rk < 0.65:
                reason = [rng.choice(CL_TAGS), None]
            elif rk < 0.8:
                reason = ["version", d[1]]
            elif rk < 0.93:
                reason = ["commandLine", d[1]]
            else:
                reason = ["keep", None]
            prev = {"stack": sid, "version": d[1], "flavor": d[2], "reason": reason}
    return {"name": n, "version": version, "expr": expr, "form": form, "depth": depth, "flavors": flavors,
            "prev": prev}


def gen_group(rng, nreq):
    db = gen_db(rng)
    reqs = []
    for _ in range(nreq):
        o = gen_opts(rng)
        q = gen_request(rng, db)
        q["opts"] = o
        reqs.append(q)
    # a sequence asked of ONE Eups instance (fresh products only): exercises the per-instance product memo
    seq = []
    n = rng.choice(PRODUCTS)
    for _ in range(rng.choice([2, 3, 4])):
        q = gen_request(rng, db)
        q["name"] = n
        q["prev"] = None
        q["depth"] = 1
        seq.append(q)
    return {"db": db, "requests": reqs, "sequence": {"opts": gen_opts(rng), "requests": seq}}


# ------------------------------------------------------------------ model protocol

def enc_db(db, user_stack=True):
    parts = []
    for s in db:
        parts.append("@".join([enc(s["id"]),
                               ",".join("~".join(enc(x) for x in d) for d in s["decl"]),
                               ",".join("~".join(enc(x) for x in c) for c in s["chain"])]))
    if user_stack:
        parts.append("ud@@")           # the user data directory is the last element of Eups.path; it is empty
    return "|".join(parts)


def enc_opt(x):
    return "-" if x is None else "=" + enc(x)


def enc_prev(name, p):
    if p is None:
        return "-"
    r = p["reason"]
    return "~".join([enc(p["stack"]), enc(name), enc(p["version"]), enc(p["flavor"]),
                     "-" if r is None else "=" + enc(r[0]), "-" if r is None else enc_opt(r[1])])


def b(x):
    return "1" if x else "0"


def enc_vrocfg(cfg):
    """alternative hooks.config.Eups.VRO (None = the shipped one)"""
    if cfg is None:
        return "-"
    return ";".join(enc(k) + "=" + ",".join(enc(w) for w in v.split()) for k, v in cfg.items())


def to_line(db, q, user, vrocfg=None):
    o = q["opts"]
    return "\t".join([
        "case", ",".join(enc(x) for x in EXTRA_GLOBAL), enc(user), enc_vrocfg(vrocfg),
        b(o["keep"]), b(o["exact"]), b(o["inexact"]), b(q["version"] is not None),
        ",".join(enc(x) for x in o["tags"]), ",".join(enc(x) for x in o["posttags"]),
        enc_db(db), ",".join(enc(x) for x in q["flavors"]), str(q["depth"]),
        enc(q["name"]), enc_opt(q["version"]), enc_opt(q["expr"]), enc_prev(q["name"], q["prev"])])


def dec_found(s):
    if s == "-":
        return None
    st, n, v, f = s.split("~")
    return {"stack": dec(st), "name": dec(n), "version": dec(v), "flavor": dec(f)}


def dec_reason(s):
    if s == "-":
        return None
    t, x = s.split("~")
    return [dec(t), None if x == "-" else dec(x[1:])]


def parse_model(line):
    f = line.split("\t")
    if f[0] != "ok":
        return {"driver": line}
    out = {"pref0": [dec(x) for x in f[1].split(",")] if f[1] else []}
    if f[2].startswith("err:"):
        out["vro"] = {"err": f[2][4:]}
        return out
    out["vro"] = [dec(x) for x in f[2].split(",")] if f[2] else []
    out["walk"] = {"found": dec_found(f[3]), "reason": dec_reason(f[4])}
    if f[5].startswith("err:"):
        out["resolve"] = {"err": f[5][4:]}
    else:
        out["resolve"] = {"found": dec_found(f[5]), "reason": dec_reason(f[6])}
    out["spec_in"] = dec_found(f[7])
    out["spec"] = dec_found(f[8])
    out["wf"] = f[9] == "1"
    return out


# ------------------------------------------------------------------ implementation side (runs in children)

def _setup_environ(base):
    env = common.scrubbed_environ()
    os.environ.clear()
    os.environ.update(env)
    os.environ["EUPS_PATH"] = ":".join(os.path.join(base, s) for s in STACKS)
    os.environ["EUPS_USERDATA"] = os.path.join(base, "ud")
    os.environ["EUPS_FLAVOR"] = NATIVE


def _write_db(eups, base, db):
    import eups.db as edb
    from eups.db.ChainFile import ChainFile
    for s in db:
        root = os.path.join(base, s["id"])
        os.makedirs(os.path.join(root, "ups_db"))
        dbo = edb.Database(os.path.join(root, "ups_db"))
        for n, v, f in s["decl"]:
            dbo.declare(eups.Product(n, v, f, "none", "none"))
        for n, f, t, v in s["chain"]:
            if [n, v, f] in s["decl"]:
                dbo.assignTag(t, n, v, [f])
            else:
                # a dangling chain entry cannot be made through the API: write the chain file itself
                pdir = os.path.join(root, "ups_db", n)
                os.makedirs(pdir, exist_ok=True)
                cf = ChainFile(os.path.join(pdir, t + ".chain"), n, t)
                cf.setVersion(v, [f])
                cf.write()
    os.makedirs(os.path.join(base, "ud", "ups_db"))


def _stack_of(base, product):
    root = product.stackRoot() if product.db else None
    if root is None:
        return None
    return os.path.relpath(root, base)


def _found(base, p):
    if p is None:
        return None
    return {"stack": _stack_of(base, p), "name": p.name, "version": p.version, "flavor": p.flavor}


def _mk_eups(eups, q, readCache, flavor):
    o = q["opts"]
    os.environ["EUPS_FLAVOR"] = flavor
    # setupType=None: the default argument of Eups.__init__ is ONE shared list that every walk over a
    # type:exact entry extends in place, so without it every Eups after the first is born exact
    e = eups.Eups(readCache=readCache, quiet=1, keep=o["keep"], exact_version=o["exact"] or None, setupType=None)
    pref0 = list(e.getPreferredTags())
    e.selectVRO(o["tags"] or None, None, q["version"], None, inexact_version=o["inexact"],
                postTag=o["posttags"] or None)
    return e, pref0


def _install_prev(eups, base, e, q):
    e.alreadySetupProducts = {}
    p = q["prev"]
    if p is not None:
        prod = eups.Product(q["name"], p["version"], p["flavor"], "none", "none",
                            db=os.path.join(base, p["stack"], "ups_db"))
        e.alreadySetupProducts[q["name"]] = (prod, list(p["reason"]) if p["reason"] is not None else None)


def impl_one(eups, base, q, readCache, vrocfg=None):
    """everything the real code says about one request, with a fresh Eups for each observation"""
    from eups import hooks
    dbmod = sys.modules["eups.db.Database"]
    out = {}
    saved_vro = hooks.config.Eups.VRO
    if vrocfg is not None:
        hooks.config.Eups.VRO = dict(vrocfg)
    try:
        try:
            e, pref0 = _mk_eups(eups, q, readCache, q["flavors"][0])
        except Exception as ex:  # noqa
            return {"pref0": None, "vro": {"err": type(ex).__name__}}
        out["pref0"] = pref0
        out["vro"] = list(e.getVRO())
        out["pref"] = list(e.getPreferredTags())
        out["path"] = [os.path.relpath(p, base) for p in e.path]
        _install_prev(eups, base, e, q)
        try:
            p, r = e.findProductFromVRO(q["name"], q["version"], q["expr"], flavor=q["flavors"][0],
                                        recursionDepth=q["depth"], vro=e.getPreferredTags())
            out["walk"] = {"found": _found(base, p), "reason": list(r) if r else None}
        except Exception as ex:  # noqa
            out["walk"] = {"err": type(ex).__name__}
        # the loops of Eups.setup, observed through a real setup of the (table-less) product
        dbmod._databases.clear()
        keepenv = dict(os.environ)
        e, _ = _mk_eups(eups, q, readCache, q["flavors"][0])
        _install_prev(eups, base, e, q)
        try:
            res = e.setup(q["name"], q["version"], recursionDepth=q["depth"], versionExpr=q["expr"])
            if res[0]:
                prod, reason = e.alreadySetupProducts[q["name"]]
                out["resolve"] = {"found": _found(base, prod), "reason": list(reason) if reason else None}
                out["setup_var"] = os.environ.get("SETUP_" + q["name"].upper())
            else:
                out["resolve"] = {"found": None, "reason": None}
        except Exception as ex:  # noqa
            out["resolve"] = {"err": type(ex).__name__}
        os.environ.clear()
        os.environ.update(keepenv)
    finally:
        hooks.config.Eups.VRO = saved_vro
    return out


def impl_sequence(eups, base, seq, readCache):
    """several requests put to one Eups instance, none of them recorded in alreadySetupProducts"""
    q0 = dict(seq["requests"][0])
    q0["opts"] = seq["opts"]
    q0["version"] = None
    e, _ = _mk_eups(eups, q0, readCache, NATIVE)
    out = []
    for q in seq["requests"]:
        e.alreadySetupProducts = {}
        try:
            p, r = e.findProductFromVRO(q["name"], q["version"], q["expr"], flavor=q["flavors"][0],
                                        recursionDepth=q["depth"], vro=e.getPreferredTags())
            out.append({"found": _found(base, p), "reason": list(r) if r else None})
        except Exception as ex:  # noqa
            out.append({"err": type(ex).__name__})
    return out


def impl_groups(groups):
    """child process: build each database once, put every request of the group to the real code"""
    devnull = os.open(os.devnull, os.O_WRONLY)
    os.dup2(devnull, 2)                      # eups chats on stderr
    sys.stderr = open(os.devnull, "w")
    eups = None
    res = []
    for g in groups:
        base = common.scratch_dir()
        try:
            _setup_environ(base)
            if eups is None:
                eups = common.import_eups()
                from eups import hooks
                for t in EXTRA_GLOBAL:
                    if t not in hooks.config.Eups.globalTags:
                        hooks.config.Eups.globalTags += [t]
                import eups.utils
                user = eups.utils.getUserName()
            sys.modules["eups.db.Database"]._databases.clear()
            _write_db(eups, base, g["db"])
            one = []
            for q in g["requests"]:
                r = {}
                for rc in (False, True):
                    sys.modules["eups.db.Database"]._databases.clear()
                    r["cache" if rc else "db"] = impl_one(eups, base, q, rc, g.get("vrocfg"))
                one.append(r)
            sq = None
            if g.get("sequence"):
                sq = {}
                for rc in (False, True):
                    sys.modules["eups.db.Database"]._databases.clear()
                    sq["cache" if rc else "db"] = impl_sequence(eups, base, g["sequence"], rc)
            res.append({"requests": one, "sequence": sq, "user": user})
        finally:
            shutil.rmtree(base, ignore_errors=True)
    return res


def run_parallel(groups, nproc=NPROC):
    """fork up to nproc children, each taking a slice of the groups; results in order"""
    if not groups:
        return []
    nproc = max(1, min(nproc, len(groups), (os.cpu_count() or 4)))
    slices = [groups[i::nproc] for i in range(nproc)]
    kids = []
    for sl in slices:
        r, w = os.pipe()
        pid = os.fork()
        if pid == 0:
            code = 0
            try:
                os.close(r)
                try:
                    res = ("ok", impl_groups(sl))
                except BaseException as ex:  # noqa
                    import traceback
                    res = ("exc", type(ex).__name__, str(ex)[:1000], traceback.format_exc()[-3000:])
                with os.fdopen(w, "wb") as f:
                    f.write(json.dumps(res).encode())
            except BaseException:  # noqa
                code = 3
            finally:
                os._exit(code)
        os.close(w)
        kids.append((pid, r))
    outs = []
    for pid, r in kids:
        chunks = []
        with os.fdopen(r, "rb") as f:
            while True:
                bb = f.read(1 << 16)
                if not bb:
                    break
                chunks.append(bb)
        os.waitpid(pid, 0)
        data = b"".join(chunks)
        if not data:
            raise RuntimeError("implementation child died")
        res = json.loads(data.decode())
        if res[0] != "ok":
            raise RuntimeError("implementation child failed: %r" % (res,))
        outs.append(res[1])
    merged = [None] * len(groups)
    for k, sl in enumerate(outs):
        for j, x in enumerate(sl):
            merged[k + j * nproc] = x
    return merged


# ------------------------------------------------------------------ the property's own oracle
# The designation rule of the property text, on plain python data.  Independent of the Coq text and of
# the eups code: it is given the database, the VRO the real code reported, the request, and says which
# (stack, version, flavor) must be returned.

def vkey(v):
    return [int(x) for x in v.split(".")]


def o_match(v, expr):
    e = expr.strip()
    for op in ("<=", ">=", "==", "<", ">"):
        if e.startswith(op):
            w = e[len(op):].strip()
            a, c = vkey(v), vkey(w)
            return {"<=": a <= c, ">=": a >= c, "==": a == c, "<": a < c, ">": a > c}[op]
    return False


def o_is_expr(s):
    return s is not None and ("<" in s or ">" in s or "==" in s)


def o_declared(s, n, v, f):
    return [n, v, f] in s["decl"]


def o_tagged(db, n, t, f):
    for s in db:
        for c in s["chain"]:
            if c[0] == n and c[1] == f and c[2] == t:
                if o_declared(s, n, c[3], f):
                    return (s["id"], c[3], f)
                break
    return None


def o_named(db, n, v, f):
    for s in db:
        if o_declared(s, n, v, f):
            return (s["id"], v, f)
    return None


def o_highest(db, n, f, pred):
    best = None
    for s in db:
        for d in s["decl"]:
            if d[0] == n and d[2] == f and pred(d[1]):
                if best is None or vkey(d[1]) > vkey(best[1]):
                    best = (s["id"], d[1], f)
    return best


PSEUDO = {"commandLine", "keep", "path", "setup", "type", "version", "version!", "versionExpr", "warn"}


def o_designates(db, vro, q, known_tags):
    """the product the VRO designates for a request that has not been chosen before in this command"""
    n, version, expr, depth = q["name"], q["version"] or None, q["expr"] or None, q["depth"]
    rel = version if o_is_expr(version) else None
    named = version if (version and not rel) else None
    bracket = expr if (named and o_is_expr(expr)) else None
    for f in q["flavors"]:
        i = 0
        while i < len(vro):
            e, later = vro[i], vro[i + 1:]
            i += 1
            got, fail = None, False
            vlike_later = any(x in ("version", "version!", "versionExpr") for x in later)
            if e in ("version", "version!"):
                if named:
                    got = o_named(db, n, named, f)
                    fail = got is None and not vlike_later
                elif rel:
                    fail = "versionExpr" not in later
            elif e == "versionExpr":
                if rel:
                    got = o_highest(db, n, f, lambda v: o_match(v, rel))
                    fail = got is None and not vlike_later
                elif named:
                    if bracket:
                        got = o_highest(db, n, f, lambda v: o_match(v, bracket))
                    if got is None:
                        got = o_named(db, n, named, f)
                    fail = got is None and not vlike_later
            elif e == "latest":
                got = o_highest(db, n, f, lambda v: True)
            elif e in PSEUDO or e.startswith("type:") or e.startswith("warn:") or e not in known_tags:
                pass
            else:
                got = o_tagged(db, n, e, f)
            if fail:
                break
            if got is not None:
                if depth == 0 and named and got[1] != named:
                    continue                # not acceptable at the top level: resume after this entry
                return got
    return None


def o_walk(db, vro, q, known_tags):
    """one plain walk for the first flavor only (what findProductFromVRO itself returns)"""
    q1 = dict(q)
    q1["flavors"] = q["flavors"][:1]
    q1["depth"] = 1
    return o_designates(db, vro, q1, known_tags)


def triple(fd):
    return None if fd is None else (fd["stack"], fd["version"], fd["flavor"])


def check_vro_shape(ctx, case, vro, o):
    """-t tags come before every version-like entry (so they override versions named in tables), -T tags
    after every version-like entry (so they apply only when no usable version is named)"""
    vl = [i for i, x in enumerate(vro) if x in ("version", "version!", "versionExpr")]
    if not vl:
        return
    for t in o["tags"]:
        if t not in vro or vro.index(t) > min(vl):
            ctx.fail("pretag-position", case, expected="%s before version" % t, observed=vro,
                     what="-t tag %s is not placed before the version entries" % t)
    for t in o["posttags"]:
        if t in o["tags"]:
            continue
        if t not in vro or vro.index(t) < max(vl):
            ctx.fail("posttag-position", case, expected="%s after versionExpr" % t, observed=vro,
                     what="-T tag %s is not placed after the version entries" % t)


def oracle(ctx, case, db, q, impl, known_tags):
    """evaluate the property on what the real code returned (impl = result of impl_one)"""
    if not isinstance(impl.get("vro"), list):
        return
    vro = impl["pref"]
    check_vro_shape(ctx, case, vro, q["opts"])
    if q["prev"] is not None:
        return          # the designation rule speaks about products not yet chosen in this command
    w = impl.get("walk", {})
    if "err" in w:
        ctx.fail("walk-raises", case, observed=w, what="findProductFromVRO raised %s" % w["err"])
    else:
        exp = o_walk(db, vro, q, known_tags)
        got = triple(w["found"])
        if got != exp:
            ctx.fail("walk-designation", case, expected=exp, observed=got,
                     what="findProductFromVRO returned %r, the VRO %r designates %r" % (got, vro, exp))
    r = impl.get("resolve", {})
    if "err" in r:
        ctx.fail("setup-raises", case, observed=r, what="Eups.setup raised %s" % r["err"])
    else:
        exp = o_designates(db, vro, q, known_tags)
        got = triple(r["found"])
        if got != exp:
            ctx.fail("setup-designation", case, expected=exp, observed=got,
                     what="Eups.setup chose %r, the VRO %r designates %r" % (got, vro, exp))
        sv = impl.get("setup_var")
        if r["found"] is not None and sv is not None:
            parts = sv.split()
            if parts[1] != r["found"]["version"]:
                ctx.fail("setup-var", case, expected=r["found"]["version"], observed=sv,
                         what="SETUP_ variable records another version than the product chosen")
        # direct corollaries of the property text
        named = q["version"] if (q["version"] and not o_is_expr(q["version"])) else None
        if named and q["depth"] == 0 and r["found"] is not None and r["found"]["version"] != named:
            ctx.fail("toplevel-version", case, expected=named, observed=got,
                     what="a top-level request for an explicit version set up another version")
        names_something = bool(q["version"])
        vl = [k for k, x in enumerate(vro) if x in ("version", "version!", "versionExpr")]
        if names_something and r["found"] is not None and r["reason"] and vl and r["reason"][0] in vro and \
                vro.index(r["reason"][0]) > max(vl):
            ctx.fail("falls-through", case, expected=None, observed=[got, r["reason"]],
                     what="a request naming a version or expression fell through to the later entry %s" %
                          r["reason"][0])


# ------------------------------------------------------------------ comparing

def canon_impl(i):
    """the observables compared with the model"""
    if not isinstance(i.get("vro"), list):
        return {"vro": {"err": "Crash"}}           # selectVRO raised
    out = {"pref0": i.get("pref0")}
    out["vro"] = i["vro"]
    for k in ("walk", "resolve"):
        x = i[k]
        out[k] = {"err": "Crash"} if "err" in x else {"found": x["found"], "reason": x["reason"]}
    return out


def canon_model(m):
    if not isinstance(m.get("vro"), list):
        return {"vro": m.get("vro")}
    return {"pref0": m.get("pref0"), "vro": m["vro"], "walk": m["walk"], "resolve": m["resolve"]}


def compare_groups(ctx, groups, label="random"):
    impl = run_parallel(groups)
    lines, index = [], []
    for gi, (g, ir) in enumerate(zip(groups, impl)):
        user = ir["user"]
        for qi, q in enumerate(g["requests"]):
            lines.append(to_line(g["db"], q, user, g.get("vrocfg")))
            index.append((gi, qi, None))
        if g.get("sequence"):
            for si, q in enumerate(g["sequence"]["requests"]):
                q2 = dict(q)
                q2["opts"] = g["sequence"]["opts"]
                lines.append(to_line(g["db"], q2, user, g.get("vrocfg")))
                index.append((gi, None, si))
    mout = [parse_model(l) for l in ctx.model(lines)]
    known_tags = set(["current", "stable", "latest"] + EXTRA_GLOBAL)
    for (gi, qi, si), m in zip(index, mout):
        g, ir = groups[gi], impl[gi]
        if "driver" in m:
            raise RuntimeError("model driver: " + m["driver"])
        if qi is not None:
            q = g["requests"][qi]
            case = {"db": g["db"], "request": q, "vrocfg": g.get("vrocfg")}
            o = q["opts"]
            shape = "%s/d%d/%s%s%s" % (q["form"], q["depth"], "t" if o["tags"] else "-", "T" if o["posttags"] else "-",
                                       "/prev" if q["prev"] else "")
            mc = canon_model(m)
            found_any = False
            for mode in ("db", "cache"):
                i = ir["requests"][qi][mode]
                ic = canon_impl(i)
                if ic != mc:
                    ctx.disagree(dict(case, readCache=(mode == "cache")), mc, ic, where=mode)
                if isinstance(i.get("vro"), list):
                    if i["vro"] != i["pref"]:
                        ctx.disagree(dict(case, readCache=(mode == "cache")), i["pref"], i["vro"],
                                     where="getVRO() differs from getPreferredTags()")
                    if i["path"] != STACKS + ["ud"]:
                        raise RuntimeError("unexpected Eups.path %r" % (i["path"],))
                    if g.get("vrocfg") is None:
                        oracle(ctx, dict(case, readCache=(mode == "cache")), g["db"], q, i, known_tags)
                    found_any = found_any or bool(i.get("resolve", {}).get("found"))
                ctx.count(1, key=label + "/" + shape + ("/found" if found_any else "/none"),
                          nontrivial=(lines[0] and json.dumps([g["db"], q], sort_keys=True))
                          if (found_any and (o["tags"] or o["posttags"] or q["version"])) else None)
            # the Coq specification run on the model's side of the same case (cross-check of the statement)
            if q["prev"] is None and isinstance(m.get("vro"), list) and m.get("wf") and g.get("vrocfg") is None:
                if triple(m["spec_in"]) != triple(m["walk"]["found"]) or \
                        ("err" not in m["resolve"] and triple(m["spec"]) != triple(m["resolve"]["found"])):
                    ctx.disagree(case, {"designates_in": m["spec_in"], "designates": m["spec"]},
                                 {"find_from_vro": m["walk"], "resolve_request": m["resolve"]},
                                 where="extracted designates differs from the extracted model")
                for mode in ("db", "cache"):
                    i = ir["requests"][qi][mode]
                    if isinstance(i.get("vro"), list) and "err" not in i["walk"]:
                        if o_walk(g["db"], i["pref"], q, known_tags) != triple(m["spec_in"]) and \
                                i["pref"] == m["vro"]:
                            ctx.disagree(case, m["spec_in"], o_walk(g["db"], i["pref"], q, known_tags),
                                         where="python oracle differs from the extracted Coq designates_in")
        else:
            # sequences on one instance: every answer must be the one a fresh instance gives (= the model's)
            q = g["sequence"]["requests"][si]
            case = {"db": g["db"], "sequence": g["sequence"], "step": si, "vrocfg": g.get("vrocfg")}
            for mode in ("db", "cache"):
                got = ir["sequence"][mode][si]
                ctx.count(1, key=label + "/sequence", nontrivial=None)
                if isinstance(m.get("vro"), list):
                    want = m["walk"]
                    if "err" in got or got != want:
                        ctx.disagree(dict(case, readCache=(mode == "cache")), want, got, where="sequence/" + mode)
                    if "err" not in got:
                        exp = o_walk(g["db"], m["vro"], q, known_tags)
                        if triple(got["found"]) != exp:
                            ctx.fail("repeated-request", dict(case, readCache=(mode == "cache")), expected=exp,
                                     observed=triple(got["found"]),
                                     what="request %d put to an Eups instance that had answered other requests "
                                          "returned %r; the VRO designates %r" % (si, triple(got["found"]), exp))
                        ctx.traces_validated += 1
    return impl, mout


# ------------------------------------------------------------------ driver

ALT_VROS = [
    {"default": "type:exact commandLine current version versionExpr stable"},
    {"default": "commandLine version versionExpr warn current warn:2 stable latest"},
    {"default": "type:exact commandLine version versionExpr current", "beta": "beta commandLine version! versionExpr"},
    {"default": "path keep version current"},
    {"default": "commandLine current stable"},      # no version entry: -T alone raises (unbound where)
]


def corpus_groups():
    d = os.path.join(common.ROOT, "corpus", PID)
    out = []
    if os.path.isdir(d):
        for f in sorted(os.listdir(d)):
            if f.endswith(".json"):
                out.append(json.load(open(os.path.join(d, f)))["input"])
    return out


def case_to_group(c):
    """a replay / corpus input is either a whole group or one failing case"""
    if "requests" in c:
        return c
    if "request" in c:
        return {"db": c["db"], "requests": [c["request"]], "sequence": None, "vrocfg": c.get("vrocfg")}
    if "sequence" in c:
        return {"db": c["db"], "requests": [], "sequence": c["sequence"], "vrocfg": c.get("vrocfg")}
    raise ValueError("unrecognised case")


def settings(ctx):
    ctx.rule = ("random databases of 2 stacks x 3 products x up to 4 dotted-numeric versions declared for the native "
                "and/or the fallback flavor, chain entries for current/stable/beta/t per (product, flavor) with 6% "
                "dangling ones; requests: bare / explicit version (declared or not) / relational expression / version "
                "with bracketed expression, depth 0 or 1, flavor list [Linux64, generic] or [generic, generic], 18% with "
                "an earlier choice in alreadySetupProducts; options: every ordered choice of 0-3 -t and 0-3 -T tags out of "
                "{stable, beta, latest, t, current}, --keep, --exact, --inexact; each request put to a fresh Eups with "
                "readCache off and on; plus sequences of 2-4 requests on one instance and five alternative "
                "hooks.config.Eups.VRO settings for selectVRO; a case is non-trivial when a product is found and the "
                "request names a version or a tag option; distinct = distinct (database, request); family versions: "
                "databases whose version names are drawn from the conventional grammar of harness/c10.py (neighbours such "
                "as 1.0 1.0.1 1.0+1 1.0-rc1 1.10 1.9, a sample of the bounded grammar, a letter prefix v for 12% of the "
                "products, two letter prefixes in one product 10%, two spellings of one key 35%, an accepted but not "
                "conventional name 8%), requests with relational expressions and || alternatives over them, bracketed "
                "expressions, -t/-T latest, both look-up modes; directed databases with ties inside one stack and "
                "across two; a written-through cache whose listing is not sorted; family ext (harness/c03ext.py): the same "
                "two-stack databases with, per stack, chain files of the user tags mine and ut2 in the user's tag directory "
                "(EUPS_USERDATA/_caches_/stack, 5% dangling), up to three tag files (two by absolute name, 25% one called "
                "stable in the working directory, shadowing the tag) of 1-4 lines (product version with bars, blanks and "
                "trailing words, comments, empty lines, 4% lines of one field, versions declared or not), one existing "
                "directory; options: -t / -T words drawn from registered tags, user tags, file names and file:names, "
                "--keep/--exact/--inexact, -r 12%, 30% an explicit --vro of 1-6 words out of version version! versionExpr "
                "current stable beta mine ut2 latest warn warn:2 warn:0 type:exact commandLine path keep bogus t, a file "
                "name, file:name of an existing and of a missing file; requests as before plus 12% LOCAL:dir (existing or "
                "not; walk only); both look-up modes; 46 directed requests over three directed worlds; family seq "
                "(harness/c03seq.py): histories put to ONE long-lived Eups instance, with and without the product cache - a "
                "two-stack database restricted to one or two products, without dangling chain entries (25% with the tag of the history assigned in the second "
                "stack only, 10% nowhere), options as before with the tag of the history among -t (45%) or -T (35%), and 1-3 "
                "rounds of 1-2 changes made through the instance followed by an ask: assignTag 40% / unassignTag 25% / "
                "declare 20% (60% with tag=) / undeclare 15%, the stack argument omitted in 60%; an ask is findProductFromVRO "
                "(through the instance, with noCache=True, and in half of the cases on a new instance), findTaggedProduct for "
                "current stable beta t latest, findProduct of a named version; 40% closed by a real Eups.setup on the instance; "
                "every answer is judged on the database view read back from the files at that step; 8 directed histories; "
                "family multi (harness/c03multi.py): sessions of 2-3 live Eups instances in one process, built with "
                "Eups(flavor=) for flavors out of Linux64 DarwinX86 Linux (85% all different), each with its own -t/-T "
                "options, over a two-stack database of one or two products whose versions are declared for random sets of "
                "those flavors and generic (60%: no declaration at all for the flavor of one instance), chain entries "
                "per flavor; the instances are built in a random order, after each construction the new instance and 75% "
                "of the older ones are asked, and 80% once more at the end; an ask is findProductFromVRO (with and "
                "without noCache), findTaggedProduct for five tags, findProduct of a named version, the flavors searched, "
                "and in 60% a real Eups.setup through the instance; instances with and without the product cache; 90 "
                "directed sessions (three databases x five flavor line-ups x three option sets x two build orders)")
    ctx.trusted_base = common.COMMON_TRUSTED + [
        "harness/c03.py extract_hooks/extract_taggroups: python ast -> coq/Generated/Config.v, fail-closed (any "
        "non-literal or repeated assignment to the watched config.Eups attributes aborts the check)",
        "modelled, not verified: python list.sort with a consistent comparator (last of the greatest elements), "
        "dict/list membership on strings, the directory listing order of version files (immaterial under a total order)",
        "family ext: os.path.isfile / os.path.exists enter the model as the lists w_files / w_dirs of the case; the "
        "lines of a tag file are given to the model as the harness wrote them; the word BASE of a case is replaced by "
        "the scratch directory on the implementation side only",
        "family seq: the database as it is now is read back from the version files and chain files of the stacks with "
        "eups.db.VersionFile / ChainFile after every event; the changes are modelled for the flavor of the instance "
        "(coq/Model/ResolveSeq.v) and the model's view is compared with the files at every ask; an instance without the "
        "product cache takes every product for new in Eups.declare (findProducts reads the cache only), so for it an "
        "untagged declare is given to the model as a declare with tag=current",
        "family multi: the flavor list of an instance is given to the model as [its flavor, generic] (the shipped "
        "hooks.config.Eups.fallbackFlavors); every answer of a session is compared with the extracted resolver on the "
        "view and the asked instance's own flavor list and options (op caseq without changes), which is run_session's "
        "answer by instances_do_not_interfere; the files of the stacks are read back at the end of a session",
        "hooks.version_cmp / Eups.version_match enter the model as parameters; the first family of cases runs the "
        "extracted model with a dotted-numeric comparator and one-term expressions and keeps its version names inside "
        "that fragment (1.0 1.1 2.0 10.0); the family versions runs it with the comparator and the matcher of C10 "
        "(coq/Model/ResolveReal.v, op casev) on version names of C10's grammar",
        "family versions: the listing order of the version files of a product is an INPUT of the model - sorted as "
        "strings for look-ups in the database files (Database.findProducts sorts), as ProductStack.getVersions reports "
        "it for look-ups through the cache; it decides which of several spellings of one key is returned",
        "family versions: python's list.sort is read as: the last of the greatest elements; this presupposes that "
        "hooks.version_cmp is a total preorder on the declared names, which the harness tests on the real comparator "
        "per request (it is not on 2 / 10 / 1a); such requests are counted, not compared"]
    ctx.assumptions = [
        "no -z dictionaries in hooks.config.Eups.VRO; every -t/-T word is an unqualified, non-reserved tag name "
        "(registered, or a user tag) or names a file; families case and versions: no --vro, registered words only",
        "families case and versions: no VRO word names an existing file in the working directory, no LOCAL: versions; "
        "everywhere: no setup pseudo-tag, no --ignore-versions, no --force",
        "family ext: user tag assignments are where eups writes them (the user's tag directory of the stack; no stack "
        "holds a chain file named like a user tag - the model follows the database look-up there, which then prefers the "
        "stack's file); only the running user's tag directory (no tags of other users); tag files hold product version "
        "lines, comments and empty lines - setupRequired(...) lines, relational expressions and LOCAL: versions inside a "
        "tag file are outside the model (Err Undefined, counted); no file is called keep or type:x; LOCAL: versions are "
        "compared for findProductFromVRO only, not for Eups.setup (which builds the product from the directory itself)",
        "family seq: a history starts from a database that eups commands can produce - every chain entry names a version "
        "declared for that flavor in that stack (C06 no_dangling_tag) - and stays there: the changes keep it so",
        "family seq: changes are made through the instance that is asked (another process changing the files under a "
        "live instance is the subject of the cache properties, not of this family); products without directory and table "
        "(declare with none none); global tags only; the closing setup is the last event of a history",
        "family multi: the instances only read (changes made under several live instances belong to the cache "
        "properties); the shipped fallback configuration (generic for every flavor); no dangling chain entries",
        "walk_x_is_designation: wf_dbx, total_order_on, no file called keep, a relational request does not begin with "
        "LOCAL:; resolve_is_designation_user_tags and user_pretag_overrides: worlds of stacks only (plain_world)",
        "walk_is_designation and its corollaries: wf_db (no version name is itself a relational expression, no chain "
        "file named keep) and total_order_on vcmp (the version names declared for the product), which only the "
        "latest and expression entries use",
        "the designation rule speaks about a product not yet chosen in the running command (alreadySetupProducts has no "
        "entry for it); with an entry the model is tied to the code by correspondence and earlier_rank_wins",
        "the theorems ..._real: conventional version names (C10: conv) for the expression and latest entries "
        "(expr_highest_real, latest_highest_real, tie_rules_real); walk_is_designation_real and its corollaries in "
        "addition: no two declared names of the product spell the same key (real_names_ok - for the real comparator "
        "this IS total_order_on, real_comparator_total_order), and real_domain (no comparison the request causes raises); "
        "one stack with listings sorted as strings: conventional names suffice, the designation rule read in the order "
        "vcmp_sorted (walk_is_designation_one_sorted_stack)"]


def run(ctx):
    settings(ctx)
    regen_config(ctx)
    ctx.check_theorems()
    if ctx.tier == "thorough":
        ctx.coqchk(["Eupsv.Props.C03"])
    rng = ctx.rng
    groups = [case_to_group(c) for c in corpus_groups()]
    ncorpus = len(groups)
    ndb = ctx.size(400, 6000)
    nreq = ctx.size(20, 30)
    for _ in range(ndb):
        groups.append(gen_group(rng, nreq))
    # selectVRO under other configurations (model tie only; the property is about the shipped one)
    for cfg in ALT_VROS:
        for _ in range(ctx.size(4, 40)):
            g = gen_group(rng, 12)
            g["vrocfg"] = cfg
            g["sequence"] = None
            groups.append(g)
    for g in groups[ncorpus:ncorpus + 1]:
        ctx.sample({"db": g["db"], "request": g["requests"][0]})
    step = 400
    for i in range(0, len(groups), step):
        compare_groups(ctx, groups[i:i + step], label="case")
    # the comparator of C10 inside the resolver: generated after (and so without disturbing) the cases above
    run_versions(ctx)
    # user tags, --vro, LOCAL: versions / -r, tag files (harness/c03ext.py, coq/Model/ResolveExt.v)
    import c03ext
    c03ext.run_ext(ctx)
    # histories on one long-lived instance: resolve / change / resolve (harness/c03seq.py, coq/Model/ResolveSeq.v)
    import c03seq
    c03seq.run_seq(ctx)
    # sessions of several live instances of different flavors (harness/c03multi.py, Section Sessions of ResolveSeq.v)
    import c03multi
    c03multi.run_multi(ctx)


def replay(ctx, path):
    settings(ctx)
    regen_config(ctx)
    obj = json.load(open(path))
    c = obj.get("input") or (obj.get("first_disagreement") or {}).get("case")
    if c is None:
        print("replay %s: nothing to replay (kind %s)" % (path, obj.get("kind")))
        return 1
    c = {k: v for k, v in c.items() if k not in ("readCache", "step")}
    if c.get("family") == "versions":
        compare_groups_versions(ctx, [case_to_group_v(c)], label="replay")
    elif c.get("family") == "ext":
        import c03ext
        c03ext.compare_groups(ctx, [c03ext.case_to_group(c)], label="replay")
    elif c.get("family") == "seq":
        import c03seq
        c03seq.compare_cases(ctx, [c], label="replay")
    elif c.get("family") == "multi":
        import c03multi
        c03multi.compare_cases(ctx, [c], label="replay")
    else:
        compare_groups(ctx, [case_to_group(c)], label="replay")
    bad = [f for f in ctx.failures if not ctx._known(f)] or ctx.disagreements
    print("replay %s: %s" % (path, "still fails" if bad else "passes"))
    return 1 if bad else 0


# ====================================================================== family versions
# The comparator and the matcher of C10 inside the resolver (coq/Model/ResolveReal.v, op casev of build/c03/run):
# version names drawn from the conventional grammar of harness/c10.py (1.0 1.0.1 1.0+1 1.0-rc1 1.10 1.9 v1_2 ...),
# some of them spellings of one key (1.0 / 1_0 / 1.00), a few accepted but not conventional (1a, 1.2m3), and
# relational expressions with alternatives over them.  The listing order of the version files of a product is an
# input of the model: sorted as strings for look-ups in the database files (Database.findProducts sorts), and as
# the cache reports it (ProductStack.getVersions) for look-ups through the cache.

import re as _re

import c10 as C10

V_NEIGHBOURS = ["1.0", "1.0.1", "1.0+1", "1.0-rc1", "1.0-rc2", "1.10", "1.9", "1.9.1", "2", "10", "1.1", "1.0+a1",
                "0.9", "1.0.0", "1.10-rc1", "1.10+1", "2.0", "1.0-rc1+1", "1_1", "1.01"]
V_ODD = ["1a", "1.2m3", "rel-0-8-2", "1.0a", "2b1", "1.2p1"]          # accepted by C10, not conventional
_V_GRAMMAR = None


def _v_grammar():
    global _V_GRAMMAR
    if _V_GRAMMAR is None:
        _V_GRAMMAR = C10.big_grammar()
    return _V_GRAMMAR


def respell(rng, v):
    """another spelling of the same key: the other separator, or a zero in front of a numeric component"""
    r = rng.random()
    if r < 0.5 and ("." in v or "_" in v):
        i = rng.choice([k for k, ch in enumerate(v) if ch in "._"])
        return v[:i] + ("_" if v[i] == "." else ".") + v[i + 1:]
    m = list(_re.finditer(r"\d+", v))
    k = rng.choice(m)
    return v[:k.start()] + "0" + v[k.start():]


def version_pool(rng):
    """the names one product may be declared under, in this database"""
    r = rng.random()
    pre = "v" if r < 0.12 else ""
    pool = [pre + v for v in rng.sample(V_NEIGHBOURS, rng.choice([3, 4, 5]))]
    pool += [v for v in rng.sample(_v_grammar(), 2) if (v[:1] == "v") == bool(pre)]
    if 0.12 <= r < 0.22:
        pool.append("v" + rng.choice(V_NEIGHBOURS))          # two letter prefixes in one product
    if rng.random() < 0.35:
        pool.append(respell(rng, rng.choice(pool)))          # two spellings of one key
    if rng.random() < 0.08:
        pool.append(rng.choice(V_ODD))
    out = []
    for v in pool:
        if v not in out:
            out.append(v)
    return out


def gen_db_versions(rng):
    pools = {n: version_pool(rng) for n in PRODUCTS}
    stacks = []
    for sid in STACKS:
        decl, chain = [], []
        for n in PRODUCTS:
            if rng.random() < 0.12:
                continue
            k = min(len(pools[n]), rng.choice([1, 2, 2, 3, 4]))
            for v in rng.sample(pools[n], k):                 # declaration order is random
                for f in rng.choice([[NATIVE], [NATIVE], [NATIVE], [FALLBACK], [NATIVE, FALLBACK]]):
                    decl.append([n, v, f])
            for f in (NATIVE, FALLBACK):
                mine = [d[1] for d in decl if d[0] == n and d[2] == f]
                for t in DB_TAGS:
                    p = {"current": 0.5, "stable": 0.25, "beta": 0.25, "t": 0.2}[t]
                    if mine and rng.random() < p:
                        chain.append([n, f, t, rng.choice(mine)])
        stacks.append({"id": sid, "decl": decl, "chain": chain})
    return stacks, pools


def gen_expr_versions(rng, pool):
    ops = ["<", "<=", "==", ">=", ">", ">=", "<"]

    def term():
        w = rng.choice(pool) if rng.random() < 0.8 else rng.choice(V_NEIGHBOURS)
        return rng.choice(ops) + rng.choice(["", " ", " "]) + w
    k = rng.choice([1, 1, 1, 2, 2, 3])
    return " || ".join(term() for _ in range(k))


def gen_request_versions(rng, db, pools):
    n = rng.choice(PRODUCTS)
    pool = pools[n]
    r = rng.random()
    version = expr = None
    if r < 0.08:
        form = "bare"
    elif r < 0.25:
        form = "version"
        version = rng.choice(pool + [rng.choice(V_NEIGHBOURS)])
    elif r < 0.8:
        form = "expr"
        version = gen_expr_versions(rng, pool)
    else:
        form = "version+expr"
        version = rng.choice(pool + [rng.choice(V_NEIGHBOURS), "77"])
        expr = gen_expr_versions(rng, pool)
    o = {"keep": False, "exact": rng.random() < 0.1, "inexact": rng.random() < 0.1,
         "tags": rng.choice([[], [], [], ["latest"], ["beta"], ["latest", "t"]]),
         "posttags": rng.choice([[], [], [], ["latest"], ["stable"]])}
    prev = None
    if rng.random() < 0.1:
        cands = [(s["id"], d) for s in db for d in s["decl"] if d[0] == n]
        if cands:
            sid, d = rng.choice(cands)
            prev = {"stack": sid, "version": d[1], "flavor": d[2],
                    "reason": rng.choice([None, ["latest", None], ["versionExpr", ">= " + d[1]], ["version", d[1]]])}
    return {"name": n, "version": version, "expr": expr, "form": form, "depth": rng.choice([0, 1, 1, 1]),
            "flavors": [NATIVE, FALLBACK] if rng.random() < 0.85 else [FALLBACK, FALLBACK], "prev": prev, "opts": o}


def gen_group_versions(rng, nreq):
    db, pools = gen_db_versions(rng)
    return {"db": db, "requests": [gen_request_versions(rng, db, pools) for _ in range(nreq)], "family": "versions"}


def directed_groups_versions():
    """the situations named in the task: a tie between spellings inside one stack and across two stacks, for the
    tag latest and for expressions; numeric components; pre- and post-release parts; two letter prefixes"""
    def rq(version, expr=None, tags=(), depth=1):
        return {"name": "p1", "version": version, "expr": expr, "form": "directed", "depth": depth,
                "flavors": [NATIVE, FALLBACK], "prev": None,
                "opts": {"keep": False, "exact": False, "inexact": False, "tags": list(tags), "posttags": []}}
    reqs = [rq(">= 0.9"), rq("<= 1.0"), rq("== 1.0"), rq("== 1_0"), rq("< 1.0 || == 1.00"), rq(None, tags=["latest"]),
            rq("1.0"), rq("1.0", depth=0), rq("1.00", ">= 0.9", depth=0), rq("7", "== 1.0"), rq("> 1.0")]
    tie1 = [{"id": "s1", "decl": [["p1", v, NATIVE] for v in ("1_0", "1.0", "0.9")], "chain": []},
            {"id": "s2", "decl": [["p1", v, NATIVE] for v in ("1.00", "0.5")], "chain": []}]
    tie2 = [{"id": "s1", "decl": [["p1", v, NATIVE] for v in ("1.0", "0.9")], "chain": []},
            {"id": "s2", "decl": [["p1", v, NATIVE] for v in ("1_0", "01.0", "1.0")], "chain": []}]
    reqs3 = [rq(x) for x in (">= 1.0.1", "< 1.10", "< 1.0.1", "<= 1.0", "< 1.0", "== 1.9", "> 1.10", ">= v1.0",
                             "< 1.0-rc1 || == 1.0+1", ">=1.0+1", "< v2.0")] + \
            [rq(None, tags=["latest"]), rq("3.0", ">= 1.0+1"), rq("1.0", ">= 1.0+1"), rq("1.0+1", depth=0)]
    plain = [{"id": "s1", "decl": [["p1", v, NATIVE] for v in ("1.0", "1.0+1", "1.0-rc1", "1.0.1", "1.9")],
              "chain": [["p1", NATIVE, "current", "1.0+1"]]},
             {"id": "s2", "decl": [["p1", v, NATIVE] for v in ("1.10", "1.10-rc1", "1.9", "v2.0")], "chain": []}]
    return [{"db": tie1, "requests": reqs, "family": "versions"}, {"db": tie2, "requests": reqs, "family": "versions"},
            {"db": plain, "requests": reqs3, "family": "versions"}]


# ------------------------------------------------------------------ implementation side

def _listing(eups, base, q):
    """what the cache of each stack lists for the product, per flavor (the order the look-ups through the cache meet)"""
    sys.modules["eups.db.Database"]._databases.clear()
    os.environ["EUPS_FLAVOR"] = q["flavors"][0]
    e = eups.Eups(readCache=True, quiet=1, setupType=None)
    out = {}
    for root in e.path:
        st = e.versions.get(root)
        sid = os.path.relpath(root, base)
        out[sid] = {}
        for f in set(q["flavors"]):
            try:
                out[sid][f] = list(st.getVersions(q["name"], f)) if st else None
            except Exception as ex:  # noqa
                out[sid][f] = {"err": type(ex).__name__}
    return out


def _order_facts(eups, names):
    """is hooks.version_cmp, restricted to these names, a total preorder (python's sort means something)?"""
    from eups import hooks
    c = {}
    for a in names:
        for b in names:
            try:
                x = hooks.version_cmp(a, b)
                c[(a, b)] = (x > 0) - (x < 0)
            except Exception:  # noqa
                return {"crash": True, "consistent": False}
    ok = all(c[(a, a)] == 0 for a in names) and all(c[(a, b)] == -c[(b, a)] for a in names for b in names) and \
        all(not (c[(a, b)] <= 0 and c[(b, d)] <= 0) or c[(a, d)] <= 0 for a in names for b in names for d in names)
    return {"crash": False, "consistent": ok}


def impl_groups_v(groups):
    """child: as impl_groups, plus the cache's listing and the order facts of the product's names per request"""
    eups = None
    res = []
    for g in groups:
        base = common.scratch_dir()
        try:
            _setup_environ(base)
            if eups is None:
                eups = common.import_eups()
                from eups import hooks
                for t in EXTRA_GLOBAL:
                    if t not in hooks.config.Eups.globalTags:
                        hooks.config.Eups.globalTags += [t]
                import eups.utils
                user = eups.utils.getUserName()
            sys.modules["eups.db.Database"]._databases.clear()
            _write_db(eups, base, g["db"])
            one = []
            for q in g["requests"]:
                r = {}
                for rc in (False, True):
                    sys.modules["eups.db.Database"]._databases.clear()
                    r["cache" if rc else "db"] = impl_one(eups, base, q, rc, None)
                r["listing"] = _listing(eups, base, q)
                names = sorted(set(d[1] for s in g["db"] for d in s["decl"] if d[0] == q["name"]))
                r["order"] = _order_facts(eups, names)
                one.append(r)
            res.append({"requests": one, "user": user})
        finally:
            shutil.rmtree(base, ignore_errors=True)
    return res


def run_parallel_v(groups, nproc=NPROC):
    if not groups:
        return []
    nproc = max(1, min(nproc, len(groups), (os.cpu_count() or 4)))
    slices = [groups[i::nproc] for i in range(nproc)]
    outs = common.par_map(impl_groups_v, [(sl,) for sl in slices], nproc=nproc, timeout=900)
    merged = [None] * len(groups)
    for k, r in enumerate(outs):
        if r[0] != "ok":
            raise RuntimeError("implementation child failed: %r" % (str(r)[-1500:],))
        for j, x in enumerate(r[1]):
            merged[k + j * nproc] = x
    return merged


# ------------------------------------------------------------------ listing orders for the model

def db_sorted(db):
    """Database.findProducts: the version files of one product, sorted as strings"""
    return [dict(s, decl=sorted(s["decl"], key=lambda d: d[1])) for s in db]


def db_as_listed(db, q, listing):
    """the declarations of the requested product in the order the cache lists them (per stack and flavor)"""
    out = []
    for s in db:
        lst = listing.get(s["id"]) or {}

        def key(d):
            l = lst.get(d[2])
            if d[0] != q["name"] or not isinstance(l, list) or d[1] not in l:
                return (1, 0)
            return (0, l.index(d[1]))
        out.append(dict(s, decl=sorted(s["decl"], key=key)))
    return out


# ------------------------------------------------------------------ the property's own oracle, with the key order of C10

def v_match(v, expr):
    """v satisfies  [op] w (|| [op] w)*  in the key order; None when C10's statement does not determine it: a name or
    operand outside the conventional grammar, or one of several alternatives with another letter prefix than v (the
    common-prefix condition of match_alternatives; the real matcher gives up on the whole expression at the first
    operand it cannot sort against v).  A single term with another prefix does not match (match_other_prefix)."""
    kv = C10.pykey(v)
    alts = expr.split("||")
    res = False
    for alt in alts:
        m = _re.fullmatch(r"\s*(<=|>=|==|<|>)?\s*(\S+)\s*", alt)
        if not m or kv is None or C10.pykey(m.group(2)) is None:
            return None
        op, w = m.group(1), m.group(2)
        if C10.prefix(v) != C10.prefix(w):
            if len(alts) > 1:
                return None
        elif C10.REL[op](C10.keycmp(v, w)):
            res = True
    return res


def v_highest(db, n, f, pred):
    """every (stack, version, flavor) that is a highest declared version satisfying pred: all spellings of the
    highest key, each at the first stack declaring it; None when a name is not conventional or pred undefined"""
    cands = []
    for s in db:
        for d in s["decl"]:
            if d[0] == n and d[2] == f:
                if C10.pykey(d[1]) is None:
                    return None
                ok = pred(d[1])
                if ok is None:
                    return None
                if ok and d[1] not in [c[1] for c in cands]:
                    cands.append((s["id"], d[1], f))
    if not cands:
        return []
    top = max(C10.pykey(c[1]) for c in cands)
    return [c for c in cands if C10.pykey(c[1]) == top]


def o_designates_v(db, vro, q, known_tags):
    """the designation rule with the key order of C10.  Returns a list of acceptable answers ([None] = no product),
    or the string skip when the rule as stated does not determine the case (names outside the conventional grammar;
    several spellings of the highest key at the top level against an explicitly named version)"""
    n, version, expr, depth = q["name"], q["version"] or None, q["expr"] or None, q["depth"]
    rel = version if o_is_expr(version) else None
    named = version if (version and not rel) else None
    bracket = expr if (named and o_is_expr(expr)) else None
    for f in q["flavors"]:
        i = 0
        while i < len(vro):
            e, later = vro[i], vro[i + 1:]
            i += 1
            got, fail = [], False
            vlike_later = any(x in ("version", "version!", "versionExpr") for x in later)
            if e in ("version", "version!"):
                if named:
                    x = o_named(db, n, named, f)
                    got = [x] if x else []
                    fail = not got and not vlike_later
                elif rel:
                    fail = "versionExpr" not in later
            elif e == "versionExpr":
                if rel:
                    got = v_highest(db, n, f, lambda v: v_match(v, rel))
                    if got is None:
                        return "skip"
                    fail = not got and not vlike_later
                elif named:
                    if bracket:
                        got = v_highest(db, n, f, lambda v: v_match(v, bracket))
                        if got is None:
                            return "skip"
                    if not got:
                        x = o_named(db, n, named, f)
                        got = [x] if x else []
                    fail = not got and not vlike_later
            elif e == "latest":
                got = v_highest(db, n, f, lambda v: True)
                if got is None:
                    return "skip"
            elif e in PSEUDO or e.startswith("type:") or e.startswith("warn:") or e not in known_tags:
                pass
            else:
                x = o_tagged(db, n, e, f)
                got = [x] if x else []
            if fail:
                break
            if got:
                if depth == 0 and named:
                    ok = [g for g in got if g[1] == named]
                    if len(ok) == len(got):
                        return got
                    if len(got) > 1:
                        return "skip"
                    continue                # not acceptable at the top level: resume after this entry
                return got
    return [None]


def oracle_v(ctx, case, db, q, impl, known_tags):
    if not isinstance(impl.get("vro"), list) or q["prev"] is not None:
        return
    vro = impl["pref"]
    for kind, key, qq in (("walk", "walk", dict(q, flavors=q["flavors"][:1], depth=1)), ("setup", "resolve", q)):
        r = impl.get(key, {})
        if "err" in r:
            ctx.fail(kind + "-raises", case, observed=r, what="%s raised %s" % (kind, r["err"]))
            continue
        exp = o_designates_v(db, vro, qq, known_tags)
        if exp == "skip":
            ctx.bump("versions:oracle-not-determined")
            continue
        got = triple(r["found"])
        ctx.bump("versions:oracle-evaluated")
        if got not in exp:
            ctx.fail(kind + "-designation", case, expected=exp, observed=got,
                     what="%s returned %r; in the key order of C10 the VRO %r designates %r" % (kind, got, vro, exp))


# ------------------------------------------------------------------ comparing

def to_line_v(db, q, user):
    return "casev" + to_line(db, q, user)[len("case"):]


def parse_model_v(line):
    f = line.split("\t")
    if f[0] != "ok":
        return {"driver": line}
    out = {"pref0": [dec(x) for x in f[1].split(",")] if f[1] else []}
    if f[2].startswith("err:"):
        out["vro"] = {"err": f[2][4:]}
        return out
    out["vro"] = [dec(x) for x in f[2].split(",")] if f[2] else []
    out["walk"] = {"err": f[3][4:]} if f[3].startswith("err:") else {"found": dec_found(f[3]), "reason": dec_reason(f[4])}
    out["resolve"] = {"err": f[5][4:]} if f[5].startswith("err:") else {"found": dec_found(f[5]), "reason": dec_reason(f[6])}
    out["spec_in"], out["spec"] = dec_found(f[7]), dec_found(f[8])
    out["wf"], out["domain"], out["conv"], out["names_ok"] = (x == "1" for x in f[9:13])
    out["latest"], out["latest_tie"] = dec_found(f[13]), dec_found(f[14])
    out["expr"], out["expr_tie"] = f[15], f[16]
    return out


def compare_groups_versions(ctx, groups, label="versions"):
    """real resolver against the model instantiated with C10's comparator; the model gets the declarations in the
    listing order of the look-up mode"""
    impl = run_parallel_v(groups)
    lines, index = [], []
    for gi, (g, ir) in enumerate(zip(groups, impl)):
        for qi, q in enumerate(g["requests"]):
            r = ir["requests"][qi]
            dbs = {"db": db_sorted(g["db"]), "cache": db_as_listed(g["db"], q, r["listing"])}
            if [s["decl"] for s in dbs["db"]] != [s["decl"] for s in dbs["cache"]]:
                mine = lambda d: [[x[1] for x in s["decl"] if x[0] == q["name"] and x[2] == f]
                                  for s in d for f in (NATIVE, FALLBACK)]
                if mine(dbs["db"]) != mine(dbs["cache"]):
                    ctx.bump("versions:cache-listing-differs-from-sorted")
            for mode in ("db", "cache"):
                lines.append(to_line_v(dbs[mode], q, ir["user"]))
                index.append((gi, qi, mode))
            # names that compare equal: the listing order decides, and the two look-up modes need not list alike
            fa, fb = (r[m].get("resolve", {}).get("found") for m in ("db", "cache"))
            if fa != fb and "err" not in r["db"].get("resolve", {}) and "err" not in r["cache"].get("resolve", {}):
                ctx.bump("versions:answer-through-cache-differs-from-answer-from-database-files")
    mout = [parse_model_v(l) for l in ctx.model(lines)]
    known_tags = set(["current", "stable", "latest"] + EXTRA_GLOBAL)
    for (gi, qi, mode), m in zip(index, mout):
        g, ir = groups[gi], impl[gi]
        if "driver" in m:
            raise RuntimeError("model driver: " + m["driver"])
        q = g["requests"][qi]
        r = ir["requests"][qi]
        i = r[mode]
        case = {"db": g["db"], "request": q, "family": "versions", "readCache": mode == "cache"}
        names = sorted(set(d[1] for s in g["db"] for d in s["decl"] if d[0] == q["name"]))
        tie = len(set(map(str, (C10.pykey(v) for v in names)))) < len(names) and all(C10.pykey(v) for v in names)
        shape = "%s/%s/d%d/%s" % (label, q["form"], q["depth"], mode)
        ctx.count(1, key=shape, nontrivial=json.dumps([g["db"], q, mode], sort_keys=True)
                  if isinstance(i.get("resolve"), dict) and i["resolve"].get("found") else None)
        if not isinstance(m.get("vro"), list):
            if isinstance(i.get("vro"), list):
                ctx.disagree(case, m.get("vro"), i["vro"], where="versions/selectVRO")
            continue
        if not m["domain"]:
            # a comparison the request causes raises in the model of C10: counted, the real code must raise or find nothing
            ctx.bump("real-comparator:outside-domain")
            continue
        if not r["order"]["consistent"]:
            # hooks.version_cmp is not a total preorder on the declared names (2 < 10 < 1a < 2): what python's sort
            # returns is not determined by the comparator, the model does not claim it
            ctx.bump("real-comparator:order-not-a-preorder-not-compared")
            continue
        ctx.bump("real-comparator-comparisons")
        ctx.bump("real-comparator:" + ("conventional-names" if m["conv"] else "accepted-not-conventional"))
        if m["conv"]:
            ctx.bump("real-comparator:" + ("distinct-keys (total_order_on holds)" if m["names_ok"] else
                                           "names-with-equal-keys"))
        if tie != (m["conv"] and not m["names_ok"]):
            ctx.disagree(case, {"conv": m["conv"], "names_ok": m["names_ok"]}, {"equal-keys": tie},
                         where="versions/spec: real_names_ok of the Coq side vs the harness's keys")
        mc = {"pref0": m["pref0"], "vro": m["vro"], "walk": m["walk"], "resolve": m["resolve"]}
        ic = canon_impl(i)
        if ic != mc:
            ctx.disagree(case, mc, ic, where="versions/" + mode)
        # the statements of the theorems, evaluated on the extracted definitions
        if m["conv"]:
            if triple(m["latest"]) != triple(m["latest_tie"]) or m["expr"] != m["expr_tie"]:
                ctx.disagree(case, {"latest_tie": m["latest_tie"], "expr_tie": m["expr_tie"]},
                             {"find_latest": m["latest"], "select_latest(find_by_expr)": m["expr"]},
                             where="versions/spec: tie rules differ from the extracted look-ups")
        if m["names_ok"] and m["wf"] and q["prev"] is None:
            if triple(m["spec_in"]) != triple(m["walk"].get("found")) or triple(m["spec"]) != triple(m["resolve"].get("found")):
                ctx.disagree(case, {"designates_in": m["spec_in"], "designates": m["spec"]},
                             {"walk": m["walk"], "resolve": m["resolve"]},
                             where="versions/spec: designates differs from the extracted model under real_names_ok")
        if isinstance(i.get("vro"), list):
            oracle_v(ctx, case, g["db"], q, i, known_tags)
    return impl, mout


def corpus_groups_versions():
    d = os.path.join(common.ROOT, "corpus", PID, "versions")
    out = []
    if os.path.isdir(d):
        for f in sorted(os.listdir(d)):
            if f.endswith(".json"):
                out.append(case_to_group_v(json.load(open(os.path.join(d, f)))["input"]))
    return out


def case_to_group_v(c):
    if "requests" in c:
        return dict(c, family="versions")
    return {"db": c["db"], "requests": [c["request"]], "family": "versions"}


def run_versions(ctx):
    groups = corpus_groups_versions() + directed_groups_versions()
    for _ in range(ctx.size(120, 1500)):
        groups.append(gen_group_versions(ctx.rng, ctx.size(14, 20)))
    for i in range(0, len(groups), 400):
        compare_groups_versions(ctx, groups[i:i + 400])
    tie_cache_probe(ctx)


# ------------------------------------------------------------------ a cache that was written through

def _tie_cache_child(order):
    """child: one stack, EUPS_FLAVOR = generic (no fall-back flavor, so the persisted cache is not rebuilt by every
    process); the versions of p1 declared through Eups.declare in the given order, each in a fresh Eups that reads and
    writes the cache; then latest and an expression through the database files and through the cache"""
    base = common.scratch_dir()
    try:
        _setup_environ(base)
        os.environ["EUPS_PATH"] = os.path.join(base, "s1")
        os.environ["EUPS_FLAVOR"] = FALLBACK
        eups = common.import_eups()
        os.makedirs(os.path.join(base, "s1", "ups_db"))
        os.makedirs(os.path.join(base, "ud", "ups_db"))
        for v in order:
            sys.modules["eups.db.Database"]._databases.clear()
            e = eups.Eups(readCache=True, quiet=1, setupType=None)
            pd = os.path.join(base, "s1", "prod", v)
            os.makedirs(os.path.join(pd, "ups"))
            open(os.path.join(pd, "ups", "p1.table"), "w").close()
            e.declare("p1", v, pd, tablefile=os.path.join(pd, "ups", "p1.table"))
        out = {}
        for rc in (False, True):
            sys.modules["eups.db.Database"]._databases.clear()
            e = eups.Eups(readCache=rc, quiet=1, setupType=None)
            e.selectVRO(None, None, None, None)
            r = {}
            for x in TIE_CACHE_EXPRS:
                e.alreadySetupProducts = {}
                p, _ = e.findProductFromVRO("p1", x, None, recursionDepth=1, vro=e.getPreferredTags())
                r[x] = p.version if p else None
            p = e.findTaggedProduct("p1", "latest")
            r["latest"] = p.version if p else None
            st = e.versions.get(os.path.join(base, "s1"))
            r["listing"] = list(st.getVersions("p1", FALLBACK)) if (rc and st) else sorted(order)
            out["cache" if rc else "db"] = r
        return out
    finally:
        shutil.rmtree(base, ignore_errors=True)


TIE_CACHE_EXPRS = [">= 0.9", "== 1.0", "<= 1_0"]


def tie_cache_probe(ctx):
    """names that compare equal, a cache that was written through (not rebuilt from the database files): the cache lists
    the versions in the order of declaration, the database files sorted as strings.  Each look-up mode is compared with
    the model given ITS listing; whether the two modes name the same spelling is counted, not judged (the property asks
    for the highest version, and both are)"""
    for order in (["0.9", "1_0", "1.0"], ["1.00", "1.0", "0.9", "01.0"]):
        r = common.in_child(_tie_cache_child, order, timeout=300)
        if r[0] != "ok":
            raise RuntimeError("tie/cache probe failed: %r" % (str(r)[-1500:],))
        res = r[1]
        lines, keys = [], []
        for mode in ("db", "cache"):
            db = [{"id": "s1", "decl": [["p1", v, FALLBACK] for v in res[mode]["listing"]], "chain": []}]
            for x in TIE_CACHE_EXPRS + [None]:
                q = {"name": "p1", "version": x, "expr": None, "depth": 1, "flavors": [FALLBACK, FALLBACK], "prev": None,
                     "opts": {"keep": False, "exact": False, "inexact": False, "tags": [] if x else ["latest"], "posttags": []}}
                lines.append(to_line_v(db, q, "root"))
                keys.append((mode, x or "latest"))
        for (mode, x), m in zip(keys, [parse_model_v(l) for l in ctx.model(lines)]):
            want = (m.get("walk", {}).get("found") or {}).get("version")
            got = res[mode][x]
            ctx.bump("real-comparator-comparisons")
            ctx.bump("versions:written-through-cache/" + mode)
            if want != got:
                ctx.disagree({"family": "versions", "declared-in-order": order, "mode": mode, "request": x,
                              "listing": res[mode]["listing"]}, want, got, where="versions/written-through-cache/" + mode)
        for x in TIE_CACHE_EXPRS + ["latest"]:
            if res["db"][x] != res["cache"][x]:
                ctx.bump("versions:answer-through-cache-differs-from-answer-from-database-files")
        if res["db"]["listing"] != res["cache"]["listing"]:
            ctx.bump("versions:cache-listing-differs-from-sorted")
        ctx.extra.setdefault("tie_cache_probe", []).append({"declared-in-order": order, "db": res["db"], "cache": res["cache"]})
