"""C03, extension family: user tags, an explicit --vro, LOCAL: versions / -r, tag files.

Model: coq/Model/ResolveExt.v (op casex of build/c03/run)   Theorems: the last section of coq/Props/C03.v

A case is a world (two stacks with their version records, their own chain files and the chain files of the user's tag
directory for each stack; the directories that exist; the files that VRO words may name, with their lines), the options
(-t / -T words - registered tags, user tags, file names, file:names -, --keep, --exact, --inexact, -r, --vro words) and a
request.  The word BASE in a file or directory name stands for the scratch directory of the case; the child replaces it
on the way in and on the way out.  The children run with the scratch directory as working directory, so a file called
stable there shadows the tag stable.

Implementation: Eups(vro=...), selectVRO, findProductFromVRO, Eups.setup - with readCache off and on.
Oracle: the designation rule of the property text with the three new clauses, in python on plain data.
"""
import json
import os
import shutil
import sys

import common
from common import enc

import c03 as B

USER_TAGS = ["mine", "ut2"]
FILE_NAMES = ["BASE/tf1", "BASE/tf2", "stable"]       # stable: a file in the working directory named like a tag
DIRS = ["BASE/ld1"]
VRO_WORDS = ["version", "version", "version!", "versionExpr", "versionExpr", "current", "current", "stable", "beta",
             "mine", "ut2", "latest", "warn", "warn:2", "warn:0", "type:exact", "commandLine", "path", "keep", "bogus",
             "BASE/tf1", "file:BASE/tf2", "file:BASE/none", "t"]


# ------------------------------------------------------------------ generation

def gen_user_chains(rng, stack, dangling=True):
    out = []
    for n in B.PRODUCTS:
        for f in (B.NATIVE, B.FALLBACK):
            mine = [d[1] for d in stack["decl"] if d[0] == n and d[2] == f]
            for t in USER_TAGS:
                if mine and rng.random() < 0.4:
                    out.append([n, f, t, rng.choice(mine)])
                elif dangling and rng.random() < 0.05:
                    out.append([n, f, t, rng.choice([v for v in B.VERSIONS + ["3.0"] if v not in mine])])
    return out


def gen_file(rng, db):
    lines = []
    for _ in range(rng.choice([1, 2, 3, 4])):
        r = rng.random()
        if r < 0.15:
            lines.append(rng.choice(["# a comment", "", "   ", "#p1 1.0"]))
        elif r < 0.19:
            lines.append(rng.choice(["p3", "|  lonely "]))                    # one field: TagNotRecognized
        else:
            n = rng.choice(B.PRODUCTS)
            v = rng.choice(B.VERSIONS + ["3.0"])
            lines.append(rng.choice(["", "| ", "|  | ", "\t"]) + n + rng.choice([" ", "   ", "\t"]) + v +
                         rng.choice(["", "", " extra words", "  \t"]))
    return lines


def gen_world(rng):
    db = B.gen_db(rng)
    for s in db:
        s["user"] = gen_user_chains(rng, s)
    files = {}
    for name in FILE_NAMES:
        p = 0.25 if name == "stable" else 0.7
        if rng.random() < p:
            files[name] = gen_file(rng, db)
    return {"db": db, "dirs": list(DIRS), "files": files}


def gen_words(rng, world, k):
    pool = B.CL_TAGS + USER_TAGS + USER_TAGS + ["BASE/tf1", "BASE/tf2", "file:BASE/tf1", "file:BASE/tf2", "stable"]
    return rng.sample(pool, k)


def gen_opts(rng, world):
    def pick():
        r = rng.random()
        return gen_words(rng, world, 0 if r < 0.3 else 1 if r < 0.75 else 2 if r < 0.95 else 3)
    o = {"keep": rng.random() < 0.15, "exact": rng.random() < 0.15, "inexact": rng.random() < 0.1,
         "tags": pick(), "posttags": pick(), "productdir": rng.random() < 0.12, "uservro": None}
    if rng.random() < 0.3:
        o["uservro"] = [rng.choice(VRO_WORDS) for _ in range(rng.choice([1, 2, 3, 4, 5, 6]))]
        if rng.random() < 0.85:
            o["tags"] = []
    return o


def gen_request(rng, world):
    q = B.gen_request(rng, world["db"])
    r = rng.random()
    if r < 0.12:
        q["form"] = "local"
        q["version"] = "LOCAL:" + rng.choice(["BASE/ld1", "BASE/ld1", "BASE/nodir"])
        q["expr"] = None
        if q["prev"] is not None and rng.random() < 0.5:
            q["prev"] = None
    return q


def gen_group(rng, nreq):
    w = gen_world(rng)
    reqs = []
    for _ in range(nreq):
        q = gen_request(rng, w)
        q["opts"] = gen_opts(rng, w)
        reqs.append(q)
    return dict(w, requests=reqs, family="ext")


# ------------------------------------------------------------------ model protocol

def enc_dbx(db):
    parts = []
    for s in db:
        parts.append("@".join([enc(s["id"]),
                               ",".join("~".join(enc(x) for x in d) for d in s["decl"]),
                               ",".join("~".join(enc(x) for x in c) for c in s["chain"]),
                               ",".join("~".join(enc(x) for x in c) for c in s.get("user", []))]))
    parts.append("ud@@@")
    return "|".join(parts)


def to_line(world, q, user):
    o = q["opts"]
    files = "|".join(enc(k) + "=" + ";".join((enc(l) or "%") for l in v) for k, v in sorted(world["files"].items()))
    return "\t".join([
        "casex", ",".join(enc(x) for x in B.EXTRA_GLOBAL), ",".join(enc(x) for x in [user] + USER_TAGS), "-",
        B.b(o["keep"]), B.b(o["exact"]), B.b(o["inexact"]), B.b(q["version"] is not None),
        ",".join(enc(x) for x in o["tags"]), ",".join(enc(x) for x in o["posttags"]),
        enc_dbx(world["db"]), ",".join(enc(x) for x in q["flavors"]), str(q["depth"]),
        enc(q["name"]), B.enc_opt(q["version"]), B.enc_opt(q["expr"]), B.enc_prev(q["name"], q["prev"]),
        ",".join(enc(x) for x in o["uservro"]) if o.get("uservro") else "-", B.b(o.get("productdir")),
        ",".join(enc(x) for x in world["dirs"]), files])


def _fd(s):
    return {"err": s[4:]} if s.startswith("err:") else B.dec_found(s)


def parse_model(line):
    f = line.split("\t")
    if f[0] != "ok":
        return {"driver": line}
    out = {"pref0": [B.dec(x) for x in f[1].split(",")] if f[1] else []}
    if f[2].startswith("err:"):
        out["vro"] = {"err": f[2][4:]}
        return out
    out["vro"] = [B.dec(x) for x in f[2].split(",")] if f[2] else []
    out["walk"] = {"err": f[3][4:]} if f[3].startswith("err:") else {"found": B.dec_found(f[3]), "reason": B.dec_reason(f[4])}
    out["resolve"] = {"err": f[5][4:]} if f[5].startswith("err:") else {"found": B.dec_found(f[5]), "reason": B.dec_reason(f[6])}
    out["spec_in"] = _fd(f[7])
    out["wf"] = f[8] == "1"
    out["flat_walk"] = {"found": B.dec_found(f[9]), "reason": B.dec_reason(f[10])}
    return out


# ------------------------------------------------------------------ implementation side (children)

def _sub(x, base):
    """BASE -> the scratch directory"""
    if isinstance(x, str):
        return x.replace("BASE", base)
    if isinstance(x, list):
        return [_sub(y, base) for y in x]
    return x


def _unsub(x, base):
    if isinstance(x, str):
        return x.replace(base, "BASE")
    if isinstance(x, list):
        return [_unsub(y, base) for y in x]
    if isinstance(x, dict):
        return {k: _unsub(v, base) for k, v in x.items()}
    return x


def _write_world(eups, base, world):
    import eups.db as edb
    import eups.utils
    from eups.db.ChainFile import ChainFile
    from eups.tags import Tag
    B._write_db(eups, base, world["db"])
    ud = os.path.join(base, "ud")
    for s in world["db"]:
        root = os.path.join(base, s["id"])
        utr = eups.utils.userStackCacheFor(root, ud)
        dbo = edb.Database(os.path.join(root, "ups_db"), userTagRoot=utr)
        for n, f, t, v in s.get("user", []):
            if [n, v, f] in s["decl"]:
                dbo.assignTag(Tag("user:" + t), n, v, [f])
            else:
                pdir = os.path.join(utr, n)
                os.makedirs(pdir, exist_ok=True)
                cf = ChainFile(os.path.join(pdir, t + ".chain"), n, t)
                cf.setVersion(v, [f])
                cf.write()
    for d in world["dirs"]:
        os.makedirs(_sub(d, base), exist_ok=True)
    for name, lines in world["files"].items():
        with open(os.path.join(base, _sub(name, base)), "w") as fd:
            fd.write("".join(l + "\n" for l in lines))


def _mk_eups(eups, base, q, readCache, flavor):
    o = q["opts"]
    os.environ["EUPS_FLAVOR"] = flavor
    vro = " ".join(_sub(o["uservro"], base)) if o.get("uservro") else {}
    e = eups.Eups(readCache=readCache, quiet=1, keep=o["keep"], exact_version=o["exact"] or None, setupType=None, vro=vro)
    pref0 = list(e.getPreferredTags())
    e.selectVRO(_sub(o["tags"], base) or None, _sub("BASE/ld1", base) if o.get("productdir") else None,
                _sub(q["version"], base), None, inexact_version=o["inexact"], postTag=_sub(o["posttags"], base) or None)
    return e, pref0


def _found(base, p):
    if p is None:
        return None
    return {"stack": B._stack_of(base, p) or "", "name": p.name, "version": p.version, "flavor": p.flavor or ""}


def impl_one(eups, base, q, readCache):
    dbmod = sys.modules["eups.db.Database"]
    out = {}
    try:
        e, pref0 = _mk_eups(eups, base, q, readCache, q["flavors"][0])
    except Exception as ex:  # noqa
        return {"pref0": None, "vro": {"err": type(ex).__name__}}
    out["pref0"] = pref0
    out["vro"] = list(e.getVRO())
    out["pref"] = list(e.getPreferredTags())
    out["path"] = [os.path.relpath(p, base) for p in e.path]
    version = _sub(q["version"], base)
    B._install_prev(eups, base, e, q)
    try:
        p, r = e.findProductFromVRO(q["name"], version, q["expr"], flavor=q["flavors"][0],
                                    recursionDepth=q["depth"], vro=e.getPreferredTags())
        out["walk"] = {"found": _found(base, p), "reason": list(r) if r else None}
    except Exception as ex:  # noqa
        out["walk"] = {"err": type(ex).__name__, "msg": str(ex)[:200]}
    if q["form"] != "local":
        dbmod._databases.clear()
        keepenv = dict(os.environ)
        e, _ = _mk_eups(eups, base, q, readCache, q["flavors"][0])
        B._install_prev(eups, base, e, q)
        try:
            res = e.setup(q["name"], version, recursionDepth=q["depth"], versionExpr=q["expr"])
            if res[0]:
                prod, reason = e.alreadySetupProducts[q["name"]]
                out["resolve"] = {"found": _found(base, prod), "reason": list(reason) if reason else None}
            else:
                out["resolve"] = {"found": None, "reason": None}
        except Exception as ex:  # noqa
            out["resolve"] = {"err": type(ex).__name__, "msg": str(ex)[:200]}
        os.environ.clear()
        os.environ.update(keepenv)
    return _unsub(out, base)


def impl_groups(groups):
    devnull = os.open(os.devnull, os.O_WRONLY)
    os.dup2(devnull, 2)
    sys.stderr = open(os.devnull, "w")
    eups = None
    res = []
    cwd = os.getcwd()
    for g in groups:
        base = common.scratch_dir()
        try:
            B._setup_environ(base)
            if eups is None:
                eups = common.import_eups()
                from eups import hooks
                for t in B.EXTRA_GLOBAL:
                    if t not in hooks.config.Eups.globalTags:
                        hooks.config.Eups.globalTags += [t]
                for t in USER_TAGS:
                    if t not in hooks.config.Eups.userTags:
                        hooks.config.Eups.userTags += [t]
                import eups.utils
                user = eups.utils.getUserName()
            sys.modules["eups.db.Database"]._databases.clear()
            _write_world(eups, base, g)
            os.chdir(base)
            one = []
            for q in g["requests"]:
                r = {}
                for rc in (False, True):
                    sys.modules["eups.db.Database"]._databases.clear()
                    r["cache" if rc else "db"] = impl_one(eups, base, q, rc)
                one.append(r)
            res.append({"requests": one, "user": user})
        finally:
            os.chdir(cwd)
            shutil.rmtree(base, ignore_errors=True)
    return res


def run_parallel(groups, nproc=B.NPROC):
    if not groups:
        return []
    nproc = max(1, min(nproc, len(groups), (os.cpu_count() or 4)))
    slices = [groups[i::nproc] for i in range(nproc)]
    outs = common.par_map(impl_groups, [(sl,) for sl in slices], nproc=nproc, timeout=900)
    merged = [None] * len(groups)
    for k, r in enumerate(outs):
        if r[0] != "ok":
            raise RuntimeError("implementation child failed: %r" % (str(r)[-1500:],))
        for j, x in enumerate(r[1]):
            merged[k + j * nproc] = x
    return merged


# ------------------------------------------------------------------ the property's own oracle, with the new clauses

def o_file_version(lines, n):
    """the version a tag file lists for product n: the first line  n version ...  (leading bars and blanks dropped,
    empty lines and comments passed over); the string raise when a line before it has fewer than two fields"""
    for l in lines:
        l = l.lstrip("| \t\n\r\x0b\x0c").rstrip()
        if not l or l.startswith("#"):
            continue
        fields = l.split()
        if len(fields) < 2:
            return "raise"
        if fields[0] == n:
            return fields[1]
    return None


def o_tagged_x(db, n, t, f, user_tags):
    """a tag entry: the first stack in which the tag names a version whose record exists.  A user tag lives in the
    user's tag directory for the stack, unless the stack itself holds a chain file of that name for the product"""
    for s in db:
        own = [c for c in s["chain"] if c[0] == n and c[2] == t]
        src = own if own else ([c for c in s.get("user", []) if c[0] == n and c[2] == t] if t in user_tags else [])
        for c in src:
            if c[1] == f:
                if B.o_declared(s, n, c[3], f):
                    return (s["id"], c[3], f)
                break
    return None


def o_designates_x(world, vro, q, known_tags, user_tags):
    """("found", triple-or-None) or ("raise",): what the VRO designates for a product not chosen before"""
    db, files, dirs = world["db"], world["files"], world["dirs"]
    n, version, expr, depth = q["name"], q["version"] or None, q["expr"] or None, q["depth"]
    rel = version if B.o_is_expr(version) else None
    named = version if (version and not rel) else None
    bracket = expr if (named and B.o_is_expr(expr)) else None

    def o_named(v, f):
        got = B.o_named(db, n, v, f)
        if got is None and v.startswith("LOCAL:") and v[6:] in dirs:
            got = ("", v, "")
        return got
    for f in q["flavors"]:
        i = 0
        while i < len(vro):
            e, later = vro[i], vro[i + 1:]
            i += 1
            got, fail = None, False
            vlike_later = any(x in ("version", "version!", "versionExpr") for x in later)
            if e == "path" or (e == "keep" and depth > 0) or e == "commandLine" or e.startswith("warn:"):
                pass
            elif e in ("version", "version!"):
                if named:
                    got = o_named(named, f)
                    fail = got is None and not vlike_later
                elif rel:
                    fail = "versionExpr" not in later
            elif e == "versionExpr":
                if rel:
                    got = B.o_highest(db, n, f, lambda v: B.o_match(v, rel))
                    fail = got is None and not vlike_later
                elif named:
                    if bracket:
                        got = B.o_highest(db, n, f, lambda v: B.o_match(v, bracket))
                    if got is None:
                        got = o_named(named, f)
                    fail = got is None and not vlike_later
            elif e in files:
                v = o_file_version(files[e], n)
                if v == "raise":
                    return ("raise",)
                if v is not None:
                    got = B.o_named(db, n, v, f)
                    if got is None:
                        return ("raise",)           # the file names a version that is not there: an error, no fall through
            elif e == "latest":
                got = B.o_highest(db, n, f, lambda v: True)
            elif e in B.PSEUDO or e.startswith("type:") or e not in known_tags:
                pass
            else:
                got = o_tagged_x(db, n, e, f, user_tags)
            if fail:
                break
            if got is not None:
                if depth == 0 and named and got[1] != named:
                    continue
                return ("found", got)
    return ("found", None)


def check_vro_shape(ctx, case, vro, o, known, files):
    """-t words come before every version-like entry, -T words after every version-like entry (an explicit --vro takes
    no -t).  A word that is neither a registered tag nor an existing file is no tag at all; when the command carries
    such a word, Eups._kindlySetPreferredTags keeps the registered words only (the command line of eups refuses such a
    command before it gets there), so presence is demanded only of commands whose every word is supported"""
    vl = [i for i, x in enumerate(vro) if x in ("version", "version!", "versionExpr")]
    if not vl:
        return
    strip = lambda t: t[5:] if t.startswith("file:") else t

    def supported(t):
        return strip(t) in files or (not t.startswith("file:") and t.split(":")[0] in (known | B.PSEUDO))
    all_ok = all(supported(t) for t in o["tags"] + o["posttags"] + (o.get("uservro") or []))
    for t in map(strip, o["tags"]):
        if t not in known and t not in files:
            continue
        if (t not in vro and all_ok) or (t in vro and vro.index(t) > min(vl)):
            ctx.fail("pretag-position", case, expected="%s before version" % t, observed=vro,
                     what="-t word %s is not placed before the version entries" % t)
    for t in map(strip, o["posttags"]):
        if t not in known and t not in files:
            continue
        if t in map(strip, o["tags"]) or (o.get("uservro") and t in map(strip, o["uservro"])):
            continue
        if (t not in vro and all_ok) or (t in vro and vro.index(t) < max(vl)):
            ctx.fail("posttag-position", case, expected="%s after versionExpr" % t, observed=vro,
                     what="-T word %s is not placed after the version entries" % t)


def oracle(ctx, case, world, q, impl, known_tags):
    if not isinstance(impl.get("vro"), list):
        return
    vro = impl["pref"]
    check_vro_shape(ctx, case, vro, q["opts"], known_tags, world["files"])
    if q["prev"] is not None:
        return
    for kind, key, qq in (("walk", "walk", dict(q, flavors=q["flavors"][:1], depth=1)), ("setup", "resolve", q)):
        r = impl.get(key)
        if r is None:
            continue
        exp = o_designates_x(world, vro, qq, known_tags, USER_TAGS)
        if "err" in r:
            if exp != ("raise",):
                ctx.fail(kind + "-raises", case, expected=exp, observed=r, what="%s raised %s" % (kind, r["err"]))
            continue
        got = B.triple(r["found"])
        if exp == ("raise",):
            ctx.fail(kind + "-falls-through-tagfile", case, expected="an error", observed=got,
                     what="a tag file names a version that no stack declares (or has a malformed line); %s went on to %r"
                          % (kind, got))
        elif got != exp[1]:
            ctx.fail(kind + "-designation", case, expected=exp[1], observed=got,
                     what="%s returned %r, the VRO %r designates %r" % (kind, got, vro, exp[1]))
    r = impl.get("resolve")
    if r and "err" not in r and r["found"] is not None:
        named = q["version"] if (q["version"] and not B.o_is_expr(q["version"])) else None
        if named and q["depth"] == 0 and r["found"]["version"] != named:
            ctx.fail("toplevel-version", case, expected=named, observed=B.triple(r["found"]),
                     what="a top-level request for an explicit version set up another version")
        vl = [k for k, x in enumerate(vro) if x in ("version", "version!", "versionExpr")]
        # the clause is about the VROs the configuration produces (the property's quantifier); with an explicit
        # --vro the user decides which entries exist (a VRO without a version entry cannot honour a named version),
        # and the designation rule above already judges the answer entry by entry
        if q["version"] and r["reason"] and vl and r["reason"][0] in vro and vro.index(r["reason"][0]) > max(vl) and \
                r["reason"][0] not in ("commandLine", "keep") and not q["opts"].get("uservro"):
            ctx.fail("falls-through", case, expected=None, observed=[B.triple(r["found"]), r["reason"]],
                     what="a request naming a version or expression fell through to the later entry %s" % r["reason"][0])


# ------------------------------------------------------------------ comparing

def canon_impl(i):
    if not isinstance(i.get("vro"), list):
        return {"vro": {"err": "Crash"}}
    out = {"pref0": i.get("pref0"), "vro": i["vro"]}
    for k in ("walk", "resolve"):
        x = i.get(k)
        if x is not None:
            out[k] = {"err": "Crash"} if "err" in x else {"found": x["found"], "reason": x["reason"]}
    return out


def constructs(world, q, vro):
    """which of the new constructs a case exercises (for the histogram)"""
    o = q["opts"]
    out = []
    words = set(vro or []) | set(o["tags"]) | set(o["posttags"])
    if o.get("uservro"):
        out.append("vro")
    if any(w in USER_TAGS for w in words):
        out.append("usertag")
    if any((w[5:] if w.startswith("file:") else w) in world["files"] for w in words):
        out.append("tagfile")
    if q["form"] == "local":
        out.append("local")
    if o.get("productdir"):
        out.append("r")
    return "+".join(out) or "plain"


def compare_groups(ctx, groups, label="ext"):
    impl = run_parallel(groups)
    lines, index = [], []
    for gi, (g, ir) in enumerate(zip(groups, impl)):
        for qi, q in enumerate(g["requests"]):
            lines.append(to_line(g, q, ir["user"]))
            index.append((gi, qi))
    mout = [parse_model(l) for l in ctx.model(lines)]
    known_tags = set(["current", "stable", "latest"] + B.EXTRA_GLOBAL + USER_TAGS)
    for (gi, qi), m in zip(index, mout):
        g, ir = groups[gi], impl[gi]
        if "driver" in m:
            raise RuntimeError("model driver: " + m["driver"])
        q = g["requests"][qi]
        world = {"db": g["db"], "dirs": g["dirs"], "files": g["files"]}
        case = dict(world, request=q, family="ext")
        undefined = any(isinstance(m.get(k), dict) and m[k].get("err") == "Undefined" for k in ("walk", "resolve"))
        found_any = False
        for mode in ("db", "cache"):
            i = ir["requests"][qi][mode]
            c = dict(case, readCache=(mode == "cache"))
            if undefined:
                ctx.bump("ext:outside-the-model")
                continue
            ic = canon_impl(i)
            mc = {"vro": m["vro"]} if not isinstance(m.get("vro"), list) else \
                {k: m[k] for k in ("pref0", "vro", "walk", "resolve") if k in ic}
            if ic != mc:
                ctx.disagree(c, mc, ic, where="ext/" + mode)
            if isinstance(i.get("vro"), list):
                if i["vro"] != i["pref"]:
                    ctx.disagree(c, i["pref"], i["vro"], where="ext: getVRO() differs from getPreferredTags()")
                if i["path"] != B.STACKS + ["ud"]:
                    raise RuntimeError("unexpected Eups.path %r" % (i["path"],))
                oracle(ctx, c, world, q, i, known_tags)
                found_any = found_any or bool((i.get("walk") or {}).get("found"))
        vro = m["vro"] if isinstance(m.get("vro"), list) else None
        key = "%s/%s/%s/d%d%s" % (label, constructs(world, q, vro), q["form"], q["depth"], "/prev" if q["prev"] else "")
        ctx.count(2, key=key + ("/found" if found_any else "/none"),
                  nontrivial=json.dumps([world, q], sort_keys=True) if found_any else None)
        for x in constructs(world, q, vro).split("+"):
            ctx.bump("ext:" + x)
        # the statements of the theorems on the extracted definitions
        if vro is not None and not undefined and q["prev"] is None and m["wf"] and "keep" not in g["files"]:
            w = m["walk"]
            a = {"err": w["err"]} if "err" in w else B.triple(w["found"])
            s = m["spec_in"]
            bb = {"err": s["err"]} if isinstance(s, dict) and "err" in s else B.triple(s)
            if a != bb and not (q["version"] and q["version"].startswith("LOCAL:") and B.o_is_expr(q["version"])):
                ctx.disagree(case, {"designates_in_x": m["spec_in"]}, {"find_from_vro_x": w},
                             where="ext/spec: designates_in_x differs from the extracted walk")
        if vro is not None and not undefined and not g["files"] and q["form"] != "local" and "err" not in m["walk"]:
            if m["walk"] != m["flat_walk"]:
                ctx.disagree(case, m["flat_walk"], m["walk"], where="ext/spec: the walk over the flattened stacks differs")
    return impl, mout


# ------------------------------------------------------------------ directed cases

def directed_groups():
    N, F = B.NATIVE, B.FALLBACK

    def rq(version=None, expr=None, tags=(), post=(), depth=1, name="p1", uservro=None, exact=False, keep=False,
           productdir=False, form="directed"):
        return {"name": name, "version": version, "expr": expr, "form": form, "depth": depth, "flavors": [N, F],
                "prev": None, "opts": {"keep": keep, "exact": exact, "inexact": False, "tags": list(tags),
                                       "posttags": list(post), "productdir": productdir, "uservro": uservro}}
    db = [{"id": "s1", "decl": [["p1", "1.0", N], ["p1", "2.0", N], ["p2", "1.0", N]],
           "chain": [["p1", N, "current", "2.0"]], "user": [["p1", N, "ut2", "1.0"], ["p1", N, "mine", "3.0"]]},
          {"id": "s2", "decl": [["p1", "1.0", N], ["p1", "1.1", N], ["p1", "10.0", F]],
           "chain": [["p1", N, "current", "1.0"], ["p1", N, "beta", "1.1"]],
           "user": [["p1", N, "mine", "1.1"], ["p1", N, "ut2", "1.1"], ["p1", F, "mine", "10.0"]]}]
    files = {"BASE/tf1": ["# versions for the release", "| p2 1.0", "  p1   1.1  and more"],
             "BASE/tf2": ["p1 7.7"], "BASE/tf3": ["p2 1.0", "lonely", "p1 1.0"]}
    reqs = [
        rq(tags=["mine"]), rq(tags=["ut2"]), rq(post=["mine"]), rq("1.0", tags=["mine"]), rq("1.0", post=["mine"]),
        rq("1.0", tags=["mine"], depth=0), rq("5.0", post=["mine"]), rq(tags=["mine"], exact=True), rq(exact=True),
        rq(">= 1.0", tags=["ut2"]), rq(tags=["ut2", "mine"]), rq(tags=["mine", "ut2"]),
        rq(uservro=["mine", "version", "versionExpr", "current"]), rq("2.0", uservro=["mine", "version", "versionExpr", "current"]),
        rq("2.0", uservro=["version!", "mine", "current"]), rq("5.0", uservro=["version!", "mine", "current"]),
        rq(uservro=["mine", "current"], post=["beta"]), rq(uservro=["version!", "mine", "current", "warn", "version", "warn:3"], post=["beta"]),
        rq(uservro=["mine", "current"], tags=["beta"]), rq(uservro=["mine", "current", "type:exact"], keep=True, exact=True),
        rq(uservro=["bogus", "current", "type:exact", "warn:2"]), rq(uservro=["bogus"]),
        rq(uservro=["commandLine", "path", "versionExpr", "latest"], version=">= 1.1"),
        rq(uservro=["current", "current", "warn", "warn:0", "stable"]),
        rq(tags=["BASE/tf1"]), rq(tags=["file:BASE/tf1"]), rq("1.0", tags=["BASE/tf1"]), rq("1.0", tags=["BASE/tf1"], depth=0),
        rq(tags=["BASE/tf2"]), rq(post=["BASE/tf2"]), rq("1.0", post=["BASE/tf2"]), rq(tags=["BASE/tf1"], name="p3"),
        rq(tags=["BASE/tf3"]), rq(tags=["BASE/tf3"], name="p2"), rq(tags=["BASE/tf1"], exact=True),
        rq(tags=["file:BASE/none"]), rq(uservro=["BASE/tf1", "current"]), rq(uservro=["file:BASE/tf1", "bogus", "current"]),
        rq("LOCAL:BASE/ld1", form="local"), rq("LOCAL:BASE/ld1", depth=0, form="local"), rq("LOCAL:BASE/nodir", form="local"),
        rq("LOCAL:BASE/ld1", tags=["mine"], form="local"), rq("LOCAL:BASE/ld1", uservro=["version!", "current"], form="local"),
        rq(productdir=True), rq("1.0", productdir=True), rq(productdir=True, tags=["mine"]),
    ]
    shadow = dict(files, stable=["p1 1.1"])
    db2 = [dict(db[0], chain=db[0]["chain"] + [["p1", N, "stable", "2.0"]]), db[1]]
    reqs2 = [rq(tags=["stable"]), rq(post=["stable"]), rq(uservro=["stable", "current"]), rq("1.0", tags=["stable"])]
    return [{"db": db, "dirs": ["BASE/ld1"], "files": files, "requests": reqs, "family": "ext"},
            {"db": db2, "dirs": [], "files": shadow, "requests": reqs2, "family": "ext"},
            {"db": db2, "dirs": [], "files": {}, "requests": reqs2 + reqs[:12], "family": "ext"}]


def corpus_groups():
    d = os.path.join(common.ROOT, "corpus", B.PID, "ext")
    out = []
    if os.path.isdir(d):
        for f in sorted(os.listdir(d)):
            if f.endswith(".json"):
                out.append(case_to_group(json.load(open(os.path.join(d, f)))["input"]))
    return out


def case_to_group(c):
    if "requests" in c:
        return dict(c, family="ext")
    return {"db": c["db"], "dirs": c.get("dirs", []), "files": c.get("files", {}), "requests": [c["request"]],
            "family": "ext"}


def run_ext(ctx):
    groups = corpus_groups() + directed_groups()
    for _ in range(ctx.size(120, 1500)):
        groups.append(gen_group(ctx.rng, ctx.size(14, 20)))
    for i in range(0, len(groups), 400):
        compare_groups(ctx, groups[i:i + 400])
