"""C03, family multi: sessions with SEVERAL live Eups instances of different flavors in one process.

Model: coq/Model/ResolveSeq.v, Section Sessions (run_session)   Theorems: the last section of coq/Props/C03.v
       (instances_do_not_interfere, session_answer_is_own, foreign_flavor_never_chosen, session_setup_stays_in_own_flavors)

The property: the product chosen is the one the VRO designates, "a native-flavor declaration is preferred over a
fallback flavor" - the candidates are the declarations for the instance's own flavor, then for the configured
fallbacks of that flavor (default configuration: generic), and nothing else.  A process may hold several Eups objects,
each for its own flavor (Eups(flavor=...): a look at another platform next to the native one).  A case is a database
whose products are declared for Linux64 / DarwinX86 / Linux / generic, two or three instances (flavor, -t / -T
options) and a session of events
    build k   instance k is constructed (constructor, then selectVRO, as the command line does)
    ask k     a question put to instance k: findProductFromVRO (through the cache of the instance and with
              noCache=True), findTaggedProduct for every registered tag, findProduct of a named version, the flavors
              the instance searches (utils.Flavor.getFallbackFlavors(instance.flavor, includeMe=True)), and a real
              Eups.setup through the instance (the product recorded)
The instances are built in every order and each is asked before and after the others exist.  The session is run with
instances that use the product cache and with instances that do not.  Every answer is compared with
  - the property's oracle (harness/c03.py: o_walk, o_designates, o_tagged, o_named, o_highest) for the flavor list of
    the ASKED instance: [its flavor, generic];
  - the extracted model (op caseq without changes) given the view and that instance's own flavor list and options:
    by instances_do_not_interfere that is run_session's answer.
"""
import json
import os
import shutil
import sys

import common

import c03 as B
import c03seq as S

FLAVORS = ["Linux64", "DarwinX86", "Linux"]          # flavors an instance may be built for
ALL_FLAVORS = FLAVORS + [B.FALLBACK]


# ------------------------------------------------------------------ generation

def gen_db(rng, names, missing):
    """two stacks; every version declared for a non-empty set of flavors; chain entries per (product, flavor, tag)
    that name declared versions; missing = (product, flavor) pairs that have no declaration anywhere"""
    stacks = []
    for sid in B.STACKS:
        decl, chain = [], []
        for n in names:
            if rng.random() < 0.12:
                continue
            k = rng.choice([1, 1, 2, 2, 3])
            for v in sorted(rng.sample(B.VERSIONS, k), key=B.VERSIONS.index):
                fl = [f for f in FLAVORS if rng.random() < 0.4] + ([B.FALLBACK] if rng.random() < 0.55 else [])
                if not fl:
                    fl = [rng.choice(ALL_FLAVORS)]
                for f in fl:
                    if (n, f) not in missing:
                        decl.append([n, v, f])
            for f in ALL_FLAVORS:
                mine = [d[1] for d in decl if d[0] == n and d[2] == f]
                for t in B.DB_TAGS:
                    p = {"current": 0.65, "stable": 0.3, "beta": 0.3, "t": 0.2}[t]
                    if mine and rng.random() < p:
                        chain.append([n, f, t, rng.choice(mine)])
        stacks.append({"id": sid, "decl": decl, "chain": chain})
    return stacks


def gen_ask(rng, k, n, other):
    a = S.gen_ask(rng, n, other)["ask"]
    a["k"] = k
    a["setup"] = rng.random() < 0.6
    a["depth"] = rng.choice([0, 1, 1])
    return {"ask": a}


def gen_opts(rng):
    o = B.gen_opts(rng)
    o["keep"] = False
    if rng.random() < 0.5:
        o["exact"] = o["inexact"] = False
    return o


def gen_case(rng):
    n = rng.choice(B.PRODUCTS)
    other = rng.choice([p for p in B.PRODUCTS if p != n] + [None])
    ninst = rng.choice([2, 2, 3])
    if rng.random() < 0.85:
        flavors = rng.sample(FLAVORS, ninst)
    else:
        flavors = [rng.choice(FLAVORS) for _ in range(ninst)]
    insts = [{"flavor": f, "opts": gen_opts(rng)} for f in flavors]
    missing = set()
    if rng.random() < 0.6:
        # the product is not declared for the flavor of one of the instances: that instance falls back
        missing.add((n, rng.choice(flavors)))
    db = gen_db(rng, [n] + ([other] if other else []), missing)
    order = list(range(ninst))
    rng.shuffle(order)
    events, built = [], []
    for k in order:
        events.append({"build": k})
        built.append(k)
        for j in built:
            if j == k or rng.random() < 0.75:
                events.append(gen_ask(rng, j, n, other))
    for j in rng.sample(built, len(built)):
        if rng.random() < 0.8:
            events.append(gen_ask(rng, j, n, other))
    return {"family": "multi", "kind": "random", "db": db, "instances": insts, "events": events}


def directed_cases():
    def o(tags=(), post=()):
        return {"keep": False, "exact": False, "inexact": False, "tags": list(tags), "posttags": list(post)}

    def ask(k, version=None, expr=None, depth=1):
        return {"ask": {"k": k, "name": "p1", "version": version, "expr": expr, "form": "directed", "setup": True,
                        "depth": depth}}
    L, D, X, G = "Linux64", "DarwinX86", "Linux", B.FALLBACK
    # a declaration for one platform only in the first stack, the generic one in the second
    db1 = [{"id": "s1", "decl": [["p1", "2.0", D]], "chain": [["p1", D, "current", "2.0"]]},
           {"id": "s2", "decl": [["p1", "1.0", G]], "chain": [["p1", G, "current", "1.0"]]}]
    # every platform has its own, generic has another, one stack
    db2 = [{"id": "s1", "decl": [["p1", "1.0", L], ["p1", "1.1", D], ["p1", "2.0", X], ["p1", "10.0", G]],
            "chain": [["p1", L, "current", "1.0"], ["p1", D, "current", "1.1"], ["p1", X, "beta", "2.0"],
                      ["p1", G, "current", "10.0"], ["p1", G, "beta", "10.0"]]},
           {"id": "s2", "decl": [["p1", "1.1", L], ["p1", "2.0", G]], "chain": [["p1", L, "beta", "1.1"]]}]
    # nothing for generic: an instance without a declaration of its own finds nothing
    db3 = [{"id": "s1", "decl": [["p1", "1.0", L]], "chain": [["p1", L, "current", "1.0"]]},
           {"id": "s2", "decl": [["p1", "2.0", D]], "chain": [["p1", D, "current", "2.0"]]}]
    out = []
    for db in (db1, db2, db3):
        for fl in ([L, D], [D, L], [L, D, X], [X, L, D], [L, L, D]):
            for opts in (o(), o(["beta"]), o((), ["beta"])):
                insts = [{"flavor": f, "opts": opts} for f in fl]
                n = len(fl)
                ev = []
                for k in range(n):
                    ev.append({"build": k})
                    for j in range(k + 1):
                        ev.append(ask(j))
                ev += [ask(0, ">= 1.0"), ask(n - 1, "2.0", depth=0), ask(0, "1.0")]
                out.append({"family": "multi", "kind": "directed", "db": db, "instances": insts, "events": ev})
                # every instance exists before the first question
                ev = [{"build": k} for k in reversed(range(n))] + [ask(k) for k in range(n)] + \
                     [ask(k) for k in reversed(range(n))]
                out.append({"family": "multi", "kind": "directed", "db": db, "instances": insts, "events": ev})
    return out


# ------------------------------------------------------------------ implementation side (children)

def flavors_of(inst):
    """what the property lets an instance look at: its own flavor, then the configured fallback (generic)"""
    return [inst["flavor"], B.FALLBACK]


def _q(case, a):
    inst = case["instances"][a["k"]]
    return {"name": a["name"], "version": a["version"], "expr": a["expr"], "form": a["form"], "depth": a["depth"],
            "flavors": flavors_of(inst), "prev": None, "opts": inst["opts"]}


def _mk(eups, inst, readCache):
    o = inst["opts"]
    e = eups.Eups(flavor=inst["flavor"], readCache=readCache, quiet=1, keep=o["keep"],
                  exact_version=o["exact"] or None, setupType=None)
    e.selectVRO(o["tags"] or None, None, None, None, inexact_version=o["inexact"], postTag=o["posttags"] or None)
    return e


def impl_session(eups, base, case, readCache):
    import eups.utils
    live = {}
    out = {"steps": []}
    for ev in case["events"]:
        if "build" in ev:
            k = ev["build"]
            try:
                live[k] = _mk(eups, case["instances"][k], readCache)
                out["steps"].append({"built": True, "vro": list(live[k].getVRO()),
                                     "pref": list(live[k].getPreferredTags())})
            except Exception as ex:  # noqa
                out["steps"].append({"err": type(ex).__name__})
            continue
        a = ev["ask"]
        e = live.get(a["k"])
        if e is None:
            out["steps"].append({"skipped": True})
            continue
        q = _q(case, a)
        fl = case["instances"][a["k"]]["flavor"]
        obs = {"flavor": e.flavor, "pref": list(e.getPreferredTags())}
        obs["flavors"] = list(eups.utils.Flavor().getFallbackFlavors(e.flavor, includeMe=True))
        e.alreadySetupProducts = {}
        for how, kw in (("walk", {}), ("walk_nocache", {"noCache": True})):
            try:
                p, r = e.findProductFromVRO(q["name"], q["version"], q["expr"], flavor=fl, recursionDepth=q["depth"],
                                            vro=e.getPreferredTags(), **kw)
                obs[how] = {"found": B._found(base, p), "reason": list(r) if r else None}
            except Exception as ex:  # noqa
                obs[how] = {"err": type(ex).__name__}
        obs["tagged"] = {}
        for t in S.TAGS:
            try:
                obs["tagged"][t] = {"found": B._found(base, e.findTaggedProduct(q["name"], t))}
            except Exception as ex:  # noqa
                obs["tagged"][t] = {"err": type(ex).__name__}
        if q["version"] and not B.o_is_expr(q["version"]):
            try:
                obs["version"] = {"found": B._found(base, e.findProduct(q["name"], q["version"]))}
            except Exception as ex:  # noqa
                obs["version"] = {"err": type(ex).__name__}
        if a["setup"]:
            keepenv = dict(os.environ)
            e.alreadySetupProducts = {}
            if q["depth"] > 0 and isinstance(getattr(e, "_msgs", None), dict):
                # a setup at depth 1 is in reality reached from a top-level setup, which opens this table of messages
                # already shown and removes it when it is done
                e._msgs.setdefault("setup", {})
            try:
                res = e.setup(q["name"], q["version"], recursionDepth=q["depth"], versionExpr=q["expr"])
                if res[0]:
                    prod, reason = e.alreadySetupProducts[q["name"]]
                    obs["resolve"] = {"found": B._found(base, prod), "reason": list(reason) if reason else None}
                    obs["setup_var"] = os.environ.get("SETUP_" + q["name"].upper())
                else:
                    obs["resolve"] = {"found": None, "reason": None}
            except Exception as ex:  # noqa
                obs["resolve"] = {"err": type(ex).__name__}
            os.environ.clear()
            os.environ.update(keepenv)
            e.alreadySetupProducts = {}
        out["steps"].append(obs)
    out["view"] = S.read_view(base)
    return out


def impl_cases(cases):
    devnull = os.open(os.devnull, os.O_WRONLY)
    os.dup2(devnull, 2)
    os.dup2(devnull, 1)
    sys.stderr = open(os.devnull, "w")
    sys.stdout = open(os.devnull, "w")
    eups = None
    res = []
    for c in cases:
        r = {}
        for rc in (True, False):
            base = common.scratch_dir()
            try:
                B._setup_environ(base)
                if eups is None:
                    eups = common.import_eups()
                    from eups import hooks
                    for t in B.EXTRA_GLOBAL:
                        if t not in hooks.config.Eups.globalTags:
                            hooks.config.Eups.globalTags += [t]
                    import eups.utils
                    user = eups.utils.getUserName()
                sys.modules["eups.db.Database"]._databases.clear()
                B._write_db(eups, base, c["db"])
                sys.modules["eups.db.Database"]._databases.clear()
                try:
                    r["cache" if rc else "db"] = impl_session(eups, base, c, rc)
                except Exception as ex:  # noqa
                    r["cache" if rc else "db"] = {"err": type(ex).__name__}
            finally:
                shutil.rmtree(base, ignore_errors=True)
        r["user"] = user
        res.append(r)
    return res


def run_parallel(cases, nproc=B.NPROC):
    if not cases:
        return []
    nproc = max(1, min(nproc, len(cases), (os.cpu_count() or 4)))
    slices = [cases[i::nproc] for i in range(nproc)]
    outs = common.par_map(impl_cases, [(sl,) for sl in slices], nproc=nproc, timeout=900)
    merged = [None] * len(cases)
    for k, r in enumerate(outs):
        if r[0] != "ok":
            raise RuntimeError("implementation child failed: %r" % (str(r)[-1500:],))
        for j, x in enumerate(r[1]):
            merged[k + j * nproc] = x
    return merged


# ------------------------------------------------------------------ comparing

def _cut(case, step):
    """the session up to and including event number step, without the questions that are not needed to get there:
    the constructions before it and the question itself"""
    ev = [e for e in case["events"][:step] if "build" in e] + [case["events"][step]]
    return dict(case, events=ev)


def _declared_for(db, n, f):
    return any(d[0] == n and d[2] == f for s in db for d in s["decl"])


def compare_cases(ctx, cases, label="multi"):
    impl = run_parallel(cases)
    lines, index = [], []
    for ci, (c, ir) in enumerate(zip(cases, impl)):
        for si, ev in enumerate(c["events"]):
            if "ask" in ev:
                lines.append(S.to_line(c, _q(c, ev["ask"]), [], ir["user"]))
                index.append((ci, si))
    mout = {}
    for key, l in zip(index, ctx.model(lines)):
        m = S.parse_model(l)
        if "driver" in m:
            raise RuntimeError("model driver: " + m["driver"])
        mout[key] = m
    known_tags = set(["current", "stable", "latest"] + B.EXTRA_GLOBAL)
    for ci, (c, ir) in enumerate(zip(cases, impl)):
        db = c["db"]
        fls = [i["flavor"] for i in c["instances"]]
        order = "".join(str(e["build"]) for e in c["events"] if "build" in e)
        key = "%s/%s/n%d/%s/order-%s" % (label, c.get("kind", "-"), len(fls),
                                         "distinct" if len(set(fls)) == len(fls) else "repeated", order)
        interesting = False
        for mode in ("cache", "db"):
            i = ir[mode]
            rc = mode == "cache"
            if "steps" not in i:
                ctx.fail("session-raises", dict(c, readCache=rc), observed=i, what="the session raised %s" % i.get("err"))
                continue
            if S.canon_view(i["view"]) != S.canon_view(db):
                ctx.disagree(dict(c, readCache=rc), S.canon_view(db), S.canon_view(i["view"]),
                             where="multi/view: questions changed the files of the stacks")
            built = []
            for si, ev in enumerate(c["events"]):
                obs = i["steps"][si]
                if "build" in ev:
                    built.append(ev["build"])
                    if "err" in obs:
                        # selectVRO refuses some option combinations: the model's select_vro must refuse them too
                        continue
                    continue
                if obs.get("skipped"):
                    continue
                a = ev["ask"]
                k = a["k"]
                q = _q(c, a)
                m = mout[(ci, si)]
                cc = dict(_cut(c, si), readCache=rc)
                own = fls[k]
                after = built[built.index(k) + 1:] if k in built else []
                foreign_live = [fls[j] for j in built if fls[j] != own]
                foreign_after = [fls[j] for j in after if fls[j] != own]
                ctx.traces_validated += 1
                ctx.bump("multi:ask/" + ("after-a-foreign-build" if foreign_after else
                                         "foreign-instance-alive" if foreign_live else "alone-so-far"))
                if not isinstance(m.get("vro"), list):
                    continue
                if obs["pref"] != m["vro"]:
                    ctx.disagree(cc, m["vro"], obs["pref"], where="multi/vro of the asked instance")
                vro = obs["pref"]
                # ---- the flavors the instance searches: its own, then the configured fallback
                if obs["flavor"] != own or obs["flavors"] != q["flavors"]:
                    ctx.disagree(cc, q["flavors"], obs["flavors"],
                                 where="multi/flavors: event %d, instance %d (flavor %s) searches other flavors than its "
                                       "own and the configured fallback (live instances: %r)"
                                       % (si, k, own, [fls[j] for j in built]))
                # ---- the walk for the instance's own flavor
                exp = B.o_walk(db, vro, q, known_tags)
                for how, what in (("walk", "findProductFromVRO"), ("walk_nocache", "findProductFromVRO(noCache=True)")):
                    w = obs[how]
                    if "err" in w:
                        ctx.fail("session-raises", cc, observed=w, what="%s raised %s at event %d" % (what, w["err"], si))
                        continue
                    got = B.triple(w["found"])
                    if got != exp:
                        ctx.fail("session-designation", cc, expected=exp, observed=got,
                                 what="question at event %d of the session, %s of instance %d (flavor %s) returned %r; the VRO %r designates %r"
                                      % (si, what, k, own, got, vro, exp))
                    if {"found": w["found"], "reason": w["reason"]} != m["walk"]:
                        ctx.disagree(cc, m["walk"], w, where="multi/%s/%s" % (how, mode))
                for t in S.TAGS:
                    g = obs["tagged"][t]
                    et = B.o_highest(db, q["name"], own, lambda v: True) if t == "latest" else \
                        B.o_tagged(db, q["name"], t, own)
                    if "err" in g:
                        ctx.fail("session-raises", cc, observed=g, what="findTaggedProduct(%s) raised %s" % (t, g["err"]))
                        continue
                    if B.triple(g["found"]) != et:
                        ctx.fail("session-tag", cc, expected=et, observed=B.triple(g["found"]),
                                 what="question at event %d of the session, findTaggedProduct(%s, %s) of instance %d (flavor %s) returned %r; the "
                                      "first stack that has the tag for that flavor gives %r"
                                      % (si, q["name"], t, k, own, B.triple(g["found"]), et))
                    if B.triple(g["found"]) != B.triple(m["tagged"][t]):
                        ctx.disagree(cc, m["tagged"][t], g["found"], where="multi/tagged/%s/%s" % (t, mode))
                if "version" in obs:
                    g = obs["version"]
                    ev_ = B.o_named(db, q["name"], q["version"], own)
                    if "err" in g:
                        ctx.fail("session-raises", cc, observed=g, what="findProduct raised %s" % g["err"])
                    else:
                        if B.triple(g["found"]) != ev_:
                            ctx.fail("session-version", cc, expected=ev_, observed=B.triple(g["found"]),
                                     what="question at event %d of the session, findProduct(%s, %s) of instance %d (flavor %s) returned %r; the "
                                          "first stack declaring it for that flavor is %r"
                                          % (si, q["name"], q["version"], k, own, B.triple(g["found"]), ev_))
                        if B.triple(g["found"]) != B.triple(m["version"]):
                            ctx.disagree(cc, m["version"], g["found"], where="multi/version/" + mode)
                # ---- the whole resolution of Eups.setup: the native flavor first, then the fallback, nothing else
                if a["setup"]:
                    r = obs["resolve"]
                    if "err" in r:
                        ctx.fail("session-setup-raises", cc, observed=r, what="Eups.setup raised %s" % r["err"])
                    else:
                        exps = B.o_designates(db, vro, q, known_tags)
                        got = B.triple(r["found"])
                        if got is not None and got[2] not in q["flavors"]:
                            ctx.fail("session-foreign-flavor", cc, expected=exps, observed=got,
                                     what="question at event %d of the session, Eups.setup through instance %d (flavor %s) chose %r, a declaration "
                                          "for a flavor that is neither its own nor its fallback %s (live instances: %r)"
                                          % (si, k, own, got, B.FALLBACK, [fls[j] for j in built]))
                        elif got != exps:
                            ctx.fail("session-setup", cc, expected=exps, observed=got,
                                     what="question at event %d of the session, Eups.setup through instance %d (flavor %s) chose %r; the VRO %r "
                                          "designates %r" % (si, k, own, got, vro, exps))
                        sv = obs.get("setup_var")
                        if r["found"] is not None and sv is not None and sv.split()[1] != r["found"]["version"]:
                            ctx.fail("session-setup-var", cc, expected=r["found"]["version"], observed=sv,
                                     what="SETUP_ variable records another version than the product chosen")
                        mr = m["resolve"]
                        if "err" in mr or {"found": r["found"], "reason": r["reason"]} != mr:
                            ctx.disagree(cc, mr, r, where="multi/setup/" + mode)
                        if foreign_live and not _declared_for(db, q["name"], own) and \
                                any(_declared_for(db, q["name"], f) for f in foreign_live):
                            interesting = True
                            if mode == "cache":
                                ctx.bump("multi:setup/own-flavor-undeclared-but-a-live-foreign-one-is/" +
                                         ("found-fallback" if got else "found-nothing"))
        ctx.count(2, key=key + ("/foreign-only" if interesting else ""),
                  nontrivial=json.dumps([c["db"], c["instances"], c["events"]], sort_keys=True))
    return impl, mout


def corpus_cases():
    d = os.path.join(common.ROOT, "corpus", B.PID, "multi")
    out = []
    if os.path.isdir(d):
        for f in sorted(os.listdir(d)):
            if f.endswith(".json"):
                out.append(json.load(open(os.path.join(d, f)))["input"])
    return out


def run_multi(ctx):
    cases = corpus_cases() + directed_cases()
    for _ in range(ctx.size(220, 4000)):
        cases.append(gen_case(ctx.rng))
    ctx.sample(cases[-1])
    for i in range(0, len(cases), 800):
        compare_cases(ctx, cases[i:i + 800])
