"""C03, family seq: histories put to ONE long-lived Eups instance.

Model: coq/Model/ResolveSeq.v (op caseq of build/c03/run)   Theorems: the last section of coq/Props/C03.v

The property speaks of the database as it is when the question is asked.  A case is a database, the options of the
instance (-t / -T tags, --exact, --inexact) and a history of events
    ask     findProductFromVRO (through the cache of the instance and with noCache=True), findTaggedProduct for every
            registered tag, findProduct of a named version - and, in half of the cases, the same walk on a NEW instance
    change  made through that same instance: assignTag (with or without a stack), unassignTag (with or without version
            and stack), declare (with or without tag=), undeclare
optionally closed by a real Eups.setup on the instance (the product recorded, SETUP_<NAME>).  The history is run on an
instance that uses the product cache (readCache=True) and on one that does not.

After every event the child reads the database view back from the files of the stacks (version files and chain files,
with eups' own file readers).  Every answer is compared with
  - the property's oracle (harness/c03.py: o_walk, o_tagged, o_named, o_highest, o_designates) on the view READ FROM THE
    FILES at that step: the designation rule for the database as it is now;
  - the extracted model run on view_after (initial view, changes so far), whose view is compared with the files too.
"""
import json
import os
import shutil
import sys

import common
from common import enc, dec

import c03 as B

TAGS = ["current", "stable", "beta", "t", "latest"]       # looked up with findTaggedProduct at every ask
ALL_VERSIONS = B.VERSIONS + ["3.0"]


# ------------------------------------------------------------------ generation

def _restrict(db, names):
    return [{"id": s["id"], "decl": [d for d in s["decl"] if d[0] in names],
             "chain": [c for c in s["chain"] if c[0] in names]} for s in db]


def _declared_versions(db, n, flavor=None, stack=None):
    out = []
    for s in db:
        if stack is not None and s["id"] != stack:
            continue
        for d in s["decl"]:
            if d[0] == n and (flavor is None or d[2] == flavor) and d[1] not in out:
                out.append(d[1])
    return out


def gen_ask(rng, n, other):
    r = rng.random()
    version = expr = None
    ops = ["<", "<=", "==", ">=", ">"]
    if r < 0.5:
        form = "bare"
    elif r < 0.7:
        form = "version"
        version = rng.choice(ALL_VERSIONS)
    elif r < 0.9:
        form = "expr"
        version = rng.choice(ops) + rng.choice(["", " "]) + rng.choice(B.VERSIONS + ["1.5", "0.5"])
    else:
        form = "version+expr"
        version = rng.choice(ALL_VERSIONS)
        expr = rng.choice(ops) + " " + rng.choice(B.VERSIONS + ["1.5"])
    return {"ask": {"name": other if (other and rng.random() < 0.12) else n, "version": version, "expr": expr,
                    "form": form}}


def gen_mut(rng, db, n, tag):
    """one change; tag is the tag the history is mostly about"""
    t = tag if rng.random() < 0.7 else rng.choice(B.DB_TAGS)
    st = rng.choice([None, None, None] + B.STACKS)
    decl = _declared_versions(db, n, B.NATIVE) or ALL_VERSIONS
    r = rng.random()
    if r < 0.4:
        v = rng.choice(decl) if rng.random() < 0.9 else rng.choice(ALL_VERSIONS)
        return {"mut": ["A", t, n, v, st]}
    if r < 0.65:
        v = None if rng.random() < 0.6 else rng.choice(decl)
        return {"mut": ["U", t, n, v, st]}
    if r < 0.85:
        return {"mut": ["D", n, rng.choice(ALL_VERSIONS), rng.choice(B.STACKS), t if rng.random() < 0.6 else None]}
    return {"mut": ["X", n, rng.choice(decl), st]}


def gen_opts(rng, tag):
    o = B.gen_opts(rng)
    o["keep"] = False
    r = rng.random()
    if tag != "current" and tag not in o["tags"] and tag not in o["posttags"]:
        if r < 0.45:
            o["tags"] = [tag] + o["tags"][:1]
        elif r < 0.8:
            o["posttags"] = [tag] + o["posttags"][:1]
    return o


def gen_case(rng):
    """a random history about one product"""
    db = B.gen_db(rng)
    n = rng.choice(B.PRODUCTS)
    other = rng.choice([p for p in B.PRODUCTS if p != n] + [None])
    db = _restrict(db, [n] + ([other] if other else []))
    # a history starts from a database that eups commands can produce: every chain entry names a version declared
    # for that flavor in that stack (C06: no_dangling_tag holds after every history of declare / tag / undeclare /
    # remove); dangling entries stay with the single-shot families
    for s in db:
        s["chain"] = [c for c in s["chain"] if [c[0], c[3], c[1]] in s["decl"]]
    tag = rng.choice(B.DB_TAGS)
    kind = "random"
    r = rng.random()
    if r < 0.35:
        # the tag is at first assigned in the second stack only (or nowhere)
        kind = "late-tag" if r < 0.25 else "no-tag"
        for s in db[:1] if r < 0.25 else db:
            s["chain"] = [c for c in s["chain"] if not (c[0] == n and c[2] == tag)]
    events = [gen_ask(rng, n, other)] if rng.random() < 0.9 else []
    for _ in range(rng.choice([1, 2, 2, 3])):
        for _ in range(rng.choice([1, 1, 2])):
            events.append(gen_mut(rng, db, n, tag))
        events.append(gen_ask(rng, n, other))
    setup = None
    if rng.random() < 0.4:
        setup = dict(gen_ask(rng, n, None)["ask"], depth=rng.choice([0, 1, 1]))
    return {"family": "seq", "kind": kind, "db": db, "opts": gen_opts(rng, tag), "events": events, "setup": setup,
            "fresh": rng.random() < 0.5}


def directed_cases():
    N, F = B.NATIVE, B.FALLBACK
    db = [{"id": "s1", "decl": [["p1", "1.0", N], ["p1", "2.0", N]], "chain": [["p1", N, "current", "1.0"]]},
          {"id": "s2", "decl": [["p1", "1.1", N], ["p1", "10.0", F]],
           "chain": [["p1", N, "beta", "1.1"], ["p1", F, "beta", "10.0"]]}]

    def o(tags=(), post=()):
        return {"keep": False, "exact": False, "inexact": False, "tags": list(tags), "posttags": list(post)}

    def ask(version=None, expr=None, name="p1"):
        return {"ask": {"name": name, "version": version, "expr": expr, "form": "directed"}}
    out = []
    for opts in (o(["beta"]), o((), ["beta"]), o()):
        for fresh in (False, True):
            out.append({"family": "seq", "kind": "directed", "db": db, "opts": opts, "fresh": fresh, "setup": None,
                        "events": [ask(), {"mut": ["A", "beta", "p1", "2.0", None]}, ask(), ask("1.0"),
                                   {"mut": ["U", "beta", "p1", None, None]}, ask(),
                                   {"mut": ["X", "p1", "1.1", None]}, ask(), ask(">= 1.0"),
                                   {"mut": ["D", "p1", "3.0", "s2", "current"]}, ask(), ask("> 1.0"),
                                   {"mut": ["D", "p1", "10.0", "s1", None]}, ask(">= 1.0"),
                                   {"mut": ["A", "stable", "p1", "10.0", "s1"]}, ask()]})
    out.append({"family": "seq", "kind": "directed", "db": db, "opts": o(["beta"]), "fresh": False,
                "events": [ask(), {"mut": ["A", "beta", "p1", "2.0", None]}],
                "setup": {"name": "p1", "version": None, "expr": None, "form": "directed", "depth": 1}})
    out.append({"family": "seq", "kind": "directed", "db": db, "opts": o((), ["beta"]), "fresh": False,
                "events": [ask(), {"mut": ["D", "p1", "3.0", "s1", "beta"]}, ask()],
                "setup": {"name": "p1", "version": "1.0", "expr": None, "form": "directed", "depth": 0}})
    return out


# ------------------------------------------------------------------ implementation side (children)

def read_view(base):
    """the database as it is now, read from the files of the stacks"""
    from eups.db.VersionFile import VersionFile
    from eups.db.ChainFile import ChainFile
    view = []
    for sid in B.STACKS:
        dbdir = os.path.join(base, sid, "ups_db")
        decl, chain = [], []
        for prod in sorted(os.listdir(dbdir)):
            pdir = os.path.join(dbdir, prod)
            if not os.path.isdir(pdir) or prod.startswith("."):
                continue
            for fn in sorted(os.listdir(pdir)):
                path = os.path.join(pdir, fn)
                if fn.endswith(".version"):
                    vf = VersionFile(path)
                    for fl in vf.getFlavors():
                        decl.append([prod, vf.version, fl])
                elif fn.endswith(".chain"):
                    cf = ChainFile(path)
                    for fl in cf.getFlavors():
                        chain.append([prod, fl, fn[:-len(".chain")], cf.getVersion(fl)])
        view.append({"id": sid, "decl": sorted(decl), "chain": sorted(chain)})
    return view


def _q(case, a, depth=1):
    return {"name": a["name"], "version": a["version"], "expr": a["expr"], "form": a["form"], "depth": depth,
            "flavors": [B.NATIVE, B.FALLBACK], "prev": None, "opts": case["opts"]}


def _mk(eups, case, readCache):
    q0 = {"opts": case["opts"], "version": None}
    return B._mk_eups(eups, q0, readCache, B.NATIVE)


def _walk(eups, base, e, q, **kw):
    e.alreadySetupProducts = {}
    try:
        p, r = e.findProductFromVRO(q["name"], q["version"], q["expr"], flavor=B.NATIVE, recursionDepth=1,
                                    vro=e.getPreferredTags(), **kw)
        return {"found": B._found(base, p), "reason": list(r) if r else None}
    except Exception as ex:  # noqa
        return {"err": type(ex).__name__}


def _change(e, base, m):
    st = lambda x: None if x is None else os.path.join(base, x)
    if m[0] == "A":
        e.assignTag(m[1], m[2], m[3], st(m[4]))
    elif m[0] == "U":
        e.unassignTag(m[1], m[2], m[3], st(m[4]))
    elif m[0] == "D":
        e.declare(m[1], m[2], "none", st(m[3]), "none", tag=m[4])
    elif m[0] == "X":
        e.undeclare(m[1], m[2], st(m[3]))
    else:
        raise ValueError(m)


def impl_history(eups, base, case, readCache):
    e, _ = _mk(eups, case, readCache)
    out = {"vro": list(e.getVRO()), "pref": list(e.getPreferredTags()), "steps": []}
    for ev in case["events"]:
        if "mut" in ev:
            try:
                _change(e, base, ev["mut"])
                out["steps"].append({"changed": True, "view": read_view(base)})
            except Exception as ex:  # noqa
                out["steps"].append({"raised": type(ex).__name__, "view": read_view(base)})
            continue
        q = _q(case, ev["ask"])
        obs = {"view": read_view(base)}
        obs["walk"] = _walk(eups, base, e, q)
        obs["walk_nocache"] = _walk(eups, base, e, q, noCache=True)
        obs["tagged"] = {}
        for t in TAGS:
            try:
                obs["tagged"][t] = {"found": B._found(base, e.findTaggedProduct(q["name"], t))}
            except Exception as ex:  # noqa
                obs["tagged"][t] = {"err": type(ex).__name__}
        if q["version"] and not B.o_is_expr(q["version"]):
            try:
                obs["version"] = {"found": B._found(base, e.findProduct(q["name"], q["version"]))}
            except Exception as ex:  # noqa
                obs["version"] = {"err": type(ex).__name__}
        if case.get("fresh"):
            try:
                e2, _ = _mk(eups, case, True)
                obs["fresh"] = _walk(eups, base, e2, q)
            except Exception as ex:  # noqa
                obs["fresh"] = {"err": type(ex).__name__}
        out["steps"].append(obs)
    if case.get("setup"):
        q = _q(case, case["setup"], case["setup"]["depth"])
        keepenv = dict(os.environ)
        obs = {"view": read_view(base)}
        e.alreadySetupProducts = {}
        try:
            res = e.setup(q["name"], q["version"], recursionDepth=q["depth"], versionExpr=q["expr"])
            if res[0]:
                prod, reason = e.alreadySetupProducts[q["name"]]
                obs["resolve"] = {"found": B._found(base, prod), "reason": list(reason) if reason else None}
                obs["setup_var"] = os.environ.get("SETUP_" + q["name"].upper())
            else:
                obs["resolve"] = {"found": None, "reason": None}
        except Exception as ex:  # noqa
            obs["resolve"] = {"err": type(ex).__name__}
        os.environ.clear()
        os.environ.update(keepenv)
        out["setup"] = obs
    return out


def impl_cases(cases):
    devnull = os.open(os.devnull, os.O_WRONLY)
    os.dup2(devnull, 2)
    os.dup2(devnull, 1)                       # declare and undeclare chat on stdout
    sys.stderr = open(os.devnull, "w")
    sys.stdout = open(os.devnull, "w")
    eups = None
    res = []
    for c in cases:
        r = {}
        for rc in (True, False):
            base = common.scratch_dir()
            try:
                B._setup_environ(base)
                if eups is None:
                    eups = common.import_eups()
                    from eups import hooks
                    for t in B.EXTRA_GLOBAL:
                        if t not in hooks.config.Eups.globalTags:
                            hooks.config.Eups.globalTags += [t]
                    import eups.utils
                    user = eups.utils.getUserName()
                sys.modules["eups.db.Database"]._databases.clear()
                B._write_db(eups, base, c["db"])
                sys.modules["eups.db.Database"]._databases.clear()
                try:
                    r["cache" if rc else "db"] = impl_history(eups, base, c, rc)
                except Exception as ex:  # noqa
                    r["cache" if rc else "db"] = {"vro": {"err": type(ex).__name__}}
            finally:
                shutil.rmtree(base, ignore_errors=True)
        r["user"] = user
        res.append(r)
    return res


def run_parallel(cases, nproc=B.NPROC):
    if not cases:
        return []
    nproc = max(1, min(nproc, len(cases), (os.cpu_count() or 4)))
    slices = [cases[i::nproc] for i in range(nproc)]
    outs = common.par_map(impl_cases, [(sl,) for sl in slices], nproc=nproc, timeout=900)
    merged = [None] * len(cases)
    for k, r in enumerate(outs):
        if r[0] != "ok":
            raise RuntimeError("implementation child failed: %r" % (str(r)[-1500:],))
        for j, x in enumerate(r[1]):
            merged[k + j * nproc] = x
    return merged


# ------------------------------------------------------------------ model protocol

def enc_mut(m):
    opt = B.enc_opt
    if m[0] == "A":
        return "~".join(["A", enc(m[1]), enc(m[2]), enc(m[3]), opt(m[4])])
    if m[0] == "U":
        return "~".join(["U", enc(m[1]), enc(m[2]), opt(m[3]), opt(m[4])])
    if m[0] == "D":
        return "~".join(["D", enc(m[1]), enc(m[2]), enc(m[3]), opt(m[4])])
    return "~".join(["X", enc(m[1]), enc(m[2]), opt(m[3])])


def to_line(case, q, muts, user):
    q = dict(q, version_named=False)
    line = B.to_line(case["db"], q, user).split("\t")
    line[0] = "caseq"
    line[7] = "0"                      # the instance is built before any version is named (selectVRO(versionName=None))
    return "\t".join(line + [";".join(enc_mut(m) for m in muts), ",".join(enc(t) for t in TAGS)])


def dec_view(s):
    out = []
    for part in s.split("|"):
        sid, d, c = part.split("@")
        if dec(sid) == "ud":
            continue                   # the user data directory, last element of Eups.path: empty
        out.append({"id": dec(sid), "decl": sorted([dec(x) for x in e.split("~")] for e in d.split(",") if e),
                    "chain": sorted([dec(x) for x in e.split("~")] for e in c.split(",") if e)})
    return out


def parse_model(line):
    m = B.parse_model(line)
    if "driver" in m or not isinstance(m.get("vro"), list):
        return m
    f = line.split("\t")
    m["view"] = dec_view(f[10])
    m["tagged"] = dict(zip(TAGS, [B.dec_found(x) for x in f[11].split(",")]))
    m["version"] = B.dec_found(f[12])
    return m


def canon_view(view):
    """first entry in force per (product, flavor, tag); sorted"""
    out = []
    for s in view:
        seen, chain = set(), []
        for c in s["chain"]:
            if (c[0], c[1], c[2]) not in seen:
                seen.add((c[0], c[1], c[2]))
                chain.append(list(c))
        out.append({"id": s["id"], "decl": sorted(list(d) for d in s["decl"]), "chain": sorted(chain)})
    return out


# ------------------------------------------------------------------ comparing

def _cut(case, step):
    """the case up to and including event number step (None: the whole history and its setup)"""
    if step is None:
        return dict(case)
    return dict(case, events=case["events"][:step + 1], setup=None)


def compare_cases(ctx, cases, label="seq"):
    impl = run_parallel(cases)
    lines, index = [], []
    for ci, (c, ir) in enumerate(zip(cases, impl)):
        for mode in ("cache", "db"):
            muts = []
            for si, ev in enumerate(c["events"]):
                if "mut" in ev:
                    m = list(ev["mut"])
                    if mode == "db" and m[0] == "D" and m[4] is None:
                        # Eups.declare asks Eups.findProducts whether the product is new, and findProducts reads the
                        # product cache only: an instance without the cache takes every product for new, and an
                        # untagged declare is for it a declare with tag=current
                        m[4] = "current"
                    muts.append(m)
                else:
                    lines.append(to_line(c, _q(c, ev["ask"]), muts, ir["user"]))
                    index.append((ci, mode, si))
            # the view at the end of the history (and the resolution of the closing setup, if any)
            last = c["setup"] or {"name": "p1", "version": None, "expr": None, "form": "end", "depth": 1}
            lines.append(to_line(c, _q(c, last, last["depth"]), muts, ir["user"]))
            index.append((ci, mode, None))
    mout = [parse_model(l) for l in ctx.model(lines)]
    known_tags = set(["current", "stable", "latest"] + B.EXTRA_GLOBAL)
    by_case = {}
    for (ci, mode, si), m in zip(index, mout):
        if "driver" in m:
            raise RuntimeError("model driver: " + m["driver"])
        by_case.setdefault((ci, mode), {})[si] = m
    for ci, (c, ir) in enumerate(zip(cases, impl)):
        nmut = sum(1 for ev in c["events"] if "mut" in ev)
        kinds = "".join(sorted(set(ev["mut"][0] for ev in c["events"] if "mut" in ev)))
        o = c["opts"]
        key = "%s/%s/%s%s/%s%s%s" % (label, c.get("kind", "-"), "t" if o["tags"] else "-", "T" if o["posttags"] else "-",
                                     kinds, "/fresh" if c.get("fresh") else "", "/setup" if c.get("setup") else "")
        answers_changed = False
        for mode in ("cache", "db"):
            i = ir[mode]
            rc = mode == "cache"
            mend = by_case[(ci, mode)][None]
            if not isinstance(i.get("vro"), list) or not isinstance(mend.get("vro"), list):
                if isinstance(i.get("vro"), list) != isinstance(mend.get("vro"), list):
                    ctx.disagree(dict(c, readCache=rc), mend.get("vro"), i.get("vro"), where="seq/selectVRO")
                continue
            vro = i["pref"]
            if i["vro"] != mend["vro"]:
                ctx.disagree(dict(c, readCache=rc), mend["vro"], i["vro"], where="seq/vro")
            for si, ev in enumerate(c["events"]):
                obs = i["steps"][si]
                cc = dict(_cut(c, si), readCache=rc, step=si)
                view = obs["view"]
                if "mut" in ev:
                    ctx.bump("seq:change-" + ev["mut"][0] + ("-raised" if "raised" in obs else ""))
                    continue
                q = _q(c, ev["ask"])
                m = by_case[(ci, mode)][si]
                ctx.traces_validated += 1
                # ---- the model's view against the files
                if canon_view(m["view"]) != canon_view(view):
                    ctx.disagree(cc, canon_view(m["view"]), canon_view(view),
                                 where="seq/view: view_after differs from the files of the stacks")
                    continue
                # ---- the oracle, on the view read from the files
                exp = B.o_walk(view, vro, q, known_tags)
                for how, what in (("walk", "findProductFromVRO through the instance"),
                                  ("walk_nocache", "findProductFromVRO(noCache=True) through the instance"),
                                  ("fresh", "findProductFromVRO of a new instance")):
                    w = obs.get(how)
                    if w is None:
                        continue
                    if "err" in w:
                        ctx.fail("history-raises", cc, observed=w, what="%s raised %s at event %d" % (what, w["err"], si))
                        continue
                    got = B.triple(w["found"])
                    if got != exp:
                        ctx.fail("history-designation", cc, expected=exp, observed=got,
                                 what="event %d, %s returned %r; for the database as it is now the VRO %r designates %r"
                                      % (si, what, got, vro, exp))
                    mw = m["walk"]
                    if {"found": w["found"], "reason": w["reason"]} != mw:
                        ctx.disagree(cc, mw, w, where="seq/%s/%s" % (how, mode))
                for t in TAGS:
                    g = obs["tagged"][t]
                    if t == "latest":
                        et = B.o_highest(view, q["name"], B.NATIVE, lambda v: True)
                    else:
                        et = B.o_tagged(view, q["name"], t, B.NATIVE)
                    if "err" in g:
                        ctx.fail("history-raises", cc, observed=g, what="findTaggedProduct(%s) raised %s" % (t, g["err"]))
                        continue
                    if B.triple(g["found"]) != et:
                        ctx.fail("history-tag", cc, expected=et, observed=B.triple(g["found"]),
                                 what="event %d, findTaggedProduct(%s, %s) returned %r; the first stack that has the "
                                      "tag now gives %r" % (si, q["name"], t, B.triple(g["found"]), et))
                    if B.triple(g["found"]) != B.triple(m["tagged"][t]):
                        ctx.disagree(cc, m["tagged"][t], g["found"], where="seq/tagged/%s/%s" % (t, mode))
                if "version" in obs:
                    g = obs["version"]
                    ev_ = B.o_named(view, q["name"], q["version"], B.NATIVE)
                    if "err" in g:
                        ctx.fail("history-raises", cc, observed=g, what="findProduct raised %s" % g["err"])
                    else:
                        if B.triple(g["found"]) != ev_:
                            ctx.fail("history-version", cc, expected=ev_, observed=B.triple(g["found"]),
                                     what="event %d, findProduct(%s, %s) returned %r; the first stack declaring it now is %r"
                                          % (si, q["name"], q["version"], B.triple(g["found"]), ev_))
                        if B.triple(g["found"]) != B.triple(m["version"]):
                            ctx.disagree(cc, m["version"], g["found"], where="seq/version/" + mode)
                if exp != B.o_walk(c["db"], vro, q, known_tags):
                    answers_changed = True      # the changes made so far alter what the VRO designates
            # ---- the end of the history
            cc = dict(c, readCache=rc)
            if c.get("setup"):
                obs = i["setup"]
                q = _q(c, c["setup"], c["setup"]["depth"])
                view = obs["view"]
                ctx.traces_validated += 1
                if canon_view(mend["view"]) != canon_view(view):
                    ctx.disagree(cc, canon_view(mend["view"]), canon_view(view), where="seq/view at the closing setup")
                    continue
                r = obs["resolve"]
                if "err" in r:
                    ctx.fail("history-setup-raises", cc, observed=r, what="the closing Eups.setup raised %s" % r["err"])
                else:
                    exp = B.o_designates(view, vro, q, known_tags)
                    got = B.triple(r["found"])
                    if got != exp:
                        ctx.fail("history-setup", cc, expected=exp, observed=got,
                                 what="the closing Eups.setup chose %r; for the database as it is now the VRO %r "
                                      "designates %r" % (got, vro, exp))
                    sv = obs.get("setup_var")
                    if r["found"] is not None and sv is not None and sv.split()[1] != r["found"]["version"]:
                        ctx.fail("history-setup-var", cc, expected=r["found"]["version"], observed=sv,
                                 what="SETUP_ variable records another version than the product chosen")
                    mr = mend["resolve"]
                    if "err" in mr or {"found": r["found"], "reason": r["reason"]} != mr:
                        ctx.disagree(cc, mr, r, where="seq/setup/" + mode)
            else:
                view = i["steps"][-1]["view"] if i["steps"] else None
                if view is not None and canon_view(mend["view"]) != canon_view(view):
                    ctx.disagree(cc, canon_view(mend["view"]), canon_view(view), where="seq/view at the end")
        ctx.count(2, key=key + ("/answers-change" if answers_changed else "/same-answers"),
                  nontrivial=json.dumps([c["db"], c["opts"], c["events"], c["setup"]], sort_keys=True)
                  if (nmut and answers_changed) else None)
    return impl, mout


def corpus_cases():
    d = os.path.join(common.ROOT, "corpus", B.PID, "seq")
    out = []
    if os.path.isdir(d):
        for f in sorted(os.listdir(d)):
            if f.endswith(".json"):
                out.append(json.load(open(os.path.join(d, f)))["input"])
    return out


def run_seq(ctx):
    cases = corpus_cases() + directed_cases()
    for _ in range(ctx.size(420, 6000)):
        cases.append(gen_case(ctx.rng))
    ctx.sample(cases[-1])
    for i in range(0, len(cases), 800):
        compare_cases(ctx, cases[i:i + 800])
