"""C04 - setup changes only what it was asked to (keep, just, max-depth, bystanders).

Model: coq/Model/Setup.v (driver build/c01/run); theorems: coq/Props/C04.v (frame theorem over the products reachable
within the depth budget, for every resolver).  Tie and oracle: harness/setupsim.py runs generated scenarios on the
real Eups.setup, compares every request with the model, and evaluates the property on the real results.
"""
import json

import common
import setupsim as S


MS_OPTIONS, MS_DIRECTED, REFS, NEIGHBOURS, LOCAL_DIR = 40, 24, 24, 44, 16      # quick-tier sizes of the families added in round 5
TAG_NAMED, LINE_OPTS = 30, 36                                                  # ... in round 6


def gen_scenario(rng):
    w = S.gen_world(rng)
    reqs = [S.gen_request(rng, w, allow_fail=0.0) for _ in range(rng.choice([0, 1, 2, 3]))]
    last = S.gen_request(rng, w, allow_fail=0.05)
    r = rng.random()
    if r < 0.30:
        last["keep"] = True
    elif r < 0.50:
        last["just"] = True
    elif r < 0.75:
        last["max_depth"] = rng.choice([0, 1, 1, 2])
    elif r < 0.85:
        last = {"name": last["name"], "fwd": False}
    if rng.random() < 0.3:
        # the requested product is already set up at another version and is replaced under a depth limit
        multi = [n for n in sorted(w["products"]) if len(w["products"][n]) > 1]
        if multi:
            n = multi[-1]
            vs = sorted(w["products"][n])
            reqs = [{"name": n, "fwd": True, "version": vs[0]}]
            last = {"name": n, "fwd": True, "version": vs[-1]}
            below = [m for m in sorted(w["products"]) if m < n]
            if len(below) >= 2 and rng.random() < 0.7:
                # make sure the set-up chain below the replaced product is deeper than the limit: n -> mid -> low
                mid, low = below[-1], below[0]
                for v in w["products"][n]:
                    w["products"][n][v] = [l for l in w["products"][n][v] if "(%s" % mid not in l] + ["setupRequired(%s)" % mid]
                for v in w["products"][mid]:
                    w["products"][mid][v] = [l for l in w["products"][mid][v] if "(%s" % low not in l] + ["setupRequired(%s)" % low]
            r2 = rng.random()
            if r2 < 0.5:
                last["max_depth"] = rng.choice([1, 1, 2])
            elif r2 < 0.7:
                last["just"] = True
            elif r2 < 0.9:
                last["keep"] = True
    elif rng.random() < 0.2:
        # --keep against a dependency asked for by tag, by bare name or by expression, the product being set up
        # at a version that has not got the tag
        names = sorted(w["products"])
        lo, top = names[0], names[-1]
        if len(w["products"][lo]) < 2:
            extra = [v for v in S.VERSIONS if v not in w["products"][lo]][0]
            w["products"][lo][extra] = ["envPrepend(PATH, ${PRODUCT_DIR}/bin)", "envSet(%s_HOME, ${PRODUCT_DIR}/home)" % lo.upper()]
        vs = sorted(w["products"][lo])
        w["current"][lo] = rng.choice(vs)
        other = rng.choice([v for v in vs if v != w["current"][lo]])
        line = rng.choice(["setupRequired(%s -t current)", "setupOptional(%s -t current)", "setupRequired(%s)",
                           "setupRequired(%s >= 1.0)", "EXPANDED", "EXPANDED"])
        if line == "EXPANDED":
            # the form an expanded table has: version and expression, the version set up failing the expression
            w["current"][lo], other = vs[-1], vs[0]
            line = "%s(%s %s [>= %s])" % (rng.choice(["setupRequired", "setupOptional"]), lo, vs[-1], vs[-1])
        else:
            line = line % lo
        for v in w["products"][top]:
            w["products"][top][v] = [l for l in w["products"][top][v] if "(%s" % lo not in l] + [line]
        reqs = [{"name": lo, "fwd": True, "version": other}]
        last = {"name": top, "fwd": True, "keep": True}
    env0 = {"PATH": "/usr/bin:/bin"}
    if rng.random() < 0.3:
        env0["XLIST"] = "/pre/x;/pre/y"
    if rng.random() < 0.5:
        env0["PATH"] = "/usr/bin:@STACK@/Linux64/p1/1.0/bin:/opt/x/bin:/bin"
    if rng.random() < 0.3:
        env0["LD_LIBRARY_PATH"] = "/usr/lib"
    return {"world": w, "requests": reqs + [last], "env0": env0}


def gen_scenario_cli(rng):
    """the same scenarios with every request made through the command-line front end (setupcmd.EupsSetup.execute: the
    translation of --just / --max-depth / --keep / --unsetup into the Eups object and the eups.setup call), the final
    request leaning towards the option combinations: --just or --max-depth together with --unsetup, --just on a product
    that is set up at another version, --keep"""
    s = gen_scenario(rng)
    reqs = [dict(r) for r in s["requests"]]
    last = reqs[-1]
    r = rng.random()
    if r < 0.45 and len(reqs) >= 1:
        # set something up first (with its dependencies), then unsetup it under --just / --max-depth
        name = last["name"]
        first = {"name": name, "fwd": True}
        if last.get("version") and last["version"] != "9.9":
            first["version"] = last["version"]
        reqs = reqs[:-1] + [first]
        last = {"name": name, "fwd": False}
        if rng.random() < 0.6:
            last["just"] = True
        else:
            last["max_depth"] = rng.choice([0, 1, 1, 2])
    elif last.get("just") and last.get("max_depth") is not None:
        del last["max_depth"]
    reqs = reqs[:-1] + [last]
    for q in reqs:
        q["cli"] = True
        q.pop("tag", None)
    s["requests"] = reqs
    return s


FAILED_OPT = 30
LINE_OPTIONS = ["%s -k --vro current", "%s --keep --vro current", "%s --vro current -k", "-k --vro current %s",
                "%s --vro current", "%s -k", "%s -k --vro latest", "%s --vro latest", "%s -k 1.0", "%s -k --vro current 1.0"]


def gen_scenario_line_options(rng):
    """the option words a dependency line may carry - its own -k / --keep, its own --vro <word>, both on one line, in either
    order, with or without a version - against --keep on the command line (and, now and then, without it): the product
    the line names is set up beforehand at a version that the line's own resolution order would not choose; a second
    product below is set up beforehand too and asked for by a plain line"""
    lo, lo2, mid, top = "p1", "p2", "p3", "p4"
    vs = sorted(rng.sample(S.VERSIONS, rng.choice([2, 3])))
    cur = rng.choice(vs[1:]) if rng.random() < 0.7 else vs[0]
    other = rng.choice([v for v in vs if v != cur])
    prods = {lo: {v: S.small_own(rng, lo) for v in vs},
             lo2: {v: S.small_own(rng, lo2) for v in ("1.0", "2.0")}}
    form = rng.choice(LINE_OPTIONS)
    kind = rng.choice(["setupRequired", "setupRequired", "setupOptional"])
    line = "%s(%s)" % (kind, form % lo)
    plain = "setupRequired(%s)" % lo2
    via_mid = rng.random() < 0.35
    if via_mid:
        prods[mid] = {"1.0": S.small_own(rng, mid) + [line]}
        prods[top] = {"1.0": S.small_own(rng, top) + ["setupRequired(%s)" % mid, plain]}
    else:
        prods[mid] = {"1.0": S.small_own(rng, mid)}
        prods[top] = {"1.0": S.small_own(rng, top) + [line, plain]}
    rng.shuffle(prods[top]["1.0"])
    w = {"root": rng.choice(["stack", "stack", "stack dir"]), "products": prods,
         "current": {lo: cur, lo2: "2.0", mid: "1.0", top: "1.0"}, "generic": [], "family": "line-options"}
    reqs = [{"name": lo, "fwd": True, "version": other}, {"name": lo2, "fwd": True, "version": "1.0"}]
    rng.shuffle(reqs)
    last = {"name": top, "fwd": True}
    if rng.random() < 0.85:
        last["keep"] = True
    reqs.append(last)
    if rng.random() < 0.4:
        for q in reqs:
            q["cli"] = True
    return {"world": w, "requests": reqs, "env0": {"PATH": "/usr/bin:/bin"}}


FAILED_OPTIONAL = ['%s 1.0 --vro "version!"', "%s 1.0 --vro current", "%s 1.0 -k", "%s 1.0", '%s --vro "version!"']


def gen_scenario_failed_optional(rng):
    """round 7.  An optional line (with or without option words of its own) whose product IS declared but fails half-way
    because a required dependency of its own table is declared nowhere: the failure is swallowed by the optional line, and
    the sibling lines that follow must be treated exactly as if the line had not been there - under --keep every product
    set up beforehand retains its version"""
    sc = gen_scenario_line_options(rng)
    w = sc["world"]
    bad, top = "p5", "p4"
    w["products"][bad] = {"1.0": S.small_own(rng, bad) + ["setupRequired(p6)"]}
    w["current"][bad] = "1.0"
    lines = [("setupRequired(p2 2.0)" if l == "setupRequired(p2)" and rng.random() < 0.7 else l)
             for l in w["products"][top]["1.0"]]
    lines.insert(rng.choice([0, 0, rng.randrange(len(lines) + 1)]),
                 "setupOptional(%s)" % (rng.choice(FAILED_OPTIONAL) % bad))
    w["products"][top]["1.0"] = lines
    w["family"] = "failed-optional-line"
    return sc


def oracle_versions_reached(ctx, s, res):
    """the clauses of oracle with reachability read off the versions that matter to the request (those it decides on and
    those set up before it): a dependency of a version that is neither set up nor asked for is a bystander"""
    return oracle(ctx, s, res, reach=S.reach_by_versions)


def oracle(ctx, s, res, reach=None):
    rec = res["records"][-1]
    rq = rec["request"]
    shape = ("keep" if rq.get("keep") else "just" if rq.get("just") else
             "maxdepth%s" % rq["max_depth"] if rq.get("max_depth") is not None else
             "unsetup" if not rq.get("fwd", True) else "plain")
    if rq.get("cli"):
        shape = "cli:" + shape + ("" if rq.get("fwd", True) or shape == "unsetup" else "+unsetup")
    before, after = rec["before"], rec["after"]
    sb, sa = S.setup_records(before), S.setup_records(after)
    ctx.count(1, key="%s/%s/%d-set-up-before" % (shape, "ok" if rec["ok"] else "failed", min(len(sb), 4)),
              nontrivial=json.dumps([s["world"], s["requests"]], sort_keys=True) if (sb and rec["ok"]) else None)
    if not rec["ok"]:
        return
    case = {"world": s["world"], "requests": s["requests"], "env0": s["env0"]}
    touched = S.touched_names(res, rq["name"], just=bool(rq.get("just")), max_depth=rq.get("max_depth"))
    if reach is not None:
        narrow = reach(res, rec)
        if not narrow <= touched:
            raise RuntimeError("reachability over the versions that matter exceeds reachability over all versions")
        if narrow != touched:
            ctx.bump("bystanders:dependencies-of-a-version-neither-set-up-nor-asked-for")
        touched = narrow
    dirs = S.product_dirs(res)
    # bystanders (and everything deeper than the stated depth): records, directory variables, table variables,
    # presence and relative order of their path elements
    for q in sorted(S.world_graph(res)):
        if q in touched:
            continue
        for var in ("SETUP_" + q.upper(), q.upper() + "_DIR"):
            if before.get(var) != after.get(var):
                ctx.fail("bystander-record", case, expected=before.get(var), observed=after.get(var),
                         what="%s is not reachable within the stated depth from %s but %s changed" % (q, rq["name"], var))
                return
        for v in s["world"]["products"][q]:
            paths, sets, _ = S.own_contributions(res, q, v)
            for var, val in sets.items():
                if before.get(var) != after.get(var):
                    ctx.fail("bystander-variable", case, expected=before.get(var), observed=after.get(var),
                             what="variable %s of bystander %s changed" % (var, q))
                    return
    delims = {}
    for (q, v) in dirs:
        for var, val, d in S.own_contributions(res, q, v)[0]:
            delims[var] = d
    mine = lambda x: any(x.startswith(dirs[(q, v)] + "/") or x == dirs[(q, v)] for (q, v) in dirs if q not in touched)
    # an element that a command of a REACHED product contributes through a reference to another product's directory
    # variable (envAppend(TOP_PATH, ${DEP_DIR}/share)) is that product's, wherever it points
    foreign = set()
    for (q, v) in dirs:
        if q in touched:
            for var, val, d in S.own_contributions(res, q, v)[0]:
                if S.has_ref(val):
                    for env in (before, after):
                        foreign |= set((var, el) for el in S.path_contribution_elems(val, d, env))
    for var, d in sorted(delims.items()):
        b = [x for x in S.uniq_list((before.get(var) or "").split(d)) if x and mine(x) and (var, x) not in foreign]
        a = [x for x in S.uniq_list((after.get(var) or "").split(d)) if x and mine(x) and (var, x) not in foreign]
        if b != a:
            ctx.fail("bystander-path-elements", case, expected=b, observed=a,
                     what="elements of untouched products in %s changed: %r -> %r" % (var, b, a))
            return
    # keep
    if rq.get("keep"):
        for q, v in sb.items():
            if q != rq["name"] and sa.get(q) != v:
                ctx.fail("keep-lost", case, expected={q: v}, observed={q: sa.get(q)},
                         what="with --keep, %s %s was set up before the request and is %s after it" % (q, v, sa.get(q)))
                return


def oracle_ms(ctx, s, res):
    """bystanders and --keep on a world with several stacks: a bystander keeps its record (version AND stack), its
    directory variable, the variables its declarations set and the order of the path elements under any of its
    directories; with --keep every product set up before keeps its version and its stack"""
    rec = res["records"][-1]
    rq = rec["request"]
    shape = ("keep" if rq.get("keep") else "just" if rq.get("just") else
             "maxdepth%s" % rq["max_depth"] if rq.get("max_depth") is not None else
             "unsetup" if not rq.get("fwd", True) else "plain")
    before, after = rec["before"], rec["after"]
    sb, sa = S.ms_records(before), S.ms_records(after)
    second = any(v[1] != res["roots"][0] for v in sb.values())
    ctx.count(1, key="ms/%s%s/%s/%s" % ("cli:" if rq.get("cli") else "", shape, "ok" if rec["ok"] else "failed",
                                        "prior-from-second-stack" if second else "prior-from-first-stack" if sb else "nothing-before"),
              nontrivial=json.dumps([s["world"], s["requests"]], sort_keys=True) if (sb and rec["ok"]) else None)
    if not rec["ok"]:
        return
    case = {"world": s["world"], "requests": s["requests"], "env0": s["env0"]}
    md, just = S.model_opts(rq)
    touched = S.ms_touched_names(res, rq["name"], just=just, max_depth=md)
    for q in sorted(S.ms_world_graph(res)):
        if q in touched:
            continue
        for var in ("SETUP_" + q.upper(), q.upper() + "_DIR"):
            if before.get(var) != after.get(var):
                ctx.fail("bystander-record", case, expected=S.strip_roots(res, before.get(var)), observed=S.strip_roots(res, after.get(var)),
                         what="%s is not reachable within the stated depth from %s but %s changed" % (q, rq["name"], var))
                return
        for info in res["parsed"]:
            if info["name"] == q:
                for var in S.ms_contributions(info)[1]:
                    if before.get(var) != after.get(var):
                        ctx.fail("bystander-variable", case, expected=S.strip_roots(res, before.get(var)),
                                 observed=S.strip_roots(res, after.get(var)), what="variable %s of bystander %s changed" % (var, q))
                        return
    delims = {}
    for info in res["parsed"]:
        for var, val, d in S.ms_contributions(info)[0]:
            delims[var] = d
    bdirs = [i["dir"] for i in res["parsed"] if i["name"] not in touched]
    mine = lambda x: any(x == d or x.startswith(d + "/") for d in bdirs)
    for var, d in sorted(delims.items()):
        b = [x for x in S.uniq_list((before.get(var) or "").split(d)) if x and mine(x)]
        a = [x for x in S.uniq_list((after.get(var) or "").split(d)) if x and mine(x)]
        if b != a:
            ctx.fail("bystander-path-elements", case, expected=S.strip_roots(res, b), observed=S.strip_roots(res, a),
                     what="elements of untouched products in %s changed" % var)
            return
    if rq.get("keep"):
        for q, v in sb.items():
            if q != rq["name"] and sa.get(q) != v:
                ctx.fail("keep-lost", case, expected=S.strip_roots(res, {q: v}), observed=S.strip_roots(res, {q: sa.get(q)}),
                         what="with --keep, %s was set up as %r before the request and is %r after it" % (
                             q, S.strip_roots(res, v), S.strip_roots(res, sa.get(q))))
                return


def oracle_local(ctx, s, res):
    """products set up from a directory (setup -r): with --keep every product that was set up keeps its record -
    version LOCAL:dir and all; the bystander keeps its record and directory variable in every mode"""
    rec = res["records"][-1]
    rq = rec["request"]
    before, after = rec["before"], rec["after"]
    sb = {k: v for k, v in before.items() if k.startswith("SETUP_")}
    local = any(" LOCAL:" in v for v in sb.values())
    ctx.count(1, key="local-directory/%s/%s/%s" % ("keep" if rq.get("keep") else "plain", "ok" if rec["ok"] else "failed",
                                                   "directory-version-set-up-before" if local else "declared-versions-before"),
              nontrivial=json.dumps([s["world"], s["requests"]], sort_keys=True) if (sb and rec["ok"]) else None)
    if not rec["ok"]:
        return
    case = {"world": s["world"], "requests": s["requests"], "env0": s["env0"], "locals": s["locals"]}
    for var in ("SETUP_Z", "Z_DIR"):
        if rq["name"] != "z" and before.get(var) != after.get(var):
            ctx.fail("bystander-record", case, expected=before.get(var), observed=after.get(var),
                     what="z is not reachable from %s but %s changed" % (rq["name"], var))
            return
    if rq.get("keep"):
        for var, v in sorted(sb.items()):
            if var != "SETUP_" + rq["name"].upper() and after.get(var) != v:
                ctx.fail("keep-lost", case, expected={var: v}, observed={var: after.get(var)},
                         what="with --keep, %s was %r before the request and is %r after it" % (var, v, after.get(var)))
                return


def run(ctx):
    ctx.rule = ("random worlds (3-5 products x 1-3 versions, acyclic tables with path/envSet/alias commands and required/"
                "optional/versioned/expression/-j dependencies, stack path with or without a blank), 0-3 prior real "
                "setups, planted path content; final request plain / --keep / --just / --max-depth N / unsetup; worlds of "
                "two stacks (random, and directed: --keep while a dependency is set up from a stack the request does not "
                "select with -Z / -z); neighbours: a bystander whose name has the name of a reached product as a prefix "
                "(afw / afwdata, either way round), -j on table lines with the owner unset up or replaced while the "
                "dependencies of the product below were set up on their own, the exact block of an expanded table; "
                "tables whose values refer to other variables; a version NAMED like a recognised tag (stable / current / latest) "
                "set up while that tag sits on another version with other dependencies, then replaced or unset up (bystanders "
                "= what the versions that are set up or asked for do not reach); dependency lines carrying -k / --keep and / "
                "or --vro word against --keep on the command line; a case is "
                "non-trivial when the final request succeeds from an environment in which something is set up; "
                "distinct = distinct (world, requests)")
    ctx.trusted_base = common.COMMON_TRUSTED + [
        "two model runs per request: Model/Setup.v fed with the decisions of the real resolver (one per forward call of "
        "Eups.setup, captured by a spy), and the composed model Model/SetupFull.v (setup + the resolver of C03, "
        "alreadySetupProducts, per-line VRO with keep) fed with NO decisions - with the dotted-numeric comparator on "
        "worlds with the version names 1.0 2.0 3.0, and with the comparator and matcher of C10 "
        "(coq/Model/ResolveReal.v, real-comparator-comparisons) on every world, those of gen_world_versions included; "
        "compared: success, environment, aliases, decisions",
        "table files enter the model as the actions the real parser derives from them (C11 models the parser)"]
    ctx.assumptions = ["declared products only (no setup -r, no --force: --keep with a product set up from a directory is "
                       "not exercised); reachability in the oracle reads the -j of table lines (a -j line reaches its "
                       "product and nothing below it: touches_j of Proofs/SetupFrameJ.v, setup_changes_only_what_it_reaches_j)",
                       "keep_retains: WF2, Eups.keep set and keep at the head of the VRO (what --keep does), a non-empty "
                       "flavor list; composed model: dependency lines without -t / --vro / -k (the line-options family is "
                       "tied through the decision-fed model and judged by the oracle; --vro version!, which switches an "
                       "inherited --keep off by design, is not generated)",
                       "tag-named versions: outside the composed and text-fed models (decision-fed model and oracle only); "
                       "reachability over the versions that matter (setupsim.reach_by_versions) is an oracle-side "
                       "refinement, the frame theorems quantify over the lines of every declared version",
                       "WF world of Proofs/SetupFrame.v for the theorems: path values non-empty, delimiter-free, "
                       "dollar-free; one delimiter per path variable; path, envSet and SETUP_/_DIR variables disjoint"]
    ctx.check_theorems()
    scenarios = [c for c in S.corpus("C04") if not S.is_ms(c["world"])] + [gen_scenario(ctx.rng) for _ in range(ctx.size(190, 3000))]
    for s in scenarios[:3]:
        ctx.sample({"requests": s["requests"], "env0": s["env0"], "products": s["world"]["products"]})
    for i in range(0, len(scenarios), 400):
        S.run_scenarios(ctx, scenarios[i:i + 400], oracle)
    # the same through the command-line front end (setupcmd.EupsSetup)
    cli = [gen_scenario_cli(ctx.rng) for _ in range(ctx.size(90, 1500))]
    for i in range(0, len(cli), 400):
        S.run_scenarios(ctx, cli[i:i + 400], oracle)
    # --keep / --just / --max-depth / unsetup on worlds with version names of C10's grammar: the composed model with the
    # real comparator (coq/Model/ResolveReal.v) decides every version
    versions = [s for s in S.directed_version_scenarios() if len(s["requests"]) == 3] + \
               [S.gen_scenario_versions(ctx.rng, "options") for _ in range(ctx.size(70, 1200))]
    for i in range(0, len(versions), 400):
        S.run_scenarios(ctx, versions[i:i + 400], oracle)
    # several stacks on EUPS_PATH (coq/Model/SetupMS*.v): --keep / --just / --max-depth / unsetup with products set up from
    # the second stack, the same name and version declared in both, requests with -Z / -z, through Eups and through the CLI
    ms = [c for c in S.corpus("C04") if S.is_ms(c["world"])] + \
         [S.gen_scenario_ms(ctx.rng, "options") for _ in range(ctx.size(MS_OPTIONS, 1200))] + \
         [S.gen_scenario_ms_directed(ctx.rng, "options") for _ in range(ctx.size(MS_DIRECTED, 600))]
    for sc in ms:
        if sc["world"].get("family", "").startswith("ms-"):
            ctx.bump("family:" + sc["world"]["family"])
    for i in range(0, len(ms), 400):
        S.run_scenarios_ms(ctx, ms[i:i + 400], oracle_ms)
    # neighbours: a bystander whose NAME has the name of a reached product as a prefix (or the other way round), -j on
    # table lines while the owner is unset up or replaced (the dependencies of the product below were set up on their
    # own and are bystanders), the block of an expanded table; table values that refer to other variables
    nb = [S.gen_scenario_neighbours(ctx.rng) for _ in range(ctx.size(NEIGHBOURS, 900))] + \
         [S.gen_scenario_refs(ctx.rng, "options") for _ in range(ctx.size(REFS, 600))]
    for sc in nb:
        ctx.bump("family:" + sc["world"]["family"])
    for i in range(0, len(nb), 400):
        S.run_scenarios(ctx, nb[i:i + 400], oracle)
    # round 6.  Versions NAMED like a recognised tag (a version called stable / current while that tag sits on another
    # version with other dependencies): replacing or unsetting up the set-up version undoes ITS table; and the option
    # words of dependency lines (-k, --vro word, both) against --keep on the command line
    named = [S.gen_scenario_tagnamed(ctx.rng) for _ in range(ctx.size(TAG_NAMED, 600))]
    opts = [gen_scenario_line_options(ctx.rng) for _ in range(ctx.size(LINE_OPTS, 600))]
    for sc in named + opts:
        ctx.bump("family:" + sc["world"]["family"])
    S.run_scenarios_basic(ctx, named, oracle_versions_reached)
    S.run_scenarios(ctx, opts, oracle)
    # round 7: an optional line whose declared product fails below itself, then siblings (real code and decision-fed model)
    fopt = [gen_scenario_failed_optional(ctx.rng) for _ in range(ctx.size(FAILED_OPT, 300))]
    for sc in fopt:
        ctx.bump("family:" + sc["world"]["family"])
    S.run_scenarios(ctx, fopt, oracle)
    # products set up from a DIRECTORY (setup -r dir, version LOCAL:dir): outside the setup models, run on the real code
    # and judged by the oracle alone - --keep must retain them like any other product
    S.run_scenarios_local(ctx, [S.gen_scenario_local(ctx.rng) for _ in range(ctx.size(LOCAL_DIR, 300))], oracle_local)


def replay(ctx, path):
    obj = json.load(open(path))
    s = obj["input"]
    if "locals" in s:
        S.run_scenarios_local(ctx, [s], oracle_local)
    elif S.is_ms(s["world"]):
        S.run_scenarios_ms(ctx, [s], oracle_ms)
    elif s["world"].get("family", "").startswith("tag-named-version"):
        S.run_scenarios_basic(ctx, [s], oracle_versions_reached)
    else:
        S.run_scenarios(ctx, [s], oracle)
    bad = [f for f in ctx.failures if not ctx._known(f)] or ctx.disagreements
    print("replay %s: %s" % (path, "still fails" if bad else "passes"))
    return 1 if bad else 0
