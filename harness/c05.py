"""C05 - emitted shell commands reproduce the computed environment when sourced.

Model: coq/Model/Shell.v (emit/render and the shell fragment sh_lex/sh_run), coq/Model/ShellSession.v (the
command-line front end at every verbosity; several calls of the python interface in one process)
Theorems: coq/Props/C05.v

Three ties, all on the same generated cases:
  (1) model emit+render  vs  the text produced by the real eups.app.setup (a real Eups object whose
      .setup method is replaced by a stub that plants os.environ; the delta/quoting/unset/alias code of
      app.py runs unmodified) joined the way setupcmd.py prints it;
  (2) the shell specification sh_lex/sh_run  vs  /bin/dash and /bin/bash sourcing the same text from
      `env -i` + the old environment, read back with `env -0`; plus a stream of texts drawn from the
      fragment's grammar (not only of the emitter's shape) and of texts with syntax errors;
  (3) the property's own oracle: the real emitter's text, executed by the real shells, yields exactly the
      environment eups computed (os.environ of the implementation run), with the four variables the code
      refuses to unset kept.
An end-to-end stream runs the real command class eups.setupcmd.EupsSetup on real stacks whose product
directories contain blanks and metacharacters, at every verbosity (-v 0 to 5 times, -q), and executes what the
process wrote to file descriptor 1 the same way.  A python-interface stream makes several eups.setup /
eups.unsetup calls in one process (no Eups object passed in) and sources each call's commands from the
environment the process had at that call.
"""
import io
import json
import os
import re
import shutil
import subprocess
import sys
from concurrent.futures import ThreadPoolExecutor

import common
from common import enc, enc_env, dec_env, dec

PATHLIKE = "ABCDEFGHIJKLMNOPQRSTUVWXYZabcdefghijklmnopqrstuvwxyz0123456789/._:+,=@%-"
META = "<>|&;()"
BLANKS = " \t\n"
CLAIM = set(PATHLIKE + META + BLANKS)
PROTECTED = ["EUPS_DIR", "EUPS_PATH", "EUPS_PKGROOT", "EUPS_SHELL"]
GONE = ["EUPS_PATH", "EUPS_PKGROOT", "EUPS_SHELL"]
DROP = {"_", "PWD", "SHLVL", "OLDPWD"}
NAME_RE = re.compile(r"[A-Za-z_][A-Za-z0-9_]*\Z")

NAMES = ["PATH", "HOME", "LD_LIBRARY_PATH", "PYTHONPATH", "MANPATH", "EUPS_DIR", "EUPS_PATH", "EUPS_PKGROOT",
         "EUPS_SHELL", "EUPS_FLAVOR", "SETUP_FOO", "FOO_DIR", "SETUP_BAR", "BAR_DIR", "SETUP_EUPS", "X", "_y",
         "A1", "LANG", "My_Var2", "EUPS_DIRS", "XEUPS_PATH"]
SEGS = ["/opt/stack", "Linux64", "foo", "1.0", "my products", "bin", "lib", "a+b", "x,y", "k=v", "u@h", "50%",
        "tag-1", "/usr/local", "", "p q  r", "v1.2_3"]
OUTSIDE = ["it's", "\"dq\"", "$HOME/x", "`id`", "a\\b", "~/x", "{a,b}", "*.c", "a?b", "[x]", "#c", "!h",
           "'a b'", "\"a b\"", "'a b\"", "'a b'\n", "'a\nb'", "''", "'", "\"", "'a' 'b'", "'x", "x'", "a\rb", "a\x0bb",
           "a\x0cb", "a\x1cb", "a\x1fb", "'a\n", "a b'", "$(id) x", "a;b'c", "\" \"", "'\n'", "'' ", " ''"]
ALIAS_BODIES = ["eval `\"/e/bin/eups_setup\" DYLD_LIBRARY_PATH=\"${DYLD_LIBRARY_PATH}\" \"$@\"`", "ls -l", "echo 'a b'",
                "cd /opt/my stack", "true"]
ALIAS_NAMES = ["setup", "unsetup", "myls", "go_there"]


# ------------------------------------------------------------------ generators

def gen_claim_value(rng):
    r = rng.random()
    if r < 0.25:
        return "/".join(rng.choice(SEGS) for _ in range(rng.choice([1, 2, 3, 4]))).replace(" ", "_")
    if r < 0.45:
        return "/".join(rng.choice(SEGS) for _ in range(rng.choice([1, 2, 3, 4])))
    if r < 0.75:
        n = rng.choice([1, 1, 2, 3, 5, 8, 12])
        s = "".join(rng.choice(PATHLIKE) if rng.random() < 0.55 else rng.choice(META + BLANKS) for _ in range(n))
        return s
    if r < 0.85:
        return ":".join(gen_claim_value(rng) for _ in range(rng.choice([2, 3])))
    if r < 0.93:
        return "".join(rng.choice(BLANKS) for _ in range(rng.choice([1, 1, 2, 3])))
    c = rng.choice(META + BLANKS)
    return rng.choice([c, "a" + c, c + "a", "a" + c + "b", c + c, "/p" + c + "/q r"])


def value_shape(v):
    if v == "":
        return "empty"
    tags = []
    if any(c in " \t" for c in v):
        tags.append("blank")
    if "\n" in v:
        tags.append("nl")
    if any(c in META for c in v):
        tags.append("meta")
    if any(c not in CLAIM for c in v):
        tags.append("outside")
    return "+".join(tags) or "plain"


def gen_delta(rng, stream="claim"):
    """an old environment and the environment eups computed from it"""
    names = rng.sample(NAMES, rng.choice([2, 3, 4, 6, 8, 10]))
    old = []
    for k in names:
        r = rng.random()
        if r < 0.15:
            v = rng.choice(OUTSIDE)     # left alone unless changed below: any text may sit in the old environment
        elif r < 0.25:
            v = ""
        else:
            v = gen_claim_value(rng)
        old.append([k, v])
    product = "eups" if rng.random() < 0.2 else rng.choice(["foo", "bar"])
    fwd = rng.random() < 0.6
    new = []
    for k, v in old:
        r = rng.random()
        if r < 0.40:
            new.append([k, v])                                  # untouched
        elif r < 0.62:
            nv = gen_claim_value(rng)
            if stream == "outside" and rng.random() < 0.6:
                nv = rng.choice(OUTSIDE) if rng.random() < 0.7 else nv + rng.choice(OUTSIDE)
            new.append([k, nv])                                 # changed
        elif r < 0.74:
            new.append([k, ""])                                 # emptied
        # else removed
    fresh = [n for n in NAMES if n not in names]
    for k in rng.sample(fresh, min(len(fresh), rng.choice([0, 1, 1, 2, 4]))):
        v = gen_claim_value(rng)
        if stream == "outside" and rng.random() < 0.6:
            v = rng.choice(OUTSIDE)
        if rng.random() < 0.1:
            v = ""
        new.insert(rng.randrange(len(new) + 1), [k, v])
    if stream == "outside" and rng.random() < 0.15:
        k = rng.choice(["EUPS_DIR\n", "A B", "1X", "a-b", "EUPS_PATH\n", "x=y"])
        (old if rng.random() < 0.5 else new).append([k, "v"])
    if rng.random() < 0.2:
        rng.shuffle(new)
    if not fwd and product == "eups" and stream == "claim":
        # keep the case inside the hypothesis gone_ok (the code always has EUPS_PATH in oldEnviron: setEupsPath
        # writes it before the copy is taken); the other stream leaves such cases in
        oldk = {k for k, _ in old}
        new = [kv for kv in new if not (kv[0] in GONE and kv[0] not in oldk)]
    al, oldal = [], []
    shell = "sh"
    if rng.random() < 0.25:
        for k in rng.sample(ALIAS_NAMES, rng.choice([1, 2, 3])):
            r = rng.random()
            if r < 0.5:
                al.append([k, rng.choice(ALIAS_BODIES)])
            elif r < 0.8:
                oldal.append([k, None])
            else:
                body = rng.choice(ALIAS_BODIES)
                al.append([k, body])
                oldal.append([k, body if rng.random() < 0.5 else None])
    if stream == "outside" and rng.random() < 0.3:
        shell = "zsh"
    forced = []
    if rng.random() < 0.15:
        # --force: names the table actions deleted from oldEnviron; they are then set, hence in the new environment
        gone = GONE if (not fwd and product == "eups") else []
        cand = [k for k, _ in old if any(k == k2 for k2, _ in new) and k not in gone]
        if stream == "outside" and rng.random() < 0.5:
            cand = [k for k, _ in old]
        forced = rng.sample(cand, min(len(cand), rng.choice([1, 1, 2])))
    # the verbosity and quietness of the Eups object: the emitted commands must not depend on them
    verbose = rng.choice([0, 0, 0, 1, 2, 3, 4, 5])
    quiet = rng.choice([0, 1, 1])
    return {"kind": "delta", "stream": stream, "shell": shell, "product": product, "fwd": fwd,
            "old": old, "new": new, "aliases": al, "oldaliases": oldal, "forced": forced,
            "verbose": verbose, "quiet": quiet}


def sweep_cases():
    """every blank and metacharacter, in each position, as a new and as a changed value"""
    out = []
    for c in BLANKS + META:
        for v in (c, "a" + c + "b", c + "a", "a" + c, "/opt/my" + c + "dir/bin:/usr/bin"):
            out.append({"kind": "delta", "stream": "claim", "shell": "sh", "product": "foo", "fwd": True,
                        "old": [["PATH", "/usr/bin"], ["KEEP", "k " + c]],
                        "new": [["PATH", v], ["KEEP", "k " + c], ["FOO_DIR", v]], "aliases": [], "oldaliases": [],
                        "forced": []})
    return out


PLAIN_WORD = "ABCDEFGHIJKLMNOPQRSTUVWXYZabcdefghijklmnopqrstuvwxyz0123456789/._:+,@%-"
QUOTED_EXTRA = "\"$`\\#*?[]~{}!<>|&;() \t\n\r\x01\x7f="


def gen_text(rng):
    """a text from the grammar of the shell fragment (and a few just outside it: syntax errors)"""
    old = [[k, rng.choice(["o", "old value", ""])] for k in rng.sample(["A", "B", "C_1", "_d", "PATH"], rng.choice([0, 1, 2, 3]))]

    def word(allow_eq=True):
        parts = []
        for _ in range(rng.choice([1, 1, 2, 3])):
            if rng.random() < 0.5:
                parts.append("".join(rng.choice(PLAIN_WORD) for _ in range(rng.choice([1, 2, 4]))))
            else:
                body = "".join(rng.choice(PLAIN_WORD + QUOTED_EXTRA) for _ in range(rng.choice([0, 1, 2, 5])))
                parts.append("'" + body + "'")
        return "".join(parts)

    def blanks(minimum=1):
        return "".join(rng.choice(" \t") for _ in range(rng.choice([minimum, minimum, 1, 2, 3])))

    def name():
        n = rng.choice(["A", "B", "C_1", "_d", "PATH", "NEW", "Z9"])
        if rng.random() < 0.06:
            n = "'" + n + "'"
        return n

    cmds = []
    for _ in range(rng.choice([0, 1, 2, 3, 5])):
        r = rng.random()
        if r < 0.55:
            args = [name() + "=" + (word() if rng.random() < 0.85 else "") for _ in range(rng.choice([1, 1, 1, 2, 3]))]
            cmds.append("export" + blanks() + blanks().join(args))
        elif r < 0.85:
            cmds.append("unset" + blanks() + blanks().join(name() for _ in range(rng.choice([1, 1, 2]))))
        else:
            cmds.append("false" + ("" if rng.random() < 0.7 else blanks() + word()))
    text = ""
    for i, c in enumerate(cmds):
        text += blanks(0) if rng.random() < 0.2 else ""
        text += c
        text += blanks(0) if rng.random() < 0.2 else ""
        text += rng.choice([";\n", ";\n", "\n", ";", "; ", "\n\n", " ;\n"]) if i + 1 < len(cmds) else rng.choice(["\n", "", ";\n", ";"])
    r = rng.random()
    if r < 0.05:
        text += "export A='unterminated\n"
    elif r < 0.09:
        text = ";\n" + text
    elif r < 0.13:
        text += "export B=1;;\n"
    elif r < 0.16 and cmds:
        text = text.replace(";", "; ;", 1)
    elif r < 0.20:
        text += rng.choice(["export A=$B\n", "export A=\"x y\"\n", "export A=a\\ b\n", "export A\n", "unset\n", "echo hi\n",
                            "export A=1 && false\n", "export A=x # c\n", "export 1A=x\n", "(unset A)\n"])
    return {"kind": "text", "stream": "fragment", "text": text, "old": old}


# ------------------------------------------------------------------ model side

def enc_oldal(oldal):
    return ";".join(enc(k) + "=" + ("N" if v is None else "S" + enc(v)) for k, v in oldal)


def to_line(c):
    if c["kind"] == "delta":
        return "\t".join(["emit", c["shell"], "1" if c["product"] == "eups" else "0", "1" if c["fwd"] else "0",
                          enc_env(c["old"]), enc_env(c["new"]), enc_env(c["aliases"]), enc_oldal(c["oldaliases"]),
                          common.enc_list(",", c.get("forced", []))])
    if c["kind"] == "failed":
        return "\t".join(["failed", enc_env(c["old"])])
    if c["kind"] == "text":
        return "\t".join(["source", enc(c["text"]), enc_env(c["old"])])
    raise ValueError(c)


def parse_envres(f):
    if f[0] == "ok":
        return {"env": dict(dec_env(f[1] if len(f) > 1 else ""))}
    return {"err": f[1]}


def model_result(c, line):
    f = line.split("\t")
    if f[0] == "DRIVER-ERROR":
        return {"err": "DRIVER:" + line}
    if c["kind"] == "delta":
        if f[0] == "err":
            return {"err": f[1]}
        # ok text (ok env | err kind) protect flags ; an empty env field may have been dropped by split
        f += [""] * (6 - len(f))
        text = dec(f[1])
        if f[2] == "ok":
            run = {"env": dict(dec_env(f[3]))}
        else:
            run = {"err": f[3]}
        return {"text": text, "run": run, "protect": dict(dec_env(f[4])), "flags": f[5]}
    if c["kind"] == "failed":
        f += [""] * (4 - len(f))
        return {"text": dec(f[1]), "run": parse_envres(f[2:])}
    if c["kind"] == "text":
        return parse_envres(f)
    raise ValueError(c)


# ------------------------------------------------------------------ implementation side

def impl_batch(cases, scratch):
    """runs in a forked child: the real eups.app.setup on a real Eups object; only Eups.setup (the
    computation of the new environment, properties C01-C04) is replaced by a stub that plants it"""
    stack = os.path.join(scratch, "stack")
    os.makedirs(os.path.join(stack, "ups_db"), exist_ok=True)
    os.makedirs(os.path.join(scratch, "userdata", "ups_db"), exist_ok=True)
    base = common.scrubbed_environ({"EUPS_PATH": stack, "EUPS_USERDATA": os.path.join(scratch, "userdata"),
                                    "EUPS_FLAVOR": "Linux64"})
    os.environ.clear()
    os.environ.update(base)
    devnull = os.open(os.devnull, os.O_WRONLY)
    os.dup2(devnull, 2)
    eups = common.import_eups()
    E = eups.Eups(readCache=False, quiet=1)
    E.selectVRO(None, None, None, None)
    out = []
    for c in cases:
        if c["kind"] not in ("delta", "failed"):
            out.append(None)
            continue
        planted = {}

        def fake_setup(productName, versionName=None, fwd=True, recursionDepth=0, setupToplevel=True,
                       noRecursion=False, setupType=None, productRoot=None, tablefile=None, _c=c, _p=planted):
            if _c["kind"] == "failed":
                return False, None, "planted failure"
            os.environ = dict((k, v) for k, v in _c["new"])     # a plain dict, as Eups.setup leaves it
            return True, "1.0", None

        os.environ = dict((k, v) for k, v in c["old"])
        E.setup = fake_setup
        E.shell = c.get("shell", "sh")
        E.noaction = False
        E.verbose = c.get("verbose", 0)
        E.quiet = c.get("quiet", 1)
        E.oldEnviron = dict(baseline(c))
        E.aliases = dict((k, v) for k, v in c.get("aliases", []))
        E.oldAliases = dict((k, v) for k, v in c.get("oldaliases", []))
        try:
            cmds = eups.setup(c.get("product", "foo"), "1.0", eupsenv=E, fwd=c.get("fwd", True))
            buf = io.StringIO()
            print(";\n".join(cmds), file=buf)                   # setupcmd.py: print(";\n".join(cmds))
            out.append({"text": buf.getvalue(), "final": dict(os.environ)})
        except UnboundLocalError:
            out.append({"err": "Crash"})
        except Exception as e:  # noqa
            out.append({"err": "Other:" + type(e).__name__ + ":" + str(e)[:200]})
    return out


_SHELLS = {"dash": ["/bin/dash"], "bash": ["/bin/bash", "--norc", "--noprofile"]}


def run_shell(shell, path, old):
    """source the file in a shell started from exactly the old environment; return (env dict or None, stderr)"""
    argv = ["/usr/bin/env", "-i"] + ["%s=%s" % (k, v) for k, v in old] + _SHELLS[shell] + \
           ["-c", '. "$0"\n/usr/bin/env -0', path]
    p = subprocess.run(argv, stdin=subprocess.DEVNULL, stdout=subprocess.PIPE, stderr=subprocess.PIPE, cwd="/")
    err = p.stderr.decode("utf-8", "replace")
    if p.returncode != 0 and not p.stdout:
        return None, err
    env = {}
    for item in p.stdout.split(b"\0"):
        if not item:
            continue
        k, _, v = item.decode("utf-8", "surrogateescape").partition("=")
        if k not in DROP:
            env[k] = v
    return (None if err else env), err


def shells_batch(scratch, jobs):
    """jobs: list of (text, old); returns list of {shell: (env|None, stderr)}"""
    d = os.path.join(scratch, "texts")
    os.makedirs(d, exist_ok=True)

    def one(ij):
        i, (text, old) = ij
        path = os.path.join(d, "t%d.sh" % i)
        with open(path, "w", encoding="utf-8", errors="surrogateescape", newline="") as f:
            f.write(text)
        res = {sh: run_shell(sh, path, old) for sh in _SHELLS}
        os.unlink(path)
        return res

    with ThreadPoolExecutor(max_workers=min(16, (os.cpu_count() or 4))) as ex:
        return list(ex.map(one, enumerate(jobs)))


# ------------------------------------------------------------------ the property's own oracle

def valid_name(k):
    return bool(NAME_RE.match(k))


def baseline(c):
    """Eups.oldEnviron: the caller's environment minus the names --force made eups forget"""
    forced = set(c.get("forced", []))
    return [(k, v) for k, v in c["old"] if k not in forced]


def changed_items(c):
    old = dict(baseline(c))
    return [(k, v) for k, v in c["new"] if not (k in old and old[k] == v)]


def in_claim(c):
    """names are identifiers, changed values are in the claim alphabet, (unsetup of eups) no variable among the
    three deleted ones is new, and (--force) forgotten names are in the computed environment; returns the five
    flags the model also computes"""
    names = all(valid_name(k) for k, _ in baseline(c)) and all(valid_name(k) for k, _ in c["new"])
    claim = all(set(v) <= CLAIM for _, v in changed_items(c))
    gone = True
    if not c["fwd"] and c["product"] == "eups":
        oldk = {k for k, _ in baseline(c)}
        newk = {k for k, _ in c["new"]}
        gone = all(k not in newk or k in oldk for k in GONE)
    nodup = len({k for k, _ in c["new"]}) == len(c["new"])
    new1, _ = computed_env(c)
    forced = all(k in new1 for k in c.get("forced", []))
    return "".join("1" if b else "0" for b in (claim, names, gone, nodup, forced))


def computed_env(c):
    """independent statement of what the shell must end up with: the environment eups computed, and the
    variables it removed but refuses to unset (unless the product is eups) kept"""
    new = dict(c["new"])
    if not c["fwd"] and c["product"] == "eups":
        for k in GONE:
            new.pop(k, None)
    exp = dict(new)
    if c["product"] != "eups":
        for k, v in c["old"]:
            if k in PROTECTED and k not in new:
                exp[k] = v
    return new, exp


def classify(c, k):
    old, new = dict(c["old"]), dict(c["new"])
    if k in new and k not in old:
        return "new-exported"
    if k in new and new[k] == "" and old.get(k) != "":
        return "emptied-exported-empty"
    if k in new and new[k] != old[k]:
        return "changed-exported"
    if k in new:
        return "untouched"
    if k in old:
        return "kept-protected" if (k in PROTECTED and c["product"] != "eups") else "removed-unset"
    return "nothing-else-changes"


def oracle(c, impl, shells):
    """None, or (kind, expected, observed, what)"""
    if c["kind"] == "failed":
        exp = dict(c["old"])
    else:
        new1, exp = computed_env(c)
        if impl["final"] != new1:
            return ("computed-env", new1, impl["final"], "os.environ after eups.app.setup is not the planted environment")
    for sh in sorted(shells):
        env, err = shells[sh]
        if env is None:
            return ("shell-error", exp, err[:300], "%s reports an error sourcing the emitted text" % sh)
        if env != exp:
            ks = sorted(k for k in set(env) | set(exp) if env.get(k) != exp.get(k))
            k = ks[0]
            kind = classify(c, k) if c["kind"] == "delta" else "failed-changes-nothing"
            return (kind, {k: exp.get(k)}, {k: env.get(k), "shell": sh},
                    "after sourcing in %s variable %s is %r, eups computed %r" % (sh, k, env.get(k), exp.get(k)))
    return None


# ------------------------------------------------------------------ driver

def shape_of(c):
    if c["kind"] == "text":
        return "text"
    if c["kind"] == "failed":
        return "failed"
    shapes = sorted({value_shape(v) for _, v in changed_items(c)}) or ["nochange"]
    old, new = dict(c["old"]), dict(c["new"])
    removed = [k for k in old if k not in new]
    return "%s/%s/%s%s%s%s%s" % (c["stream"], "eups" if c["product"] == "eups" else "prod",
                                 "fwd" if c["fwd"] else "rev", "/removed" if removed else "",
                                 "/alias" if c["aliases"] or c["oldaliases"] else "",
                                 "/force" if c.get("forced") else "",
                                 "/verbose>3" if c.get("verbose", 0) > 3 else "")


def compare(ctx, cases, scratch):
    lines = [to_line(c) for c in cases]
    mres = [model_result(c, l) for c, l in zip(cases, ctx.model(lines))]
    r = common.in_child(impl_batch, cases, scratch, timeout=600)
    if r[0] != "ok":
        raise RuntimeError("implementation driver failed: %r" % (r,))
    ires = r[1]
    # which cases go to the real shells, and with which text
    jobs, owners = [], []
    for n, (c, m, i) in enumerate(zip(cases, mres, ires)):
        if c["kind"] == "text":
            jobs.append((c["text"], c["old"]))
            owners.append(n)
        elif c["kind"] == "failed" or (c["stream"] == "claim" and c["shell"] == "sh" and "text" in i
                                       and in_claim(c) == "11111"):
            jobs.append((i["text"], c["old"]))
            owners.append(n)
    sres = dict(zip(owners, shells_batch(scratch, jobs)))
    for n, (c, m, i) in enumerate(zip(cases, mres, ires)):
        shells = sres.get(n)
        if c["kind"] == "text":
            ctx.count(1, key="text/" + ("ok" if "env" in m else m["err"]),
                      nontrivial=c["text"] if "env" in m and c["text"].strip() else None)
            if "env" in m:
                for sh, (env, err) in sorted(shells.items()):
                    if env != m["env"]:
                        ctx.disagree(c, m, {"shell": sh, "env": env, "stderr": err[:300]}, where="shell-spec")
                ctx.traces_validated += 1
            elif m["err"] == "BadTable":
                for sh, (env, err) in sorted(shells.items()):
                    if env is not None:
                        ctx.disagree(c, m, {"shell": sh, "env": env}, where="shell-spec: syntax error expected")
            continue
        # tie 1: the emitted text
        if "err" in m or "err" in i:
            ctx.count(1, key=shape_of(c) + "/raises", nontrivial=None)
            if m.get("err") != i.get("err"):
                ctx.disagree(c, m, i, where="emit")
            continue
        changed = changed_items(c) if c["kind"] == "delta" else []
        ctx.count(1, key=shape_of(c),
                  nontrivial=to_line(c) if (c["kind"] == "failed" or changed or len(c["new"]) != len(c["old"])) else None)
        if m["text"] != i["text"]:
            ctx.disagree(c, {"text": m["text"]}, {"text": i["text"]}, where="emit")
            continue
        if c["kind"] == "delta":
            flags = in_claim(c)
            if flags != m["flags"]:
                ctx.disagree(c, {"flags": m["flags"]}, {"flags": flags}, where="claim-predicate")
            _, exp = computed_env(c)
            if flags[1] == "1" and all(valid_name(k) for k, _ in c["old"]) and m["protect"] != exp:
                ctx.disagree(c, {"protect": m["protect"]}, {"computed_env": exp}, where="oracle-vs-coq-statement")
            if flags == "11111" and c["shell"] == "sh" and not c["aliases"] and not c["oldaliases"]:
                # what emit_sound says about the model
                if m["run"].get("env") != exp:
                    ctx.disagree(c, m["run"], {"computed_env": exp}, where="model-shell-on-model-text")
        if shells is None:
            continue
        # tie 2: the shell specification against the real shells (function definitions are outside it)
        if "env" in m["run"]:
            for sh, (env, err) in sorted(shells.items()):
                if env != m["run"]["env"]:
                    ctx.disagree(c, m["run"], {"shell": sh, "env": env, "stderr": err[:300]}, where="shell-spec")
            ctx.traces_validated += 1
        elif not (m["run"]["err"] == "Refused" and (c.get("aliases") or c.get("oldaliases"))):
            ctx.disagree(c, m["run"], {"note": "the model shell rejects an in-claim text"}, where="shell-spec")
        # tie 3: the oracle, on the implementation's text run by the real shells
        o = oracle(c, i, shells)
        if o is not None:
            ctx.fail(o[0], shrink(c, o[0], scratch), expected=o[1], observed=o[2], what=o[3])
    return mres, ires


def fails_same(c, kind, scratch):
    r = common.in_child(impl_batch, [c], scratch, timeout=120)
    if r[0] != "ok" or not r[1][0] or "text" not in r[1][0]:
        return False
    i = r[1][0]
    sh = shells_batch(scratch, [(i["text"], c["old"])])[0]
    o = oracle(c, i, sh)
    return o is not None and o[0] == kind


def shrink(c, kind, scratch):
    """drop variables and aliases one at a time while the same kind of failure remains"""
    if c["kind"] != "delta":
        return c
    cur = json.loads(json.dumps(c))
    cur.setdefault("forced", [])
    for _ in range(3):
        progress = False
        for field in ("aliases", "oldaliases", "forced", "old", "new"):
            i = 0
            while i < len(cur[field]):
                t = json.loads(json.dumps(cur))
                del t[field][i]
                if in_claim(t) == "11111" and fails_same(t, kind, scratch):
                    cur = t
                    progress = True
                else:
                    i += 1
        if not progress:
            break
    return cur


# ------------------------------------------------------------------ end to end: the real setup command

TABLE_A = ('envPrepend(PATH, ${PRODUCT_DIR}/bin)\n'
           'envAppend(MANPATH, ${PRODUCT_DIR}/man)\n'
           'envSet(A_EXTRA, "x y")\n'
           'addAlias(a_go, cd \\"${PRODUCT_DIR}\\")\n')
TABLE_B = ('setupRequired(a)\n'
           'envPrepend(LD_LIBRARY_PATH, ${PRODUCT_DIR}/lib)\n'
           'envSet(B_HOME, ${PRODUCT_DIR})\n')
TABLE_EUPS = ('envPrepend(PATH, ${PRODUCT_DIR}/bin)\n'
              'envPrepend(PYTHONPATH, ${PRODUCT_DIR}/python)\n'
              'envAppend(EUPS_PATH, ${PRODUCT_DIR}/extra)\n'
              'addAlias(setup, eval `\\"${PRODUCT_DIR}/bin/eups_setup\\" \\"$@\\"`)\n')
E2E_DIRS = ["my prods/a (v1);x", "p&q/<a>|b", "plain/a", "t\tab/a", "two  blanks/(a)", "semi;colon/a&b"]


def verbosity_flags(rng):
    """-v given 0 to 5 times, in the three spellings optparse accepts, and sometimes -q"""
    nv = rng.choice([0, 0, 1, 2, 3, 4, 4, 5])
    r = rng.random()
    flags = ["-v"] * nv if r < 0.5 else (["-" + "v" * nv] if nv and r < 0.8 else ["--verbose"] * nv)
    if rng.random() < 0.2:
        flags.insert(rng.randrange(len(flags) + 1), rng.choice(["-q", "--quiet"]))
    return flags


E2E_PRODUCTS = [("a", "1.0", "{d}", None), ("a", "2.0", "{d}-2", "envPrepend(PATH, ${PRODUCT_DIR}/bin)\n"),
                ("b", "1.1", "{d}/../b dir", None), ("eups", "9", "e ups", None)]


def e2e_products(d):
    tables = {"a": TABLE_A, "b": TABLE_B, "eups": TABLE_EUPS}
    return [{"name": n, "version": v, "dir": dd.replace("{d}", d), "table": t or tables[n]}
            for n, v, dd, t in E2E_PRODUCTS]


def e2e_scenarios(rng, n):
    out = []
    base = [
        [["a"], ["-u", "a"]],
        [["b"], ["-u", "b"]],
        [["a"], ["b"], ["-u", "a"], ["-u", "b"]],
        [["-r", "{dir:a}"], ["-u", "a"]],
        [["a"], ["-F", "a"], ["-u", "-F", "a"]],
        [["b"], ["-u", "-F", "b"]],
        [["nosuchproduct"], ["a"], ["-u", "nosuchproduct"]],
        [["-k", "b"], ["-j", "-u", "b"], ["-u", "a"]],
        [["eups"], ["a"], ["-u", "eups"]],
        [["a"], ["a", "2.0"], ["-u", "a"]],
    ]
    for i in range(n):
        steps = base[i % len(base)]
        if i >= len(base) or i % 2:
            # the same requests at some verbosity: what reaches standard output must not depend on it
            steps = [verbosity_flags(rng) + st for st in steps]
        d = E2E_DIRS[i % len(E2E_DIRS)] if i < len(E2E_DIRS) * 2 else rng.choice(E2E_DIRS)
        extra = {}
        if rng.random() < 0.5:
            extra["MANPATH"] = rng.choice(["/usr/share/man", "", "/m 1:/m;2"])
        if rng.random() < 0.5:
            extra["A_EXTRA"] = rng.choice(["preexisting", "x y"])
        if rng.random() < 0.4:
            extra["EUPS_DIR"] = "/opt/eups (sys)"
        out.append({"kind": "e2e", "stream": "e2e", "extra_env": extra, "steps": steps, "products": e2e_products(d)})
    return out


def verbosity_family():
    """setup then unsetup of a product with a dependency and a shell function, at every verbosity 0..5 and
    with -q (alone and together with -v -v -v -v): deterministic, every level on every run"""
    out = []
    levels = [(["-v"] * nv) for nv in range(6)] + [["-q"], ["-q", "-v", "-v", "-v", "-v"]]
    for i, fl in enumerate(levels):
        out.append({"kind": "e2e", "stream": "e2e", "extra_env": {"MANPATH": "/m 1:/m;2"},
                    "steps": [fl + ["b"], fl + ["-u", "b"]], "products": e2e_products(E2E_DIRS[i % len(E2E_DIRS)])})
    return out


def e2e_declare(env0, prods):
    """child: declare the products with the real Eups"""
    os.environ.clear()
    os.environ.update(env0)
    devnull = os.open(os.devnull, os.O_WRONLY)
    os.dup2(devnull, 2)
    eups = common.import_eups()
    E = eups.Eups()
    for name, version, d in prods:
        E.declare(name, version, productDir=d, tablefile=os.path.join(d, "ups", name + ".table"),
                  tag=("current" if version != "2.0" else None))
    return True


def capture_fds(fn):
    """child: run fn() with file descriptors 1 and 2 pointed at anonymous files; returns (result, stdout text,
    stderr text).  What the process writes to descriptor 1 - whoever writes it, through sys.stdout or not - is
    what the shell wrapper sources."""
    sys.stdout.flush()
    sys.stderr.flush()
    mem = {n: os.memfd_create("c05fd%d" % n) for n in (1, 2)}
    saved = {n: os.dup(n) for n in (1, 2)}
    for n in (1, 2):
        os.dup2(mem[n], n)
    try:
        res = fn()
    finally:
        sys.stdout.flush()
        sys.stderr.flush()
        for n in (1, 2):
            os.dup2(saved[n], n)
            os.close(saved[n])
    texts = []
    for n in (1, 2):
        os.lseek(mem[n], 0, os.SEEK_SET)
        with os.fdopen(mem[n], "rb") as f:
            texts.append(f.read().decode("utf-8", "surrogateescape"))
    return res, texts[0], texts[1]


def verbosity_of(args):
    """the number of -v / --verbose on a setup command line (the words before the product), and whether -q is"""
    nv, q = 0, False
    for a in args:
        if a == "--verbose":
            nv += 1
        elif a in ("-q", "--quiet"):
            q = True
        elif re.match(r"-v+\Z", a):
            nv += len(a) - 1
    return nv, q


def e2e_step(env0, args):
    """child: one invocation of the real setup command; its standard output and standard error are captured at
    the file-descriptor level; the new environment, the baseline and the alias tables are snapshotted by wrappers
    around Eups.setup and eups.setup (the code under test is not modified)"""
    os.environ.clear()
    os.environ.update(env0)
    eups = common.import_eups()
    import eups.setupcmd as sc
    snap = {}
    orig_method = eups.Eups.setup
    orig_fn = eups.setup

    def spy_method(self, *a, **k):
        r = orig_method(self, *a, **k)
        snap["new"] = list(os.environ.items())      # the outermost call returns last and overwrites
        return r

    def spy_fn(productName, *a, **k):
        cmds = orig_fn(productName, *a, **k)
        E = a[3] if len(a) > 3 else k.get("eupsenv")
        snap["product"] = productName
        snap["fwd"] = k.get("fwd", True)
        snap["failed"] = (cmds == ["false"])
        snap["cmds"] = list(cmds)
        snap["verbose"] = E.verbose
        snap["old"] = list(E.oldEnviron.items())
        snap["aliases"] = list(E.aliases.items())
        snap["oldaliases"] = list(E.oldAliases.items())
        snap["shell"] = E.shell
        return cmds

    eups.Eups.setup = spy_method
    eups.setup = spy_fn

    def call():
        try:
            return sc.EupsSetup(args=list(args)).run()
        except Exception as e:  # noqa   (bin/eups_setup prints the message and the word false)
            return "exc:" + type(e).__name__

    status, out, err = capture_fds(call)
    return {"status": status, "text": out, "stderr": err, "final": dict(os.environ), "snap": snap}


LOCKPID = "EUPS_LOCK_PID"       # bookkeeping of lock.py for child processes, set before oldEnviron is copied


def e2e_compare(ctx, cases, scratch):
    for n, c in enumerate(cases):
        root = os.path.join(scratch, "e2e%d" % n)
        stack = os.path.join(root, "stack")
        os.makedirs(os.path.join(stack, "ups_db"))
        os.makedirs(os.path.join(root, "ud", "ups_db"))
        dirs, prods = {}, []
        for p in c["products"]:
            d = os.path.normpath(os.path.join(root, "prods", p["dir"]))
            os.makedirs(os.path.join(d, "ups"), exist_ok=True)
            os.makedirs(os.path.join(d, "extra", "ups_db"), exist_ok=True)
            with open(os.path.join(d, "ups", p["name"] + ".table"), "w") as f:
                f.write(p["table"])
            dirs.setdefault(p["name"], d)
            prods.append((p["name"], p["version"], d))
        env = common.scrubbed_environ({"EUPS_PATH": stack, "EUPS_USERDATA": os.path.join(root, "ud"),
                                       "EUPS_FLAVOR": "Linux64"})
        env.update(c.get("extra_env", {}))
        r = common.in_child(e2e_declare, env, prods)
        if r[0] != "ok":
            raise RuntimeError("cannot declare the end-to-end products: %r" % (r,))
        for si, step in enumerate(c["steps"]):
            args = [re.sub(r"\{dir:(\w+)\}", lambda m: dirs[m.group(1)], a) for a in step]
            r = common.in_child(e2e_step, env, args)
            if r[0] != "ok":
                raise RuntimeError("end-to-end step failed: %r" % (r,))
            res = r[1]
            snap = res["snap"]
            sub = {"kind": "e2e", "stream": "e2e", "extra_env": c.get("extra_env", {}), "products": c["products"],
                   "steps": c["steps"][:si + 1]}
            nv, quiet = verbosity_of(step)
            label = "e2e/" + ("unsetup" if "-u" in step else "setup") + ("/force" if "-F" in step else "") + \
                    ("/local" if "-r" in step else "") + ("/eups" if "eups" in step else "") + \
                    ("/v%d" % min(nv, 5) if nv else "") + ("/q" if quiet else "")
            shells = shells_batch(scratch, [(res["text"], sorted(env.items()))])[0]
            if "product" not in snap or snap.get("failed"):
                # nothing was set up: the text is the word false (or empty when the command bailed out early)
                ctx.count(1, key=label + "/failed", nontrivial=json.dumps([c["products"][0]["dir"], c["steps"][:si + 1]]))
                if res["text"] not in ("false\n", "", "\n"):
                    ctx.disagree(sub, {"text": "false\n"}, {"text": res["text"]}, where="e2e-emit")
                for sh, (got, err) in sorted(shells.items()):
                    if got != env:
                        ctx.fail("failed-changes-nothing", sub, expected=None, observed={"shell": sh, "stderr": err[:200]},
                                 what="a failed %s changed the environment of %s" % (step, sh))
                continue
            # tie 1 on a real flow: the model emitter on the snapshotted baseline and new environment
            caller = dict(env)
            old = dict(snap["old"])
            if LOCKPID in old and LOCKPID not in caller:
                caller[LOCKPID] = old[LOCKPID]
            forced = [k for k in caller if k not in old]
            mc = {"kind": "delta", "stream": "e2e", "shell": snap["shell"], "product": snap["product"], "fwd": snap["fwd"],
                  "old": [[k, v] for k, v in caller.items()], "new": [list(kv) for kv in snap["new"]],
                  "aliases": [list(kv) for kv in snap["aliases"]], "oldaliases": [list(kv) for kv in snap["oldaliases"]],
                  "forced": forced}
            if dict(baseline(mc)) != old:
                ctx.disagree(sub, {"baseline": dict(baseline(mc))}, {"oldEnviron": old},
                             where="e2e: oldEnviron is not the caller's environment minus forgotten names")
            mlines = ctx.model([to_line(mc), "\t".join(["front", str(nv), "1" if quiet else "0",
                                                        common.enc_list(",", snap["cmds"])])])
            m = model_result(mc, mlines[0])
            ctx.count(1, key=label, nontrivial=json.dumps([c["products"][0]["dir"], c.get("extra_env"), c["steps"][:si + 1]]))
            if "err" in m or m["text"] != res["text"]:
                ctx.disagree(sub, m, {"text": res["text"]}, where="e2e-emit")
            # the front end: standard output is the rendered return value of eups.setup at every verbosity; the
            # listing goes to standard error, above verbosity 3 only
            ff = mlines[1].split("\t") + ["", ""]
            if ff[0] != "ok":
                ctx.disagree(sub, {"front": mlines[1]}, {}, where="e2e-front-end")
            else:
                want_out = dec(ff[1])
                want_lst = dec(ff[2][1:]) if ff[2].startswith("L") else None
                eff = 0 if quiet else nv
                if snap.get("verbose") != eff:
                    ctx.disagree(sub, {"verbose": eff}, {"verbose": snap.get("verbose")}, where="e2e-front-end: Eups.verbose")
                if want_out != res["text"]:
                    ctx.disagree(sub, {"stdout": want_out}, {"stdout": res["text"]},
                                 where="e2e-front-end: standard output is not the joined command list")
                if (want_lst is not None and not res["stderr"].endswith(want_lst)) or \
                        (want_lst is None and "Issuing commands:" in res["stderr"]):
                    ctx.disagree(sub, {"listing": want_lst}, {"stderr-tail": res["stderr"][-600:]},
                                 where="e2e-front-end: listing on standard error")
            # tie 3, the property itself: the shell starts from the caller's environment and must end with what
            # eups computed (lock bookkeeping aside); names and changed values must be in the claim
            final = {k: v for k, v in res["final"].items() if k != LOCKPID}
            exp = dict(final)
            if snap["product"] != "eups":
                for k in PROTECTED:
                    if k in env and k not in final:
                        exp[k] = env[k]
            inside = all(valid_name(k) for k in list(env) + list(final)) and \
                all(set(v) <= CLAIM for k, v in final.items() if env.get(k) != v)
            if not inside:
                ctx.bump("e2e/outside-claim")
                env = final
                continue
            bad = None
            for sh, (got, err) in sorted(shells.items()):
                if got is None:
                    bad = ("shell-error", None, err[:300], "%s reports an error sourcing the text of %s" % (sh, step))
                elif got != exp:
                    k = sorted(k for k in set(got) | set(exp) if got.get(k) != exp.get(k))[0]
                    kc = {"old": list(env.items()), "new": list(final.items()), "product": snap["product"]}
                    bad = (classify(kc, k), {k: exp.get(k)}, {k: got.get(k), "shell": sh},
                           "after sourcing the output of `%s %s` in %s variable %s is %r, eups computed %r" % (
                               "setup", " ".join(step), sh, k, got.get(k), exp.get(k)))
                if bad:
                    break
            if bad:
                ctx.fail(bad[0], sub, expected=bad[1], observed=bad[2], what=bad[3])
                break
            ctx.traces_validated += 1
            env = shells["dash"][0]
        shutil.rmtree(root, ignore_errors=True)


# ------------------------------------------------------------------ the python interface, several calls per process

TABLE_C = ('envPrepend(C_PATH, ${PRODUCT_DIR}/lib)\n'
           'envSet(C_OPTS, -x <none>)\n')
TABLE_D = ('setupRequired(c)\n'
           'envPrepend(C_PATH, ${PRODUCT_DIR}/lib)\n'
           'envSet(D_MODE, fast)\n')
API_CALLS = [["setup", ["a"], {}], ["setup", ["a", "1.0"], {}], ["setup", ["a", "2.0"], {}], ["setup", ["b"], {}],
             ["setup", ["c"], {}], ["setup", ["d"], {}], ["setup", ["c", "3"], {}],
             ["unsetup", ["a"], {}], ["unsetup", ["b"], {}], ["unsetup", ["c"], {}], ["unsetup", ["d"], {}],
             ["setup", ["d"], {"fwd": False}], ["setup", ["a"], {"productRoot": "{dir:a}"}],
             ["setup", ["nosuchproduct"], {}], ["unsetup", ["nosuchproduct"], {}], ["setup", ["eups"], {}],
             ["unsetup", ["eups"], {}]]
API_BASE = [
    [["setup", ["c", "3"], {}], ["unsetup", ["c"], {}]],
    [["setup", ["d"], {}], ["unsetup", ["d"], {}], ["setup", ["d"], {}], ["unsetup", ["c"], {}]],
    [["setup", ["b"], {}], ["unsetup", ["a"], {}], ["unsetup", ["b"], {}]],
    [["setup", ["a"], {}], ["setup", ["a", "2.0"], {}], ["unsetup", ["a"], {}]],
    [["setup", ["c"], {}], ["setup", ["nosuchproduct"], {}], ["setup", ["d"], {"fwd": False}]],
    [["setup", ["a"], {"productRoot": "{dir:a}"}], ["setup", ["d"], {}], ["unsetup", ["a"], {}], ["unsetup", ["d"], {}]],
    [["setup", ["d"], {}], ["setup", ["eups"], {}], ["unsetup", ["d"], {}], ["unsetup", ["eups"], {}]],
]


def api_scenarios(rng, n):
    """sequences of eups.setup / eups.unsetup calls made by ONE process through the python interface without an
    Eups object of the caller's: every call must compute its delta against the environment at that call"""
    out = []
    for i in range(n):
        if i < len(API_BASE):
            calls = API_BASE[i]
        else:
            # mostly meaningful requests: unsetup of something an earlier call set up (itself or as a dependency)
            calls, up = [], []
            deps = {"b": ["a"], "d": ["c"]}
            for _ in range(rng.choice([2, 3, 3, 4, 5])):
                r = rng.random()
                if r < 0.12:
                    call = rng.choice(API_CALLS)
                elif up and r < 0.55:
                    nm = rng.choice(up)
                    call = rng.choice([["unsetup", [nm], {}], ["unsetup", [nm], {}], ["setup", [nm], {"fwd": False}]])
                else:
                    call = rng.choice([x for x in API_CALLS if x[0] == "setup" and x[2].get("fwd", True)
                                       and x[1][0] != "nosuchproduct"])
                calls.append(call)
                nm = call[1][0]
                if call[0] == "setup" and call[2].get("fwd", True):
                    up += [x for x in [nm] + deps.get(nm, []) if x not in up and x != "nosuchproduct"]
                else:
                    up = [x for x in up if x != nm and x not in deps.get(nm, [])]
        d = E2E_DIRS[i % len(E2E_DIRS)] if i < len(E2E_DIRS) else rng.choice(E2E_DIRS)
        extra = {}
        if rng.random() < 0.4:
            extra["C_PATH"] = rng.choice(["/usr/lib/c", "", "/c 1:/c;2"])
        if rng.random() < 0.3:
            extra["C_OPTS"] = rng.choice(["preexisting", "-x <none>"])
        if rng.random() < 0.3:
            extra["EUPS_DIR"] = "/opt/eups (sys)"
        prods = e2e_products(d) + [{"name": "c", "version": "3", "dir": d + "/../c (lib)", "table": TABLE_C},
                                   {"name": "d", "version": "0.4", "dir": d + "/../d&d", "table": TABLE_D}]
        out.append({"kind": "api", "stream": "api", "extra_env": extra, "calls": calls, "products": prods})
    return out


def api_child(env0, calls):
    """child: the calls, one after the other, in this one process; for each the environment before, the returned
    commands, the environment after, and (read off the Eups object the call made for itself, caught by a wrapper
    around Eups.setup) the baseline and the alias tables"""
    os.environ.clear()
    os.environ.update(env0)
    eups = common.import_eups()
    snap = {}
    orig_method = eups.Eups.setup

    def spy_method(self, *a, **k):
        r = orig_method(self, *a, **k)
        snap["new"] = list(os.environ.items())      # the outermost call returns last and overwrites
        snap["E"] = self
        return r

    eups.Eups.setup = spy_method
    out = []
    for fn, args, kw in calls:
        snap.clear()
        before = dict(os.environ)

        def call():
            try:
                return list(getattr(eups, fn)(*args, **kw))
            except Exception as e:  # noqa
                return "exc:" + type(e).__name__ + ":" + str(e)[:200]

        cmds, sout, _ = capture_fds(call)
        rec = {"before": before, "cmds": cmds, "stdout": sout, "after": dict(os.environ)}
        if "E" in snap:
            E = snap["E"]
            rec.update(new=snap["new"], old=list(E.oldEnviron.items()), aliases=list(E.aliases.items()),
                       oldaliases=list(E.oldAliases.items()), shell=E.shell)
        out.append(rec)
        if not isinstance(cmds, list):
            break
    return out


def api_world(c, scratch, tag):
    root = os.path.join(scratch, tag)
    stack = os.path.join(root, "stack")
    os.makedirs(os.path.join(stack, "ups_db"))
    os.makedirs(os.path.join(root, "ud", "ups_db"))
    dirs, prods = {}, []
    for p in c["products"]:
        d = os.path.normpath(os.path.join(root, "prods", p["dir"]))
        os.makedirs(os.path.join(d, "ups"), exist_ok=True)
        os.makedirs(os.path.join(d, "extra", "ups_db"), exist_ok=True)
        with open(os.path.join(d, "ups", p["name"] + ".table"), "w") as f:
            f.write(p["table"])
        dirs.setdefault(p["name"], d)
        prods.append((p["name"], p["version"], d))
    env = common.scrubbed_environ({"EUPS_PATH": stack, "EUPS_USERDATA": os.path.join(root, "ud"),
                                   "EUPS_FLAVOR": "Linux64"})
    env.update(c.get("extra_env", {}))
    r = common.in_child(e2e_declare, env, prods)
    if r[0] != "ok":
        raise RuntimeError("cannot declare the products: %r" % (r,))
    return root, env, dirs


def api_run(c, scratch, tag):
    """declare the products of the scenario, make the calls in one child; returns (records, calls as made)"""
    root, env, dirs = api_world(c, scratch, tag)
    try:
        def subst(x):
            return re.sub(r"\{dir:(\w+)\}", lambda m: dirs[m.group(1)], x) if isinstance(x, str) else x
        calls = [[fn, [subst(a) for a in args], {k: subst(v) for k, v in kw.items()}] for fn, args, kw in c["calls"]]
        r = common.in_child(api_child, env, calls)
        if r[0] != "ok":
            raise RuntimeError("python-interface session failed: %r" % (r,))
        return r[1], calls
    finally:
        shutil.rmtree(root, ignore_errors=True)


def api_text(cmds):
    """what a script that sources the returned commands evaluates (the way setupcmd.py joins them)"""
    return ";\n".join(cmds) + "\n"


def api_oracle(c, recs, scratch):
    """the property, call by call: the shell starts from the environment the process had at the call and must
    end with the environment the process has after it.  Returns (index of the first failing call, kind, expected,
    observed, what) or None; and the shells' results"""
    jobs, idx = [], []
    for i, rec in enumerate(recs):
        if isinstance(rec["cmds"], list):
            jobs.append((api_text(rec["cmds"]), sorted(rec["before"].items())))
            idx.append(i)
    sres = dict(zip(idx, shells_batch(scratch, jobs)))
    for i, rec in enumerate(recs):
        if i not in sres:
            continue
        fn, args, kw = c["calls"][i]
        before, after = rec["before"], rec["after"]
        failed = rec["cmds"] == ["false"]
        exp = dict(before) if failed else dict(after)
        if not failed and args[0] != "eups":
            for k in PROTECTED:
                if k in before and k not in after:
                    exp[k] = before[k]
        inside = all(valid_name(k) for k in list(before) + list(after)) and \
            (failed or all(set(v) <= CLAIM for k, v in after.items() if before.get(k) != v))
        if not inside:
            continue
        call = "eups.%s(%s)" % (fn, ", ".join([repr(a) for a in args] + ["%s=%r" % kv for kv in sorted(kw.items())]))
        for sh, (got, err) in sorted(sres[i].items()):
            if got is None:
                return (i, "shell-error", None, err[:300], "%s reports an error sourcing the commands of call %d, %s" % (sh, i + 1, call)), sres
            if got != exp:
                k = sorted(k for k in set(got) | set(exp) if got.get(k) != exp.get(k))[0]
                kc = {"old": list(before.items()), "new": list(after.items()), "product": args[0]}
                kind = "failed-changes-nothing" if failed else classify(kc, k)
                return (i, kind, {k: exp.get(k)}, {k: got.get(k), "shell": sh},
                        "after sourcing in %s the commands returned by call %d, %s, of one python process, variable %s "
                        "is %r; eups computed %r" % (sh, i + 1, call, k, got.get(k), exp.get(k))), sres
    return None, sres


def api_shrink(c, bad, scratch):
    """keep the calls up to the failing one; drop earlier calls while the last one still fails the same way;
    returns the smaller scenario and the oracle's verdict on it"""
    cur = dict(c, calls=c["calls"][:bad[0] + 1])
    i = 0
    while i < len(cur["calls"]) - 1:
        t = dict(cur, calls=cur["calls"][:i] + cur["calls"][i + 1:])
        try:
            recs, _ = api_run(t, scratch, "shrink")
            b, _ = api_oracle(t, recs, scratch)
        except RuntimeError:
            b = None
        if b is not None and b[0] == len(t["calls"]) - 1 and b[1] == bad[1]:
            cur, bad = t, b
        else:
            i += 1
    return cur, bad


def api_delta(call, rec):
    """the call as a case of the emitter: the environment at the call, the one the call computed, the alias tables"""
    fn, args, kw = call
    before, old = rec["before"], dict(rec["old"])
    return {"kind": "delta", "stream": "api", "shell": rec["shell"], "product": args[0],
            "fwd": (fn == "setup" and kw.get("fwd", True)),
            "old": [[k, v] for k, v in before.items()], "new": [list(kv) for kv in rec["new"]],
            "aliases": [list(kv) for kv in rec["aliases"]], "oldaliases": [list(kv) for kv in rec["oldaliases"]],
            "forced": [k for k in before if k not in old]}


def api_compare(ctx, cases, scratch):
    for n, c in enumerate(cases):
        recs, calls = api_run(c, scratch, "api%d" % n)
        bad, sres = api_oracle(c, recs, scratch)
        session, texts, plain = [], [], True
        mcs = {i: api_delta(c["calls"][i], rec) for i, rec in enumerate(recs)
               if isinstance(rec["cmds"], list) and rec["cmds"] != ["false"] and "new" in rec}
        order = sorted(mcs)
        mres = dict(zip(order, [model_result(mcs[i], o) for i, o in
                                zip(order, ctx.model([to_line(mcs[i]) for i in order]))]))
        for i, rec in enumerate(recs):
            fn, args, kw = c["calls"][i]
            sub = dict(c, calls=c["calls"][:i + 1])
            fwd = (fn == "setup" and kw.get("fwd", True))
            label = "api/call%d/%s" % (min(i + 1, 4), "setup" if fwd else "unsetup") + \
                    ("/local" if "productRoot" in kw else "") + ("/eups" if args[0] == "eups" else "")
            key = json.dumps([c["products"][0]["dir"], c.get("extra_env"), c["calls"][:i + 1]], sort_keys=True)
            if not isinstance(rec["cmds"], list):
                ctx.count(1, key=label + "/raises", nontrivial=None)
                plain = False
                break
            if rec["cmds"] == ["false"] or "new" not in rec:
                ctx.count(1, key=label + "/failed", nontrivial=key)
                if rec["cmds"] != ["false"]:
                    ctx.disagree(sub, {"cmds": ["false"]}, {"cmds": rec["cmds"]}, where="api-emit")
                session.append(["f", enc_env(list(rec["after"].items())), "", ""])
                texts.append(api_text(rec["cmds"]))
                continue
            # tie 1: the model emitter on the environment at the call and the one the call computed
            before, old = rec["before"], dict(rec["old"])
            mc = mcs[i]
            if old != before:
                ctx.disagree(sub, {"baseline": before}, {"oldEnviron": old},
                             where="api: Eups.oldEnviron of call %d is not the environment of the process at the call" % (i + 1))
            m = mres[i]
            ctx.count(1, key=label + ("/later" if i else ""), nontrivial=key)
            if "err" in m or m["text"] != api_text(rec["cmds"]):
                ctx.disagree(sub, m, {"text": api_text(rec["cmds"])}, where="api-emit")
            session.append(["c%d%d" % (args[0] == "eups", fwd), enc_env(rec["new"]), enc_env(rec["aliases"]),
                            enc_oldal(rec["oldaliases"])])
            texts.append(api_text(rec["cmds"]))
        if session:
            # the session model: baselines chained by the model itself, from the start environment only
            start = list(recs[0]["before"].items())     # in the order of the process: the unset commands follow it
            line = "\t".join(["session", enc_env(start)] + [x for call in session for x in call])
            f = ctx.model([line])[0].split("\t") + [""] * 6
            if f[0] != "ok":
                if not (f[0] == "err" and any(not isinstance(r["cmds"], list) for r in recs)):
                    ctx.disagree(c, {"session": f[:2]}, {"texts": texts}, where="api-session")
            else:
                mtexts = common.dec_list(",", f[1])
                if mtexts != texts:
                    j = [k for k in range(min(len(mtexts), len(texts))) if mtexts[k] != texts[k]]
                    ctx.disagree(dict(c, calls=c["calls"][:(j[0] + 1 if j else len(texts))]),
                                 {"text": mtexts[j[0]] if j else mtexts}, {"text": texts[j[0]] if j else texts},
                                 where="api-session: text of call %s against the model's chained baseline" % (j[0] + 1 if j else "?"))
                elif f[4] == "ok":
                    # one shell sourcing all the texts in turn, against the model shell doing the same
                    chain = shells_batch(scratch, [("".join(texts), start)])[0]
                    want = dict(dec_env(f[5]))
                    for sh, (got, err) in sorted(chain.items()):
                        if got != want:
                            ctx.disagree(c, {"chain": want}, {"shell": sh, "env": got, "stderr": err[:300]}, where="api-session: shell-spec on the chain")
                    if f[2] == "11" and want != dict(dec_env(f[3])):
                        ctx.disagree(c, {"chain": want}, {"session_final": dict(dec_env(f[3]))}, where="api-session: api_session_chained")
                    ctx.bump("api/session-chained" + ("/in-claim+keeps" if f[2] == "11" else ""))
                    ctx.traces_validated += 1
        if bad is not None:
            small, bad = api_shrink(c, bad, scratch)
            ctx.fail(bad[1], small, expected=bad[2], observed=bad[3], what=bad[4])
        else:
            ctx.traces_validated += len(sres)


def slow_size(ctx, quick, thorough):
    """sizes of the streams that fork a process per step: at most doubled by the enlarged search of main.py"""
    return thorough if ctx.tier == "thorough" else quick * min(ctx.scale, 2)


def run_api(ctx, scratch):
    api_compare(ctx, api_scenarios(ctx.rng, slow_size(ctx, 14, 150)), scratch)


def run_e2e(ctx, scratch):
    e2e_compare(ctx, verbosity_family() + e2e_scenarios(ctx.rng, slow_size(ctx, 12, 140)), scratch)


def corpus_cases():
    d = os.path.join(common.ROOT, "corpus", "C05")
    out = []
    if os.path.isdir(d):
        for f in sorted(os.listdir(d)):
            if f.endswith(".json"):
                out.append(json.load(open(os.path.join(d, f)))["input"])
    return out


def setup_ctx(ctx):
    ctx.rule = ("random environment deltas (2-10 old variables from a pool of 22 names incl. the four protected EUPS_* "
                "ones; each kept / changed / emptied / removed, 0-4 new ones, optional reordering, product eups or not, "
                "setup or unsetup, optional aliases), changed values drawn from path-like text, blank, tab, newline and "
                "< > | & ; ( ) (plus a deterministic sweep of each of these characters alone, first, last and inside); "
                "a second stream with quotes, $, backquote, backslash, globs, other whitespace, odd names and zsh only "
                "checks that model and code emit the same text; a third stream draws texts from the shell fragment's "
                "grammar (and syntax errors) to check sh_lex/sh_run against dash and bash; a fourth runs the real "
                "EupsSetup command on real stacks. non-trivial = at least one variable changed, new or removed (delta), "
                "a non-blank accepted text (fragment); distinct = distinct encoded case")
    ctx.trusted_base = common.COMMON_TRUSTED + [
        "modelled, not verified: python re (\\s on code points below 128, the looks-quoted regex, the protected-name "
        "regex), dict iteration order = insertion order, %-formatting of str",
        "the shell specification sh_lex/sh_run (word splitting at blanks, single-quote removal, ; and newline, "
        "export N=W, unset N, false) is an assumption about dash and bash, tested by tie 2 on every run, not verified",
        "/usr/bin/env -i / env -0 and subprocess to start the shells and read the environment back"]
    ctx.assumptions = [
        "values of changed/new variables lie in the claim alphabet [A-Za-z0-9/._:+,=@%-], blank, tab, newline, < > | & ; ( )",
        "variable names are identifiers [A-Za-z_][A-Za-z0-9_]*; the new environment is a dict (no duplicate names)",
        "unsetup of product eups: EUPS_PATH, EUPS_PKGROOT, EUPS_SHELL are not introduced by the unsetup itself (gone_ok)",
        "the text is evaluated as a script (sourced, or eval of the quoted text), not word-split first",
        "alias names are not names of environment variables; function bodies are not executed by the specification",
        "the shell's start environment is Eups.oldEnviron (the caller's environment after setEupsPath normalised EUPS_PATH); "
        "python interface: the caller's environment of a call is os.environ of the process at that call, and an Eups object "
        "passed in by the caller (eupsenv=) carries the caller's own baseline - sessions sharing one such object are not run",
        "ASCII values; csh, --noaction (echo) and --force (oldEnviron edited by the table actions) are not modelled"]


def run(ctx):
    setup_ctx(ctx)
    ctx.check_theorems()
    if ctx.tier == "thorough":
        ctx.coqchk(["Eupsv.Props.C05"])
    scratch = common.scratch_dir()
    try:
        corpus = corpus_cases()
        e2e_compare(ctx, [c for c in corpus if c.get("kind") == "e2e"], scratch)      # corpus first
        api_compare(ctx, [c for c in corpus if c.get("kind") == "api"], scratch)
        corpus = [c for c in corpus if c.get("kind") not in ("e2e", "api")]
        cases = corpus + sweep_cases()
        cases.append({"kind": "failed", "stream": "claim", "old": [["PATH", "/usr/bin"], ["A", "x y"]]})
        n = ctx.size(1500, 20000)
        for _ in range(n):
            cases.append(gen_delta(ctx.rng, "claim"))
        for _ in range(ctx.size(700, 8000)):
            cases.append(gen_delta(ctx.rng, "outside"))
        for _ in range(ctx.size(700, 8000)):
            cases.append(gen_text(ctx.rng))
        for _ in range(ctx.size(5, 50)):
            cases.append({"kind": "failed", "stream": "claim", "old": gen_delta(ctx.rng, "claim")["old"]})
        for c in cases[len(corpus) + 45:][:3]:
            ctx.sample(c)
        for i in range(0, len(cases), 4000):
            compare(ctx, cases[i:i + 4000], scratch)
        run_e2e(ctx, scratch)
        run_api(ctx, scratch)
    finally:
        shutil.rmtree(scratch, ignore_errors=True)


def replay(ctx, path):
    setup_ctx(ctx)
    obj = json.load(open(path))
    c = obj["input"]
    scratch = common.scratch_dir()
    try:
        if c.get("kind") == "e2e":
            e2e_compare(ctx, [c], scratch)
        elif c.get("kind") == "api":
            api_compare(ctx, [c], scratch)
        else:
            compare(ctx, [c], scratch)
    finally:
        shutil.rmtree(scratch, ignore_errors=True)
    bad = [f for f in ctx.failures if not ctx._known(f)] or ctx.disagreements
    print("replay %s: %s" % (path, "still fails" if bad else "passes"))
    return 1 if bad else 0
