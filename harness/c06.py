"""C06 - the database reflects exactly the history of declare / undeclare / tag operations.

Model: coq/Model/Db.v + coq/Model/DbExt.v (table text, interned tables and external files, target stack)
Theorems: coq/Props/C06.v
Implementation: Eups.declare / assignTag / unassignTag / undeclare / remove of the real code on two scratch
stacks; after every operation a fresh reader (Eups(readCache=False), Database.findProducts,
Database.getTagAssignments, os.listdir of every ups_db) lists what the files say.

A case is one history:
  {"flavors": [f1, f2], "mode": "fork" | "proc" | "inst", "ops": [op, ...]}
  op = {"k": "D", "f": flavor, "s": None|"s1"|"s2", "F": force, "N": noaction, "n": product, "v": version,
        "d": None|"A"|"B" (directory outside the stacks) | "H1"|"H2" (directory inside the first / second stack)
             | "P1"|"P2" (directory BESIDE the first / second stack, whose path begins with the characters of the
               stack's own path: <stack>-extras/..., <stack>_b/...),
        "tb": None (default table) | "alt" (other path, other text) | "same" (other path, same text as the default
              table of that directory) | "fix" (a path that does not depend on the directory) | "sib" / "sib2" (a
              table file in a directory BESIDE the product directory whose path begins with the characters of the
              product directory's own path: <dir>0/ups/<n>.table, <dir>-tables/<n>.table) | "none" (tablefile
              none) | "stream" (an open file with text variant "tx": interned),
        "L": None | [[source variant, path below the extra directory], ...] (external files), "t": None|tag}
       "A" assignTag(t, n, v)   "U" unassignTag(t, n, v|None)   "X" undeclare(n, v|None)
       "T" undeclare(n, v|None, tag=t, undeclareVersionAndTag=both)   "R" remove(n, v)
"stacks": the names of the two stacks on EUPS_PATH when they are not s1, s2 (names that are prefixes of each other);
a tag outside TAGS (UNKNOWN_TAGS) is a tag the installation does not recognise.
"ro": stacks that are read-only (directory and ups_db mode 0555; the whole history then runs under uid nobody,
every operation in a forked child), "fam": label of the generator family (histogram only).
mode: fork = every operation in its own forked child with a new Eups; proc = one process, a new Eups per
operation; inst = one process, one Eups instance per flavor serving several operations.
"""
import json
import multiprocessing
import os
import shutil
import sys

import common
from common import enc

STACKS = ["s1", "s2"]
NAMES = ["a", "b", "c"]
VERSIONS = ["1.0", "2.0", "3.0"]
TAGS = ["current", "stable", "beta"]
DIRVARS = ["A", "B"]
FLAVOR_PAIRS = [["Linux64", "Darwin"], ["Linux64", "Darwin"], ["Linux64", "generic"]]
ALLFLAVORS = ["Linux64", "Darwin", "generic"]
MODES = ["fork", "proc", "inst"]


# ------------------------------------------------------------------ canonical names

DIRVARS_ALL = ["A", "B", "H1", "H2", "P1", "P2"]
HOME = {"H1": "s1", "H2": "s2"}
HOME_IDX = {"H1": 0, "H2": 1}
SIBLING = {"P1": (0, "-extras"), "P2": (1, "_b")}   # beside the stack: its path plus characters other than a slash
UNKNOWN_TAGS = ["stabel", "nightly"]               # not registered with the installation
# names of the two stacks: the usual ones, and names one of which is a prefix of the other
STACK_SETS = [["s1", "s12"], ["s12", "s1"], ["s2x", "s2"]]
CUR = list(STACKS)                                  # the stacks of the history being generated / run / judged


def use_stacks(case=None):
    """the stack names of this history (every entry point of a history calls this first)"""
    CUR[:] = (case or {}).get("stacks") or STACKS
    return CUR

STREAMS = {"t1": "# stream one\nsetupOptional(zzz)\n", "t2": "# stream two\n", "t3": "# no newline\n# at the end"}
EXTRAS = {"x1": "extra one\n", "x2": "extra two\n"}
NOBODY = 65534


def cdir(n, v, d):
    """canonical (root-independent) product directory"""
    if d in HOME_IDX:
        return "/%s/prod/%s-%s-H" % (CUR[HOME_IDX[d]], n, v)
    if d in SIBLING:
        return "/%s%s/prod/%s-%s-P" % (CUR[SIBLING[d][0]], SIBLING[d][1], n, v)
    return "/prod/%s-%s-%s" % (n, v, d)


def dvar_of(path):
    """the directory variant a canonical product directory was made from"""
    for d in DIRVARS_ALL:
        if path.endswith("-" + d[0]) and cdir("n", "v", d).rsplit("/", 1)[0] == path.rsplit("/", 1)[0]:
            return d
    return path.rsplit("-", 1)[1]


# table files beside the product directory: its path plus characters other than a slash, then the rest
SIBTABLE = {"sib": "0/ups/%s.table", "sib2": "-tables/%s.table"}
TABLE_IN_DIR = (None, "alt", "same", "sib", "sib2")       # table paths that are made from the product directory


def ctable(n, v, d, tb):
    if tb == "fix":
        return "/prod/tables/%s-%s.table" % (n, v)
    if tb in SIBTABLE:
        return cdir(n, v, d) + SIBTABLE[tb] % n
    return cdir(n, v, d) + "/ups/" + ({"alt": "alt.table", "same": "same.table"}.get(tb) or n + ".table")


def csrc(x):
    return "/prod/extra/%s.txt" % x


def ctext(n, v, d, tb):
    """text of the static table files: distinct per path, except that same.table repeats the default table"""
    return "# table %s\n" % ctable(n, v, d, None if tb == "same" else tb)


def table_request(o):
    """-> (kind, canonical argument) of the table argument of a declaration: d default, p path, n none, s stream"""
    tb = o.get("tb")
    if tb == "none":
        return "n", None
    if tb == "stream":
        return "s", STREAMS[o.get("tx") or "t1"]
    if tb == "fix":
        return "p", ctable(o["n"], o["v"], None, "fix")
    if tb in ("alt", "same", "sib", "sib2") and o["d"]:
        return "p", ctable(o["n"], o["v"], o["d"], tb)
    return "d", None


def static_texts(case):
    """the files outside the databases that the history can name: canonical path -> text"""
    out = {}
    for o in case["ops"]:
        if o["k"] != "D":
            continue
        for d in DIRVARS_ALL:
            for tb in TABLE_IN_DIR:
                out[ctable(o["n"], o["v"], d, tb)] = ctext(o["n"], o["v"], d, tb)
        out[ctable(o["n"], o["v"], None, "fix")] = ctext(o["n"], o["v"], None, "fix")
    for x, t in EXTRAS.items():
        out[csrc(x)] = t
    return out


def intern(text):
    """what Eups.declare writes for a table given as a stream: print(line, end=' ') per line"""
    return "".join(l + " " for l in text.splitlines(True))


def extra_dir(s, f, n, v):
    return "/%s/ups_db/%s/%s/%s" % (s, f, n, v)


# ------------------------------------------------------------------ generator

def gen_history(rng, length, flavors=None, mode=None, bias=None, ro=None, fam="rand", stacks=None):
    """a random history; the specification below is run alongside so that about 70 % of the operations are valid
    for the state they meet (the rest name products, versions or tags that are not there)"""
    flavors = flavors or rng.choice(FLAVOR_PAIRS)
    mode = mode or rng.choice(MODES)
    bias = bias or {}
    p_tb, p_home, p_L = bias.get("tb", 0.10), bias.get("home", 0.08), bias.get("L", 0.04)
    p_sib, p_unk = bias.get("sib", 0.05), bias.get("unk", 0.04)
    p_tplace = bias.get("tplace", 0.0)
    use_stacks({"stacks": stacks})
    S1, S2 = CUR
    decls, tags = {}, {}
    ops = []
    for _ in range(length):
        f = rng.choice(flavors)
        s = rng.choice([None, None, S1, S2])
        o = {"f": f, "s": s, "F": rng.random() < 0.12, "N": rng.random() < 0.06}
        known = [k for k in decls if k[3] == f and (s is None or k[0] == s)]
        tk = [k for k in tags if k[3] == f and (s is None or k[0] == s)]
        aim = rng.random() < 0.85
        r = rng.random()
        if r < 0.40 or not decls:
            o["k"] = "D"
            if aim and known and rng.random() < 0.4:             # redeclare something that exists
                k = rng.choice(known)
                o["n"], o["v"] = k[1], k[2]
                same = dvar_of(decls[k][0])
                o["d"] = rng.choice([same, same, "A", "B", None])
                o["t"] = rng.choice([None, "current", "stable", "beta"]) if o["d"] else rng.choice(TAGS)
            else:
                o["n"], o["v"] = rng.choice(NAMES), rng.choice(VERSIONS)
                o["d"] = rng.choice(["A", "A", "A", "A", "B", None])
                o["t"] = rng.choice([None, None, "current", "stable", "beta"])
            o["tb"] = "alt" if (o["d"] and rng.random() < 0.12) else None
            if o["d"] and rng.random() < p_home:
                o["d"] = rng.choice(["H1", "H2", "H2"])
            if o["d"] and rng.random() < p_sib:
                o["d"] = rng.choice(["P1", "P2"])
            if rng.random() < p_tb:
                o["tb"] = rng.choice(["same", "fix", "none", "stream", "stream"])
                if o["tb"] == "stream":
                    o["tx"] = rng.choice(["t1", "t1", "t2", "t3"])
            if o["d"] and p_tplace and rng.random() < p_tplace:
                o["tb"] = rng.choice(["sib", "sib2", "sib", "alt", "fix"])     # an explicit absolute table file
            if rng.random() < p_L:
                o["L"] = [[rng.choice(["x1", "x2"]), rng.choice(["etc/x.txt", "doc/y.txt"])]]
        elif r < 0.53:
            o["k"] = "A"
            o["t"] = rng.choice(TAGS)
            if aim and known:
                k = rng.choice(known)
                o["n"], o["v"] = k[1], k[2]
            else:
                o["n"], o["v"] = rng.choice(NAMES), rng.choice(VERSIONS)
        elif r < 0.65:
            o["k"] = "U"
            if aim and tk:
                k = rng.choice(tk)
                o["t"], o["n"] = k[2], k[1]
                o["v"] = rng.choice([None, tags[k], tags[k]])
            elif aim and known:
                k = rng.choice(known)
                o["t"], o["n"], o["v"] = rng.choice(TAGS), k[1], k[2]
            else:
                o["t"], o["n"], o["v"] = rng.choice(TAGS), rng.choice(NAMES), rng.choice([None] + VERSIONS)
        elif r < 0.81:
            o["k"] = "X"
            if aim and known:
                k = rng.choice(known)
                o["n"], o["v"] = k[1], rng.choice([k[2], k[2], k[2], None])
            else:
                o["n"], o["v"] = rng.choice(NAMES), rng.choice([None] + VERSIONS)
        elif r < 0.92:
            o["k"] = "T"
            o["both"] = rng.random() < 0.5
            if aim and tk:
                k = rng.choice(tk)
                o["t"], o["n"] = k[2], k[1]
                o["v"] = rng.choice([None, None, tags[k]])
            else:
                o["t"], o["n"], o["v"] = rng.choice(TAGS), rng.choice(NAMES), rng.choice([None] + VERSIONS)
        else:
            o["k"] = "R"
            o["s"] = None
            known = [k for k in decls if k[3] == f]
            if aim and known:
                k = rng.choice(known)
                o["n"], o["v"] = k[1], k[2]
            else:
                o["n"], o["v"] = rng.choice(NAMES), rng.choice(VERSIONS)
        if o["k"] in "DAUT" and rng.random() < p_unk:
            o["t"] = rng.choice(UNKNOWN_TAGS)      # a tag that is not recognised: the command is refused
        _, decls, tags = spec_step(decls, tags, o, ro=ro or [])
        ops.append(o)
    case = {"flavors": flavors, "mode": mode, "ops": ops, "fam": fam}
    if stacks:
        case["stacks"] = list(stacks)
    if ro:
        case["ro"] = list(ro)
        case["mode"] = "fork"
    return case


def _D(f, n, v, d="A", tb=None, t=None, s=None, F=False, N=False, tx=None, L=None):
    o = {"k": "D", "f": f, "s": s, "F": F, "N": N, "n": n, "v": v, "d": d, "tb": tb, "t": t}
    if tx:
        o["tx"] = tx
    if L:
        o["L"] = L
    return o


def _op(k, f, n, v=None, t=None, s=None, both=None, F=False, N=False):
    o = {"k": k, "f": f, "s": s, "F": F, "N": N, "n": n, "v": v}
    if t is not None:
        o["t"] = t
    if both is not None:
        o["both"] = both
    return o


# the ways a declaration can name its table file, and what a redeclaration can change one at a time
TABLE_STATES = [("default", {}), ("alt", {"tb": "alt"}), ("same", {"tb": "same"}), ("fix", {"tb": "fix"}),
                ("none", {"tb": "none"}), ("stream", {"tb": "stream", "tx": "t1"})]
CHANGES = [("dir", None), ("path-same-text", None), ("path-other-text", None), ("to-none", None), ("to-stream", None),
           ("stream-text", None), ("add-ext", None), ("nothing", None)]


def gen_forced_redeclarations(rng):
    """every prior state of the table file x a redeclaration that changes exactly one of directory / table path (same
    text) / table path and text / table file none / interned text / external files / nothing; forced, then the same
    request again without force (no difference any more), then a conflicting one without force.  The prior declaration
    sits in the first or the second stack, alone or next to the other flavor in the same version file."""
    out = []
    i = 0
    for pname, pkw0 in TABLE_STATES:
        for ch, _ in CHANGES:
            i += 1
            f1, f2 = rng.choice(FLAVOR_PAIRS)
            n, v = NAMES[i % 3], VERSIONS[i % 2]
            s = [None, "s1", "s2"][i % 3]
            pkw = dict(pkw0)
            new = dict(pkw, d="A")
            if ch == "dir":
                if pname in ("default", "alt", "same"):
                    new["tb"] = "fix"                   # the table path must not follow the directory
                    pkw = dict(pkw, tb="fix")
                new["d"] = "B"
            elif ch == "path-same-text":
                if pname in ("none", "stream", "fix", "alt"):
                    continue
                new["tb"] = "same" if pname == "default" else None
            elif ch == "path-other-text":
                new["tb"] = "fix" if pname == "alt" else "alt"
                new.pop("tx", None)
            elif ch == "to-none":
                if pname == "none":
                    continue
                new["tb"] = "none"
                new.pop("tx", None)
            elif ch == "to-stream":
                if pname == "stream":
                    continue
                new["tb"], new["tx"] = "stream", "t2"
            elif ch == "stream-text":
                if pname != "stream":
                    continue
                new["tx"] = "t3"
            elif ch == "add-ext":
                new["L"] = [["x1", "etc/x.txt"]]
            ops = [_D(f1, n, v, s=s, **dict(pkw, d="A"))]
            if i % 2:
                ops.append(_D(f2, n, v, s=s, d="B"))                   # the other flavor shares the version file
            if i % 4 == 0:
                ops.append(_D(f1, n, VERSIONS[2], s=s, d="A"))          # another version next to it
            ops.append(_D(f1, n, v, s=s, **new))                        # without force: refused, or no difference
            ops.append(_D(f1, n, v, s=s, F=True, **new))                # forced: the new values are found
            ops.append(_D(f1, n, v, s=s, **new))                        # again without force: nothing to do
            ops.append(_D(f1, n, v, s=s, **dict(pkw, d="A")))           # back without force: refused unless equal
            out.append({"flavors": [f1, f2], "mode": MODES[i % 3], "ops": ops,
                        "fam": "forced/%s/%s" % (pname, ch)})
    return out


def gen_two_flavor_tags(rng):
    """the same version declared under two flavors (one version file), a tag on the one, the other, or both, optionally
    a second version of the first flavor that carries the tag instead; then tag removal / undeclare under either
    flavor, with and without the version"""
    out = []
    i = 0
    for tagging in ("mine", "theirs", "both"):
        for layout in ("one-version", "tag-on-other-version"):
            for kind in ("U-v", "U-none", "T-v", "T-none", "Tboth-v", "Tboth-none", "X-v", "X-none", "R", "A-other"):
                for t in ("current", "stable"):
                    i += 1
                    f1, f2 = rng.choice(FLAVOR_PAIRS)
                    n = NAMES[i % 3]
                    s = [None, "s1", "s2", None][i % 4]
                    v, w = "2.0", "1.0"
                    ops = []
                    if layout == "tag-on-other-version":
                        ops.append(_D(f1, n, w, s=s, d="A"))
                    ops.append(_D(f1, n, v, s=s, d="A"))
                    ops.append(_D(f2, n, v, s=s, d="B"))
                    if layout == "tag-on-other-version":
                        ops.append(_op("A", f1, n, w, t=t, s=s))        # my tag sits on my other version
                        ops.append(_op("A", f2, n, v, t=t, s=s))
                        if tagging == "both":
                            ops.append(_op("A", f2, n, v, t="beta", s=s))
                            ops.append(_op("A", f1, n, v, t="beta", s=s))
                    else:
                        if tagging in ("mine", "both"):
                            ops.append(_op("A", f1, n, v, t=t, s=s))
                        if tagging in ("theirs", "both"):
                            ops.append(_op("A", f2, n, v, t=t, s=s))
                    who = f1 if i % 3 else f2
                    vv = v if kind.endswith("-v") or kind in ("R", "A-other") else None
                    if kind.startswith("U"):
                        ops.append(_op("U", who, n, vv, t=t, s=s))
                    elif kind.startswith("Tboth"):
                        ops.append(_op("T", who, n, vv, t=t, s=s, both=True))
                    elif kind.startswith("T"):
                        ops.append(_op("T", who, n, vv, t=t, s=s, both=False))
                    elif kind.startswith("X"):
                        ops.append(_op("X", who, n, vv, s=s))
                    elif kind == "R":
                        ops.append(_op("R", who, n, v))
                    else:
                        ops.append(_op("A", who, n, v, t="beta" if t == "stable" else "stable", s=s))
                    ops.append(_op("U", f1 if who == f2 else f2, n, v, t=t, s=s))   # and the other flavor afterwards
                    out.append({"flavors": [f1, f2], "mode": MODES[i % 3], "ops": ops,
                                "fam": "flavtag/%s/%s/%s" % (tagging, layout, kind)})
    return out


def gen_stack_choice(rng):
    """where a declaration goes: -Z or not, product directory outside the stacks / inside the first / inside the second
    stack, with no / the first / the second stack read-only"""
    out = []
    i = 0
    for ro in ([], ["s1"], ["s2"]):
        for d in ("A", "H1", "H2"):
            for s in (None, "s1", "s2"):
                i += 1
                f1, f2 = rng.choice(FLAVOR_PAIRS)
                n = NAMES[i % 3]
                ops = [_D(f1, n, "1.0", s=s, d=d, t=[None, "stable"][i % 2]),
                       _D(f1, n, "1.0", s=s, d=d, tb="stream", tx="t1", F=True),
                       _D(f2, n, "2.0", d=d, tb=[None, "none"][i % 2]),
                       _op("A", f1, n, "1.0", t="beta"),
                       _op("U", f1, n, None, t="beta", s=s),
                       _op("T", f1, n, None, t="stable", s=s, both=False),
                       _op("X", f1, n, None, s=s)]
                c = {"flavors": [f1, f2], "mode": "fork" if ro else MODES[i % 3], "ops": ops,
                     "fam": "stack/ro=%s/dir=%s/Z=%s" % ("+".join(ro) or "-", d, s or "-")}
                if ro:
                    c["ro"] = ro
                out.append(c)
    return out


def gen_prefix_dirs(rng):
    """product directories beside a stack (the path of the stack followed by other characters), and inside a stack
    whose name is a prefix of / has as a prefix the name of the other stack; -Z or not; then the other flavor declared
    in the same version file (a rewrite of the shared file must keep the first record), before or after"""
    out = []
    i = 0
    for stacks in [None] + STACK_SETS:
        S = stacks or STACKS
        for d in ("P1", "P2", "H1", "H2"):
            if stacks is None and d in HOME_IDX:
                continue                                   # gen_stack_choice has these
            for s in (None, S[0], S[1]):
                i += 1
                f1, f2 = rng.choice(FLAVOR_PAIRS)
                n = NAMES[i % 3]
                first = _D(f1, n, "1.0", s=s, d=d, t=[None, "stable"][i % 2])
                other = _D(f2, n, "1.0", s=s, d=["A", "H1", "P2"][i % 3])
                ops = [first, other] if i % 2 else [other, first]
                ops += [_D(f1, n, "2.0", s=s, d=d, tb=["alt", "stream", None][i % 3], tx="t2"),
                        _D(f1, n, "1.0", s=s, d=d),                       # the same again: no difference
                        _op("A", f1, n, "2.0", t="beta", s=s),
                        _D(f2, n, "2.0", s=s, d="B"),
                        _op("X", f1, n, "1.0", s=s)]
                c = {"flavors": [f1, f2], "mode": MODES[i % 3], "ops": ops,
                     "fam": "prefix/stacks=%s/dir=%s/Z=%s" % ("+".join(S), {"P": "beside", "H": "inside"}[d[0]] + d[1],
                                                               "-" if s is None else str(S.index(s) + 1))}
                if stacks:
                    c["stacks"] = list(stacks)
                out.append(c)
    return out


def gen_table_places(rng):
    """an explicit absolute table file (-M) as data: inside the product directory, in a directory beside it whose path
    begins with the characters of the product directory's path (two spellings), unrelated to it; the product directory
    outside the stacks, inside one, beside one; -Z or not; the other flavor in the same version file with another of
    these table files; the same request again (no difference), then a forced change to the next kind of place"""
    out = []
    i = 0
    places = ["alt", "sib", "sib2", "fix"]
    for d in ("A", "B", "H1", "H2", "P1"):
        for j, tb in enumerate(places):
            i += 1
            f1, f2 = rng.choice(FLAVOR_PAIRS)
            n, v = NAMES[i % 3], VERSIONS[i % 2]
            s = [None, "s1", "s2"][i % 3]
            nxt, oth = places[(j + 1) % 4], places[(j + 2) % 4]
            ops = [_D(f1, n, v, s=s, d=d, tb=tb, t=[None, "stable"][i % 2]),
                   _D(f2, n, v, s=s, d=d, tb=oth),                     # the other flavor shares the version file
                   _D(f1, n, v, s=s, d=d, tb=tb),                      # the same again: no difference
                   _D(f1, n, VERSIONS[2], s=s, d=d, tb=nxt),           # another version of the product
                   _D(f1, n, v, s=s, d=d, tb=nxt, F=True),             # forced: the new table file is found
                   _op("X", f2, n, v, s=s)]
            out.append({"flavors": [f1, f2], "mode": MODES[i % 3], "ops": ops,
                        "fam": "table-place/dir=%s/table=%s/Z=%s" % (
                            {"A": "out", "B": "out", "P": "beside-stack", "H": "in-stack"}[d[0]] , tb, s or "-")})
    return out


def gen_unknown_tags(rng):
    """a command naming a tag that is not recognised, for every command that takes a tag and every state it can meet
    (new product, new version, new flavor of a declared version, declared version; table from a stream, external
    files, force, noaction); then the history goes on: the first version declared of the product becomes current"""
    out = []
    i = 0
    kinds = ["D-new-product", "D-new-version", "D-new-flavor", "D-redeclare", "D-conflict", "D-force", "D-noaction",
             "D-stream", "D-ext", "D-nodir", "A", "A-nothing", "U-v", "U-none", "T-v", "T-none", "Tboth-v", "Tboth-none",
             "Tboth-nothing"]
    for kind in kinds:
        for s in (None, "s1", "s2"):
            i += 1
            f1, f2 = rng.choice(FLAVOR_PAIRS)
            n, m = NAMES[i % 3], NAMES[(i + 1) % 3]
            u = UNKNOWN_TAGS[i % 2]
            ops = [_D(f1, n, "1.0", s=s, d="A"), _D(f1, n, "2.0", s=s, d="A", t="stable"), _D(f2, n, "2.0", s=s, d="B")]
            if kind == "D-new-product":
                bad = _D(f1, m, "1.0", s=s, d="A", t=u)
            elif kind == "D-new-version":
                bad = _D(f1, n, "3.0", s=s, d="A", t=u)
            elif kind == "D-new-flavor":
                bad = _D(f2, n, "1.0", s=s, d="B", t=u)
            elif kind == "D-redeclare":
                bad = _D(f1, n, "2.0", s=s, d="A", t=u)
            elif kind == "D-conflict":
                bad = _D(f1, n, "2.0", s=s, d="B", t=u)
            elif kind == "D-force":
                bad = _D(f1, n, "2.0", s=s, d="B", t=u, F=True)
            elif kind == "D-noaction":
                bad = _D(f1, n, "3.0", s=s, d="A", t=u, N=True)
            elif kind == "D-stream":
                bad = _D(f1, n, "3.0", s=s, d="A", t=u, tb="stream", tx="t1")
            elif kind == "D-ext":
                bad = _D(f1, m, "1.0", s=s, d="A", t=u, L=[["x1", "etc/x.txt"]])
            elif kind == "D-nodir":
                bad = _D(f1, n, "2.0", s=s, d=None, t=u)
            elif kind == "A":
                bad = _op("A", f1, n, "1.0", t=u, s=s)
            elif kind == "A-nothing":
                bad = _op("A", f1, m, "1.0", t=u, s=s)
            elif kind.startswith("U"):
                bad = _op("U", f1, n, "2.0" if kind.endswith("-v") else None, t=u, s=s)
            elif kind == "Tboth-nothing":
                bad = _op("T", f1, m, None, t=u, s=s, both=True)
            elif kind.startswith("Tboth"):
                bad = _op("T", f1 if kind.endswith("-v") else f2, n, "2.0" if kind.endswith("-v") else None, t=u, s=s, both=True)
            else:
                bad = _op("T", f1, n, "2.0" if kind.endswith("-v") else None, t=u, s=s, both=False)
            ops.append(bad)
            ops += [_D(f1, m, "2.0", s=s, d="A"),                      # the first version of m ever declared: current
                    _D(f1, m, "1.0", s=s, d="A"),
                    _op("U", f1, n, None, t="stable", s=s),
                    _op("X", f1, n, "2.0", s=s)]
            out.append({"flavors": [f1, f2], "mode": MODES[i % 3], "ops": ops,
                        "fam": "unknown-tag/%s/Z=%s" % (kind, s or "-")})
    return out


# ------------------------------------------------------------------ model side

def _o(x):
    return "~" if x is None else (enc(x) or "%")


def op_line(o):
    head = [o["k"], enc(o["f"]), _o(o["s"]), "1" if o["F"] else "0", "1" if o["N"] else "0"]
    k = o["k"]
    if k == "D":
        d = cdir(o["n"], o["v"], o["d"]) if o["d"] else None
        tk, targ = table_request(o)
        ext = "+".join(enc(csrc(x)) + ">" + enc(out) for x, out in (o.get("L") or [])) or "~"
        rest = [enc(o["n"]), enc(o["v"]), _o(d), tk, _o(targ), _o(o["t"]), ext]
    elif k == "A":
        rest = [enc(o["t"]), enc(o["n"]), enc(o["v"])]
    elif k == "U":
        rest = [enc(o["t"]), enc(o["n"]), _o(o["v"])]
    elif k == "X":
        rest = [enc(o["n"]), _o(o["v"])]
    elif k == "T":
        rest = [enc(o["n"]), _o(o["v"]), enc(o["t"]), "1" if o["both"] else "0"]
    elif k == "R":
        rest = [enc(o["n"]), enc(o["v"])]
    else:
        raise ValueError(o)
    return ",".join(head + rest)


def hist_line(case, pinned=False):
    """a request to the extended model (Model/DbExt.v); pinned is accepted for the callers of old and ignored"""
    use_stacks(case)
    univ = ";".join([",".join(NAMES), ",".join(TAGS), ",".join(case["flavors"])])
    return "\t".join(["xhist", ",".join(CUR), ",".join(case.get("ro") or []), common.enc_env(static_texts(case)),
                      "|".join(op_line(o) for o in case["ops"]), univ])


def _lst(s):
    return sorted([common.dec(x) for x in item.split(",")] for item in s.split(";")) if s else []


ERRCLASS = {"NotFound": "notfound", "Refused": "refused", "Undefined": "unmodelled"}


def parse_model(line):
    out = []
    if line.startswith("DRIVER-ERROR"):
        raise common.ModelError(line)
    for seg in line.split("\t"):
        f = seg.split("#")
        oc = f[0]
        if oc.startswith("err:"):
            oc = ERRCLASS.get(oc[4:], "other:" + oc[4:])
        out.append({"out": oc, "decls": _lst(f[1]), "tags": _lst(f[2]), "dirs": _lst(f[3]), "vf": _lst(f[4]),
                    "cf": _lst(f[5]), "resolve": _lst(f[6]), "xf": sorted([k, v] for k, v in common.dec_env(f[7])),
                    "neff": int(f[8])})
    return out


# ------------------------------------------------------------------ implementation side

_EUPS = None


def _eups():
    global _EUPS
    if _EUPS is None:
        _EUPS = common.import_eups()
        from eups import hooks
        if "beta" not in hooks.config.Eups.globalTags:
            hooks.config.Eups.globalTags += ["beta"]
    return _EUPS


def _quiet():
    dn = os.open(os.devnull, os.O_WRONLY)
    os.dup2(dn, 1)
    os.dup2(dn, 2)


def setup_world(root, ro=()):
    for s in CUR + ["user"]:
        os.makedirs(os.path.join(root, s, "ups_db"), exist_ok=True)
    os.makedirs(root + "/prod/tables", exist_ok=True)
    os.makedirs(root + "/prod/extra", exist_ok=True)
    for x, t in EXTRAS.items():
        with open(root + csrc(x), "w") as fd:
            fd.write(t)
    ensure_products(root)
    for s in ro:                       # a read-only stack: neither the directory nor its database can be written
        os.chmod(os.path.join(root, s, "ups_db"), 0o555)
        os.chmod(os.path.join(root, s), 0o555)


def unprotect(root):
    for s in CUR:
        for p in (os.path.join(root, s), os.path.join(root, s, "ups_db")):
            if os.path.isdir(p):
                os.chmod(p, 0o755)


def ensure_products(root):
    """product directories and table files are not database records: keep them all in place (remove deletes them)"""
    for n in NAMES:
        for v in VERSIONS:
            for d in DIRVARS_ALL:
                p = root + cdir(n, v, d) + "/ups"
                if not os.path.isdir(p):
                    try:
                        os.makedirs(p, exist_ok=True)
                    except OSError:
                        continue                                   # inside a read-only stack: made before the chmod
                for tb in TABLE_IN_DIR:
                    t = root + ctable(n, v, d, tb)
                    if not os.path.exists(t):
                        try:
                            os.makedirs(os.path.dirname(t), exist_ok=True)
                        except OSError:
                            continue
                        with open(t, "w") as fd:
                            fd.write(ctext(n, v, d, tb))           # distinct text per path, same.table = default table
            t = root + ctable(n, v, None, "fix")
            if not os.path.exists(t):
                with open(t, "w") as fd:
                    fd.write(ctext(n, v, None, "fix"))


def world_environ(root, flavor):
    return common.scrubbed_environ({"EUPS_PATH": ":".join(os.path.join(root, s) for s in CUR),
                                    "EUPS_USERDATA": os.path.join(root, "user"), "EUPS_FLAVOR": flavor})


def make_eups(root, flavor):
    e = _eups()
    os.environ.clear()
    os.environ.update(world_environ(root, flavor))
    x = e.Eups(flavor=flavor)
    x.selectVRO(None, None, None, None)       # as cmd.createEups does
    return x


def do_op(x, root, o):
    """perform one operation on Eups instance x; returns the outcome class"""
    e = _eups()
    x.force = bool(o["F"])
    x.noaction = bool(o["N"])
    stack = os.path.join(root, o["s"]) if o["s"] else None
    k = o["k"]
    import atexit, signal, tempfile
    made = []
    real = (atexit.register, signal.signal, tempfile.mkstemp)

    def mkstemp(*a, **kw):
        r = real[2](*a, **kw)
        made.append(r[1])
        return r
    # a table given as a stream goes through a temporary file that Eups.declare removes atexit / on SIGTERM: keep
    # the pool worker's handlers and remove the file here
    atexit.register, signal.signal, tempfile.mkstemp = (lambda *a, **kw: None), (lambda *a, **kw: None), mkstemp
    try:
        if k == "D":
            import io
            d = root + cdir(o["n"], o["v"], o["d"]) if o["d"] else None
            tk, targ = table_request(o)
            tb = {"d": None, "n": "none"}.get(tk) if tk in "dn" else (root + targ if tk == "p" else io.StringIO(targ))
            ext = [(root + csrc(xs), out) for xs, out in (o.get("L") or [])]
            x.declare(o["n"], o["v"], d, stack, tb, o["t"], externalFileList=ext)
        elif k == "A":
            x.assignTag(o["t"], o["n"], o["v"], stack)
        elif k == "U":
            x.unassignTag(o["t"], o["n"], o["v"], stack)
        elif k == "X":
            x.undeclare(o["n"], o["v"], stack)
        elif k == "T":
            x.undeclare(o["n"], o["v"], stack, tag=o["t"], undeclareVersionAndTag=bool(o["both"]))
        elif k == "R":
            x.remove(o["n"], o["v"])
        else:
            raise ValueError(k)
        return "ok"
    except e.ProductNotFound:
        return "notfound"
    except e.EupsException as ex:
        return "refused"
    except Exception as ex:  # noqa
        return "other:" + type(ex).__name__
    finally:
        atexit.register, signal.signal, tempfile.mkstemp = real
        for f_ in made:
            try:
                os.unlink(f_)
            except OSError:
                pass
        x.force = False
        x.noaction = False


def _child_op(root, o):
    _quiet()
    x = make_eups(root, o["f"])
    return do_op(x, root, o)


def read_state(root, flavors):
    """a fresh reader: nothing cached, new Database objects"""
    e = _eups()
    sys.modules["eups.db.Database"]._databases.clear()
    os.environ.clear()
    os.environ.update(world_environ(root, flavors[0]))
    r = e.Eups(readCache=False)

    def canon(p):
        if p is None:
            return "None"
        return p[len(root):] if p.startswith(root + "/") else p

    st = {"decls": [], "tags": [], "dirs": [], "vf": [], "cf": [], "resolve": [], "xf": []}
    for s in CUR:
        dbp = os.path.join(root, s, "ups_db")
        db = e.db.Database(dbp)
        for n in sorted(os.listdir(dbp)):
            p = os.path.join(dbp, n)
            if n in ALLFLAVORS and os.path.isdir(p):      # utils.extraDirPath: ups_db/<flavor>/<product>/<version>/...
                for dp, _, fns in os.walk(p):
                    for fn in fns:
                        with open(os.path.join(dp, fn), errors="replace") as fd:
                            st["xf"].append([canon(os.path.join(dp, fn)), fd.read()])
                continue
            if not os.path.isdir(p):
                st["dirs"].append([s, "FILE:" + n])
                continue
            st["dirs"].append([s, n])
            for fn in sorted(os.listdir(p)):
                if fn.endswith(".version"):
                    st["vf"].append([s, n, fn[:-len(".version")]])
                elif fn.endswith(".chain"):
                    st["cf"].append([s, n, fn[:-len(".chain")]])
                else:
                    st["vf"].append([s, n, "STRAY:" + fn])
            for prod in db.findProducts(n):
                st["decls"].append([s, n, prod.version, prod.flavor, canon(prod.dir), canon(prod.tablefile)])
            for (tag, vers, flavor) in db.getTagAssignments(n):
                st["tags"].append([s, n, tag, flavor, vers])
    for n in NAMES:
        for t in TAGS:
            for f in flavors:
                p = r.findTaggedProduct(n, t, flavor=f, noCache=True)
                if p is not None:
                    st["resolve"].append([n, t, f, os.path.basename(p.stackRoot()), p.version])
    for k in st:
        st[k].sort()
    return st


def _as_nobody(case):
    os.setgroups([])
    os.setgid(NOBODY)
    os.setuid(NOBODY)
    os.environ.pop("EUPS_VERIF_SCRATCH", None)
    os.environ["TMPDIR"] = "/tmp"
    return impl_history(dict(case, ro_child=True))


def impl_history(case):
    """runs in a pool worker; returns the per-operation observations"""
    _eups()
    use_stacks(case)
    if case.get("ro") and not case.get("ro_child") and os.getuid() == 0:
        # permissions mean nothing to root: the whole history (operations and readers) runs under uid nobody
        r = common.in_child(_as_nobody, case, timeout=600)
        if r[0] != "ok":
            raise RuntimeError("read-only history failed in the child: %r" % (r,))
        return r[1]
    root = common.scratch_dir()
    saved = dict(os.environ)
    out = []
    try:
        setup_world(root, case.get("ro") or [])
        insts = {}
        for o in case["ops"]:
            ensure_products(root)
            if case["mode"] == "fork" or case.get("ro"):
                r = common.in_child(_child_op, root, o, timeout=120)
                oc = r[1] if r[0] == "ok" else "other:child-%s" % (r[1] if len(r) > 1 else r[0],)
            elif case["mode"] == "proc":
                oc = do_op(make_eups(root, o["f"]), root, o)
            else:
                if o["f"] not in insts:
                    insts[o["f"]] = make_eups(root, o["f"])
                oc = do_op(insts[o["f"]], root, o)
            st = read_state(root, case["flavors"])
            st["out"] = oc
            out.append(st)
    finally:
        unprotect(root)
        shutil.rmtree(root, ignore_errors=True)
        os.environ.clear()
        os.environ.update(saved)
    return out


def _worker_init():
    _quiet()
    _eups()


_POOL = None


def pool():
    global _POOL
    if _POOL is None:
        n = min(16, os.cpu_count() or 4)
        _POOL = multiprocessing.get_context("fork").Pool(n, initializer=_worker_init)
    return _POOL


def impl_many(cases):
    return pool().map(impl_history, cases, chunksize=1)


def impl_one(case):
    """one history, in a pool worker (quiet, and the main process keeps its environment)"""
    return pool().apply(impl_history, (case,))


# ------------------------------------------------------------------ the property's own oracle
#
# The abstract specification, written directly from the property text: the database is a set of declarations
# (stack, product, version, flavor) -> (directory, table) and a tag map (stack, product, tag, flavor) -> version.
# It is evaluated on what the fresh reader of the *implementation* reported before the operation and compared
# with what it reports afterwards.

def spec_step(decls, tags, o, path=None, ro=(), xf=None, info=None):
    """-> (outcome class, decls', tags').  decls: {(s,n,v,f): (dir, table)}, tags: {(s,n,t,f): v}; ro: read-only
    stacks; xf: {path: text} of the copies below the databases as the reader saw them before the operation; info, when
    given, receives what a declaration has to leave below its extra directory ("xdir", "copies": {path: text})"""
    decls, tags = dict(decls), dict(tags)
    xf = xf or {}
    path = list(path or CUR)
    f, n = o["f"], o["n"]
    fls = [f, "generic"]
    roots = [o["s"]] if o["s"] else list(path)
    unchanged = lambda oc: (oc, decls, tags)
    if o.get("t") is not None and o["t"] not in TAGS:
        # not a tag of this installation: no assignment of it can exist, and the command cannot be carried out as
        # typed.  The property says nothing about HOW it ends; whatever is refused changes nothing (oracle)
        return unchanged("error")

    def exact(v, fl=f, rs=None):
        for s in (rs or roots):
            if (s, n, v, fl) in decls:
                return s
        return None

    def tagged(t, rs):
        for s in rs:
            v = tags.get((s, n, t, f))
            if v is not None and (s, n, v, f) in decls:
                return s, v
        return None

    def undeclare(s, v):
        del decls[(s, n, v, f)]
        for k in [k for k in tags if k[0] == s and k[1] == n and k[3] == f and tags[k] == v]:
            del tags[k]                    # every tag on it goes with it

    def the_version(v):
        """version and stack an undeclare without / with version means"""
        if v is None:
            found = set((k[2], k[3]) for k in decls if k[1] == n and k[0] in roots and k[3] in fls)
            if not found:
                return "notfound", None, None
            if len(found) > 1:
                return "refused", None, None
            v = list(found)[0][0]
        s = exact(v)
        if s is None:
            return "notfound", None, None
        return None, s, v

    k = o["k"]
    if k == "D":
        v, t = o["v"], o["t"]
        texts = static_texts({"ops": [o]})
        text = lambda p: xf.get(p, texts.get(p))
        d = cdir(n, v, o["d"]) if o["d"] else None
        tk, targ = table_request(o)
        if t and (d is None or tk == "d"):
            for fl in fls:                 # complete the request from the declaration that exists
                s0 = exact(v, fl)
                if s0:
                    od, otb = decls[(s0, n, v, fl)]
                    if d is None:
                        d = od
                    if tk == "d" and d == od:
                        tk, targ = ("n", None) if otb == "none" else ("p", otb)
                    break
        if d is None:
            return unchanged("refused")
        # the stack it goes to: -Z; else the stack the directory lies in; else the first stack that can be written
        if o["s"]:
            if o["s"] in ro:
                return unchanged("refused")
            rd = tg = o["s"]
        else:
            home = next((s for s in path if d == "/" + s or d.startswith("/" + s + "/")), None)
            w = next((s for s in path if s not in ro), None)
            if w is None:
                return unchanged("unmodelled")   # goes to the user data directory, which the check leaves out
            rd = home or w
            tg = home if (home and home not in ro) else w
        xdir = extra_dir(tg, f, n, v)
        copies = dict((out, EXTRAS[xs]) for xs, out in (o.get("L") or []))
        again = False
        if tk == "d":
            tb = d + "/ups/" + n + ".table"
        elif tk == "p" and targ.startswith(xdir + "/"):
            tb, again = targ, True                                  # the table kept with this declaration, once more
            copies.update((p[len(xdir) + 1:], x) for p, x in xf.items() if p.startswith(xdir + "/ups/"))
        elif tk == "p":
            tb = targ
        elif tk == "n":
            tb = "none"
        else:
            tb = xdir + "/ups/" + n + ".table"                      # a stream: kept in the database
            copies["ups/" + n + ".table"] = intern(targ)
        if tk in "dp" and not again and text(tb) is None:
            return unchanged("refused")    # no such table file
        if not t and not any(kk[1] == n and kk[3] in fls for kk in decls):
            t = "current"                  # first version that can be found of this product
        old = decls.get((rd, n, v, f))
        if old is not None and rd != tg:
            return unchanged("unmodelled")
        write = True
        if old is not None and not o["F"]:
            od, otb = old
            conflict = d != od
            if tk in "dp" and not again:   # table files are the same when they are one file or hold the same text
                conflict = conflict or not (tb == otb or (text(otb) is not None and text(tb) == text(otb)))
            elif tk == "n":
                conflict = conflict or otb != "none"
            have = dict((p, x) for p, x in xf.items() if p.startswith(xdir + "/"))
            if have:                       # the files kept with the declaration must be the same ones
                conflict = conflict or any(have.get(xdir + "/" + out) != x for out, x in copies.items()) \
                    or any(p[len(xdir) + 1:] not in copies for p in have)
            if not conflict:
                write = False
            elif t:
                write = False              # only the tag is declared
            else:
                return unchanged("refused")
        if o["N"]:
            return unchanged("ok")
        if info is not None:
            info["xdir"], info["copies"], info["target"] = xdir, dict((xdir + "/" + k_, x) for k_, x in copies.items()), tg
            info["written"] = write
        if write:
            decls[(tg, n, v, f)] = (d, tb)
        if t:
            for s in path:                 # the tag moves: afterwards set here and in no other stack of the path
                tags.pop((s, n, t, f), None)
            tags[(tg, n, t, f)] = v
        return "ok", decls, tags
    if k == "A":
        s = exact(o["v"])
        if s is None:
            return unchanged("notfound")
        tags[(s, n, o["t"], f)] = o["v"]
        return "ok", decls, tags
    if k == "U" or (k == "T" and not o["both"]):
        t, v = o["t"], o["v"]
        if v is not None:
            s = exact(v)
            if s is None:
                return unchanged("notfound")
            if tags.get((s, n, t, f)) == v and not o["N"]:
                del tags[(s, n, t, f)]
            return "ok", decls, tags
        if o["s"] is None:
            hit = tagged(t, path)
            if hit is None:
                return unchanged("ok" if tagged("current", path) else "notfound")
            if not o["N"]:
                del tags[(hit[0], n, t, f)]
            return "ok", decls, tags
        if o["s"] in ro:
            return unchanged("refused")    # no permission to touch the tags of that stack
        if not o["N"]:
            tags.pop((o["s"], n, t, f), None)
        return "ok", decls, tags
    if k == "X" or k == "R":
        if k == "R":
            roots = list(path)
        err, s, v = the_version(o["v"])
        if err:
            return unchanged(err)
        if not o["N"]:
            undeclare(s, v)
        return "ok", decls, tags
    if k == "T":
        t, v = o["t"], o["v"]
        if v is None:
            # versions (of this flavor or generic) carrying the tag in the stacks searched, plus the version the
            # tag resolves to on the whole path
            cands = set()
            top = tagged(t, path)
            for s in roots:
                for fl in fls:
                    if any(kk[0] == s and kk[1] == n and kk[3] == fl for kk in decls):
                        if top:
                            cands.add((top[1], f))
                        vv = tags.get((s, n, t, fl))
                        if vv is not None and (s, n, vv, fl) in decls:
                            cands.add((vv, fl))
            if len(cands) == 1:
                v = list(cands)[0][0]
        err, s, v = the_version(v)
        if err:
            return unchanged(err)
        if not o["N"]:
            undeclare(s, v)
        return "ok", decls, tags
    raise ValueError(o)


def state_maps(st):
    decls = {(s, n, v, f): (d, tb) for s, n, v, f, d, tb in st["decls"]}
    tags = {(s, n, t, f): v for s, n, t, f, v in st["tags"]}
    return decls, tags


EMPTY = {"decls": [], "tags": [], "dirs": [], "vf": [], "cf": [], "resolve": [], "xf": [], "out": "ok"}


def _lines(x):
    return [l.strip() for l in x.splitlines()]


def oracle(case, obs):
    """first operation at which the implementation departs from the property: (index, kind, expected, what) or None"""
    prev = EMPTY
    use_stacks(case)
    for i, (o, st) in enumerate(zip(case["ops"], obs)):
        d0, t0 = state_maps(prev)
        d1, t1 = state_maps(st)
        if len(d1) != len(st["decls"]) or len(t1) != len(st["tags"]):
            return i, "reader-duplicate", None, "the reader lists a declaration or a tag twice"
        # whatever the command and whatever the reason: a command that raises has changed nothing -- what the fresh
        # reader lists (declarations, tags, copies kept with them) and the listing of every ups_db are as before
        if st["out"] != "ok":
            for k in ("decls", "tags", "dirs", "vf", "cf", "xf"):
                if st[k] != prev[k]:
                    return i, "refused-changed", prev[k], \
                        "the command raised (%s) and yet %s changed: new %s, gone %s" % (
                            st["out"], k, [x for x in st[k] if x not in prev[k]], [x for x in prev[k] if x not in st[k]])
        x0, x1 = dict(map(tuple, prev["xf"])), dict(map(tuple, st["xf"]))
        info = {}
        eo, ed, et = spec_step(d0, t0, o, ro=case.get("ro") or [], xf=x0, info=info)
        if eo == "unmodelled":
            return None                    # outside what the check covers: the rest of the history is not judged
        if eo == "error":
            if st["out"] == "ok":
                return None                # carried out in some way the property does not speak of: not judged
            eo = st["out"]                 # raised: nothing may have changed (ed, et are the maps of before)
        # stated clauses first, so that the kind names the clause that broke
        for k, v in t1.items():
            if (k[0], k[1], v, k[3]) not in d1:
                return i, "dangling-tag", None, "tag %s of %s points at undeclared version %s in %s" % (k[2], k[1], v, k[0])
        if st["out"] != eo:
            return i, "outcome", eo, "operation ended %s, the specification says %s" % (st["out"], eo)
        if o["k"] == "D" and eo == "ok" and not o["N"] and o["t"]:
            stale = [k for k in t1 if k[1] == o["n"] and k[2] == o["t"] and k[3] == o["f"] and k[0] != info["target"]]
            if stale:
                return i, "tag-not-moved", sorted(et.items()), \
                    "declare with tag %s left the tag assigned in %s as well" % (o["t"], stale[0][0])
        if d1 != ed:
            kind = "frame-decl" if all(ed.get(k) == d1.get(k) for k in set(ed) | set(d1)
                                       if k[1] == o["n"] and k[3] == o["f"]) else "declarations"
            return i, kind, sorted(ed.items()), "declarations after the operation differ from the specification"
        if t1 != et:
            kind = "frame-tag" if all(et.get(k) == t1.get(k) for k in set(et) | set(t1)
                                      if k[1] == o["n"] and k[3] == o["f"]) else "tags"
            return i, kind, sorted(et.items()), "tag assignments after the operation differ from the specification"
        # a declaration is found with the table file it was declared with: the file it names is there, and what
        # was handed over as a stream or as an external file is kept with it, line for line
        if o["k"] == "D" and eo == "ok" and not o["N"]:
            rec = d1.get((info["target"], o["n"], o["v"], o["f"]))
            if rec is not None and rec[1] != "none" and info["written"]:
                if rec[1] not in x1 and rec[1] not in static_texts({"ops": [o]}):
                    return i, "table-missing", rec[1], "the declaration names a table file that does not exist"
            if info["written"]:
                for p_, x_ in info["copies"].items():
                    if p_ not in x1 or _lines(x1[p_]) != _lines(x_):
                        return i, "copy", [p_, x_], "a file handed over with the declaration is not kept with it"
        # the files kept with other declarations are not touched (a declaration may rewrite its own, an undeclare
        # may drop those of the version it removes)
        for p_ in set(x0) | set(x1):
            if x0.get(p_) != x1.get(p_):
                mine = False
                if o["k"] == "D" and info.get("xdir"):
                    mine = p_.startswith(info["xdir"] + "/")
                elif o["k"] in "XTR" and p_ in x0 and p_ not in x1:
                    gone = [k for k in d0 if k not in d1]
                    mine = any(p_.startswith(extra_dir(k[0], k[3], k[1], k[2]) + "/") for k in gone)
                if not mine:
                    return i, "frame-files", x0.get(p_), "file %s kept with another declaration changed" % p_
        # resolving a tag yields the first stack's assignment
        for n, t, f, s, v in st["resolve"]:
            exp = None
            for s_ in CUR:
                vv = t1.get((s_, n, t, f))
                if vv is not None and (s_, n, vv, f) in d1:
                    exp = (s_, vv)
                    break
            if exp != (s, v):
                return i, "resolve", exp, "tag %s of %s resolves to %s %s" % (t, n, s, v)
        # the listing holds exactly the files the records need
        if sorted(set((s, n, v) for (s, n, v, f) in d1)) != [tuple(x) for x in st["vf"]]:
            return i, "listing", None, "version files on disk do not match the declarations read"
        if sorted(set((s, n, t) for (s, n, t, f) in t1)) != [tuple(x) for x in st["cf"]]:
            return i, "listing", None, "chain files on disk do not match the tags read"
        prev = st
    return None


# ------------------------------------------------------------------ comparison, shrinking

KEYS = ["out", "decls", "tags", "dirs", "vf", "cf", "resolve", "xf"]


def first_diff(mres, ires):
    for i, (m, im) in enumerate(zip(mres, ires)):
        if m["out"] == "unmodelled":
            return None                    # Err Undefined of Model/DbExt.v: outside the model from here on
        for k in KEYS:
            if m[k] != im[k]:
                return i, k
    return None


def evaluate(ctx, cases, pinned=False):
    """-> list of (case, model observations, impl observations, disagreement, oracle failure)"""
    lines = [hist_line(c, pinned) for c in cases]
    mres = [parse_model(l) for l in ctx.model(lines)]
    ires = impl_many(cases)
    return [(c, m, i, first_diff(m, i), oracle(c, i)) for c, m, i in zip(cases, mres, ires)]


def ddmin(case, test):
    """delta debugging on the list of operations; test(case) is true when the case still shows the problem"""
    ops = list(case["ops"])
    n = 2
    while len(ops) >= 2:
        chunk = max(1, len(ops) // n)
        reduced = False
        for start in range(0, len(ops), chunk):
            cand = ops[:start] + ops[start + chunk:]
            if cand and test(dict(case, ops=cand)):
                ops = cand
                n = max(n - 1, 2)
                reduced = True
                break
        if not reduced:
            if chunk == 1:
                break
            n = min(n * 2, len(ops))
    return dict(case, ops=ops)


def shrink_oracle(ctx, case, kind):
    def test(c):
        obs = impl_one(c)
        r = oracle(c, obs)
        return r is not None and r[1] == kind
    c = ddmin(case, test)
    # cut the tail after the failing operation
    r = oracle(c, impl_one(c))
    if r is not None:
        c = dict(c, ops=c["ops"][:r[0] + 1])
    return c


def shrink_disagreement(ctx, case, pinned):
    def test(c):
        m = parse_model(ctx.model([hist_line(c, pinned)])[0])
        return first_diff(m, impl_one(c)) is not None
    return ddmin(case, test)


def shape(case):
    fam = case.get("fam") or "rand"
    if fam != "rand":
        return fam
    return "%s/%s/len%02d-%02d" % (case["mode"], "+".join(case["flavors"]), len(case["ops"]) // 5 * 5,
                                   len(case["ops"]) // 5 * 5 + 4)


def decl_class(o, prev):
    """histogram key of one declaration: how the table file is named, where the directory lies, force, and whether the
    version was already declared for that flavor"""
    redecl = any(r[1] == o["n"] and r[2] == o["v"] and r[3] == o["f"] for r in prev["decls"])
    return "D/table=%s/dir=%s/Z=%s/force=%d/redeclare=%d/ext=%d" % (
        o.get("tb") or "default", {None: "none", "A": "out", "B": "out", "P1": "beside-stack", "P2": "beside-stack"}.get(o["d"], "in-stack"),
        "y" if o["s"] else "n", bool(o["F"]), redecl, bool(o.get("L")))


def process(ctx, results, pinned=False, budget=[6]):
    for c, m, i, dis, orc in results:
        ctx.count(len(c["ops"]), key=shape(c),
                  nontrivial=hist_line(c) if any(st["decls"] for st in i) else None)
        prev = EMPTY
        for o, st in zip(c["ops"], i):
            ctx.bump("op/%s/%s" % (o["k"], st["out"].split(":")[0]))
            if o["k"] == "D":
                ctx.bump(decl_class(o, prev) + "/" + st["out"].split(":")[0])
            prev = st
        if c.get("ro"):
            ctx.bump("history/read-only=%s" % "+".join(c["ro"]))
        if c.get("stacks"):
            ctx.bump("history/stack-names=%s" % "+".join(c["stacks"]))
        for o, st in zip(c["ops"], i):
            if o.get("t") is not None and o["t"] not in TAGS:
                ctx.bump("unknown-tag/%s%s/%s" % (o["k"], "both" if o.get("both") else "", st["out"].split(":")[0]))
        if any(mm["out"] == "unmodelled" for mm in m):
            ctx.bump("history/left-the-model")
        if dis is None:
            ctx.traces_validated += 1
        else:
            cc = shrink_disagreement(ctx, c, pinned) if budget[0] > 0 else c
            budget[0] -= 1
            mm = parse_model(ctx.model([hist_line(cc, pinned)])[0])
            ii = impl_one(cc)
            d2 = first_diff(mm, ii) or dis
            j, k = d2
            ctx.disagree(cc, {"at": j, "field": k, "value": mm[j][k] if j < len(mm) else None},
                         {"at": j, "field": k, "value": ii[j][k] if j < len(ii) else None},
                         where="operation %d (%s), %s" % (j, cc["ops"][j]["k"] if j < len(cc["ops"]) else "?", k))
        if orc is not None:
            idx, kind, exp, what = orc
            cc = shrink_oracle(ctx, c, kind) if budget[0] > 0 else dict(c, ops=c["ops"][:idx + 1])
            budget[0] -= 1
            obs = impl_one(cc)
            r = oracle(cc, obs) or orc
            ctx.fail(r[1], cc, expected=r[2], observed=obs[min(r[0], len(obs) - 1)] if obs else None, what=r[3])


def corpus_cases():
    d = os.path.join(common.ROOT, "corpus", "C06")
    out = []
    if os.path.isdir(d):
        for f in sorted(os.listdir(d)):
            if f.endswith(".json"):
                out.append(json.load(open(os.path.join(d, f)))["input"])
    return out


def configure(ctx):
    ctx.rule = ("directed families (every seed): forced and unforced redeclarations changing exactly one of directory / table "
                "path with the same text / table path and text / table file none / text of an interned table / external "
                "files, for every prior way of naming the table file; the same version under two flavors with a tag on "
                "one, the other or both, then tag removal / undeclare / remove under either flavor; choice of the "
                "target stack (-Z, product directory inside a stack, read-only stacks); explicit absolute table "
                "files inside the product directory / in a directory beside it whose path begins with the product "
                "directory's path / unrelated to it, for product directories outside, inside and beside a stack.  Then "
                "random histories of declare (new / same / conflicting / directory taken from the existing "
                "declaration; with and without tag, force, noaction), assignTag, unassignTag, undeclare, "
                "undeclare --tag (with and without the version), remove over 3 products x 3 versions x 2 flavors "
                "(Linux64+Darwin or Linux64+generic) x tags current/stable/beta x 2 stacks on EUPS_PATH, each target "
                "stack explicit or left to the search; every operation in a freshly built Eups (forked child per "
                "operation, or one process), or one instance per flavor for the whole history; one evaluation = one "
                "operation followed by a fresh reader; a history is non-trivial when some declaration exists at some "
                "point; distinct = distinct encoded history")
    ctx.trusted_base = common.COMMON_TRUSTED + [
        "modelled, not verified: the product cache (ProductStack) answers findProduct/findProducts/findTaggedProduct "
        "as the database files would (that is C07); text format of version and chain files (C16); python dict order; "
        "os.listdir order only affects the order of effects, not the resulting records"]
    ctx.assumptions = [
        "global tags only (current, stable, beta); no user tags, no tag:<name> pseudo-versions",
        "product directories exist, outside the stacks or inside one of them (never <stack>/<flavor>/<product>/<version>, "
        "so a missing productDir is never inferred from the path); table files exist; their texts differ iff their "
        "paths do, except same.table, which repeats the text of the default table of its directory; a table file given "
        "by path lies in <dir>/ups, in <dir>0/ups or <dir>-tables (beside the product directory), or in /prod/tables",
        "tables given as a stream and external files (-L) are small texts; the copies below ups_db are read back by "
        "the fresh reader and compared with Model/DbExt.v as a third map",
        "read-only stacks (directory and ups_db mode 0555, history run under uid nobody) are read-only from the start "
        "and therefore hold no declaration; some stack of EUPS_PATH is writable (the fall-back to the user data "
        "directory and the writeableDB redirection of Eups.assignTag are outside the model: Err Undefined, counted "
        "as history/left-the-model)",
        "no product is set up; fallback flavor list is the shipped one (flavor, generic)"]


def run(ctx):
    configure(ctx)
    ctx.check_theorems()
    try:
        corp = corpus_cases()
        process(ctx, evaluate(ctx, corp))
        # directed families: the same shapes on every seed (the seed picks flavors, not shapes)
        directed = gen_forced_redeclarations(ctx.rng) + gen_two_flavor_tags(ctx.rng) + gen_stack_choice(ctx.rng)
        directed += gen_prefix_dirs(ctx.rng) + gen_unknown_tags(ctx.rng) + gen_table_places(ctx.rng)
        process(ctx, evaluate(ctx, directed))
        nh = ctx.size(420, 3000)
        lo, hi = 5, ctx.size(25, 60)
        rng = ctx.rng
        cases = [gen_history(rng, rng.randint(lo, hi)) for _ in range(nh)]
        # histories that lean towards tables kept in the database and external files, towards product directories
        # inside the stacks, and histories with a read-only stack
        cases += [gen_history(rng, rng.randint(4, 14), bias={"tb": 0.55, "L": 0.25, "home": 0.1}, fam="rand-interned")
                  for _ in range(ctx.size(60, 400))]
        cases += [gen_history(rng, rng.randint(4, 14), bias={"tb": 0.15, "home": 0.6}, fam="rand-home")
                  for _ in range(ctx.size(40, 300))]
        cases += [gen_history(rng, rng.randint(4, 10), bias={"tb": 0.2, "home": 0.4}, ro=rng.choice([["s1"], ["s1"], ["s2"]]),
                              fam="rand-readonly") for _ in range(ctx.size(24, 200))]
        # stacks whose names are prefixes of each other, product directories inside them and beside them
        cases += [gen_history(rng, rng.randint(4, 12), bias={"sib": 0.35, "home": 0.3, "tb": 0.15}, fam="rand-prefix",
                              stacks=rng.choice(STACK_SETS)) for _ in range(ctx.size(40, 300))]
        # commands naming tags that are not recognised
        cases += [gen_history(rng, rng.randint(4, 12), bias={"unk": 0.3, "tb": 0.2, "L": 0.1}, fam="rand-unknown-tag")
                  for _ in range(ctx.size(40, 300))]
        # explicit absolute table files inside / beside (sharing its path as a prefix) / away from the product
        # directory, which itself lies outside, inside or beside a stack
        cases += [gen_history(rng, rng.randint(4, 12), bias={"tplace": 0.6, "home": 0.25, "sib": 0.1},
                              fam="rand-table-place") for _ in range(ctx.size(20, 300))]
        for c in cases[:2]:
            ctx.sample(c)
        for k in range(0, len(cases), 400):
            process(ctx, evaluate(ctx, cases[k:k + 400]))
    finally:
        if _POOL is not None:
            _POOL.close()
            _POOL.join()


def replay(ctx, path):
    configure(ctx)
    obj = json.load(open(path))
    c = obj["input"] if "input" in obj else obj["first_disagreement"]["case"]
    try:
        process(ctx, evaluate(ctx, [c]))
    finally:
        if _POOL is not None:
            _POOL.close()
            _POOL.join()
    bad = [f for f in ctx.failures if not ctx._known(f)] or ctx.disagreements
    for f in ctx.failures:
        print("oracle: %s: %s" % (f["kind"], f["what"]))
    for d in ctx.disagreements:
        print("model/implementation differ at %s: model %s, implementation %s" % (d["where"], d["model"], d["impl"]))
    print("replay %s: %s" % (path, "still fails" if bad else "passes"))
    return 1 if bad else 0
