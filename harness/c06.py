"""C06 - the database reflects exactly the history of declare / undeclare / tag operations.

Model: coq/Model/Db.v   Theorems: coq/Props/C06.v
Implementation: Eups.declare / assignTag / unassignTag / undeclare / remove of the real code on two scratch
stacks; after every operation a fresh reader (Eups(readCache=False), Database.findProducts,
Database.getTagAssignments, os.listdir of every ups_db) lists what the files say.

A case is one history:
  {"flavors": [f1, f2], "mode": "fork" | "proc" | "inst", "ops": [op, ...]}
  op = {"k": "D", "f": flavor, "s": None|"s1"|"s2", "F": force, "N": noaction, "n": product, "v": version,
        "d": None|"A"|"B" (directory variant), "tb": None|"alt" (explicit table file), "t": None|tag}
       "A" assignTag(t, n, v)   "U" unassignTag(t, n, v|None)   "X" undeclare(n, v|None)
       "T" undeclare(n, v|None, tag=t, undeclareVersionAndTag=both)   "R" remove(n, v)
mode: fork = every operation in its own forked child with a new Eups; proc = one process, a new Eups per
operation; inst = one process, one Eups instance per flavor serving several operations.
"""
import json
import multiprocessing
import os
import shutil
import sys

import common
from common import enc

STACKS = ["s1", "s2"]
NAMES = ["a", "b", "c"]
VERSIONS = ["1.0", "2.0", "3.0"]
TAGS = ["current", "stable", "beta"]
DIRVARS = ["A", "B"]
FLAVOR_PAIRS = [["Linux64", "Darwin"], ["Linux64", "Darwin"], ["Linux64", "generic"]]
ALLFLAVORS = ["Linux64", "Darwin", "generic"]
MODES = ["fork", "proc", "inst"]


# ------------------------------------------------------------------ canonical names

def cdir(n, v, d):
    """canonical (root-independent) product directory"""
    return "/prod/%s-%s-%s" % (n, v, d)


def ctable(n, v, d, tb):
    return cdir(n, v, d) + "/ups/" + ("alt.table" if tb == "alt" else n + ".table")


# ------------------------------------------------------------------ generator

def gen_history(rng, length, flavors=None, mode=None):
    """a random history; the specification below is run alongside so that about 70 % of the operations are valid
    for the state they meet (the rest name products, versions or tags that are not there)"""
    flavors = flavors or rng.choice(FLAVOR_PAIRS)
    mode = mode or rng.choice(MODES)
    decls, tags = {}, {}
    ops = []
    for _ in range(length):
        f = rng.choice(flavors)
        s = rng.choice([None, None, "s1", "s2"])
        o = {"f": f, "s": s, "F": rng.random() < 0.12, "N": rng.random() < 0.06}
        known = [k for k in decls if k[3] == f and (s is None or k[0] == s)]
        tk = [k for k in tags if k[3] == f and (s is None or k[0] == s)]
        aim = rng.random() < 0.85
        r = rng.random()
        if r < 0.40 or not decls:
            o["k"] = "D"
            if aim and known and rng.random() < 0.4:             # redeclare something that exists
                k = rng.choice(known)
                o["n"], o["v"] = k[1], k[2]
                same = decls[k][0].rsplit("-", 1)[1]
                o["d"] = rng.choice([same, same, "A", "B", None])
                o["t"] = rng.choice([None, "current", "stable", "beta"]) if o["d"] else rng.choice(TAGS)
            else:
                o["n"], o["v"] = rng.choice(NAMES), rng.choice(VERSIONS)
                o["d"] = rng.choice(["A", "A", "A", "A", "B", None])
                o["t"] = rng.choice([None, None, "current", "stable", "beta"])
            o["tb"] = "alt" if (o["d"] and rng.random() < 0.12) else None
        elif r < 0.53:
            o["k"] = "A"
            o["t"] = rng.choice(TAGS)
            if aim and known:
                k = rng.choice(known)
                o["n"], o["v"] = k[1], k[2]
            else:
                o["n"], o["v"] = rng.choice(NAMES), rng.choice(VERSIONS)
        elif r < 0.65:
            o["k"] = "U"
            if aim and tk:
                k = rng.choice(tk)
                o["t"], o["n"] = k[2], k[1]
                o["v"] = rng.choice([None, tags[k], tags[k]])
            elif aim and known:
                k = rng.choice(known)
                o["t"], o["n"], o["v"] = rng.choice(TAGS), k[1], k[2]
            else:
                o["t"], o["n"], o["v"] = rng.choice(TAGS), rng.choice(NAMES), rng.choice([None] + VERSIONS)
        elif r < 0.81:
            o["k"] = "X"
            if aim and known:
                k = rng.choice(known)
                o["n"], o["v"] = k[1], rng.choice([k[2], k[2], k[2], None])
            else:
                o["n"], o["v"] = rng.choice(NAMES), rng.choice([None] + VERSIONS)
        elif r < 0.92:
            o["k"] = "T"
            o["both"] = rng.random() < 0.5
            if aim and tk:
                k = rng.choice(tk)
                o["t"], o["n"] = k[2], k[1]
                o["v"] = rng.choice([None, None, tags[k]])
            else:
                o["t"], o["n"], o["v"] = rng.choice(TAGS), rng.choice(NAMES), rng.choice([None] + VERSIONS)
        else:
            o["k"] = "R"
            o["s"] = None
            known = [k for k in decls if k[3] == f]
            if aim and known:
                k = rng.choice(known)
                o["n"], o["v"] = k[1], k[2]
            else:
                o["n"], o["v"] = rng.choice(NAMES), rng.choice(VERSIONS)
        _, decls, tags = spec_step(decls, tags, o)
        ops.append(o)
    return {"flavors": flavors, "mode": mode, "ops": ops}


# ------------------------------------------------------------------ model side

def _o(x):
    return "~" if x is None else (enc(x) or "%")


def op_line(o):
    head = [o["k"], enc(o["f"]), _o(o["s"]), "1" if o["F"] else "0", "1" if o["N"] else "0"]
    k = o["k"]
    if k == "D":
        d = cdir(o["n"], o["v"], o["d"]) if o["d"] else None
        tb = ctable(o["n"], o["v"], o["d"], "alt") if (o.get("tb") and o["d"]) else None
        rest = [enc(o["n"]), enc(o["v"]), _o(d), _o(tb), _o(o["t"])]
    elif k == "A":
        rest = [enc(o["t"]), enc(o["n"]), enc(o["v"])]
    elif k == "U":
        rest = [enc(o["t"]), enc(o["n"]), _o(o["v"])]
    elif k == "X":
        rest = [enc(o["n"]), _o(o["v"])]
    elif k == "T":
        rest = [enc(o["n"]), _o(o["v"]), enc(o["t"]), "1" if o["both"] else "0"]
    elif k == "R":
        rest = [enc(o["n"]), enc(o["v"])]
    else:
        raise ValueError(o)
    return ",".join(head + rest)


def hist_line(case, pinned=False):
    univ = ";".join([",".join(NAMES), ",".join(TAGS), ",".join(case["flavors"])])
    return "\t".join(["hist", "1" if pinned else "0", ",".join(STACKS), "|".join(op_line(o) for o in case["ops"]),
                      univ])


def _lst(s):
    return sorted([common.dec(x) for x in item.split(",")] for item in s.split(";")) if s else []


ERRCLASS = {"NotFound": "notfound", "Refused": "refused"}


def parse_model(line):
    out = []
    if line.startswith("DRIVER-ERROR"):
        raise common.ModelError(line)
    for seg in line.split("\t"):
        f = seg.split("#")
        oc = f[0]
        if oc.startswith("err:"):
            oc = ERRCLASS.get(oc[4:], "other:" + oc[4:])
        out.append({"out": oc, "decls": _lst(f[1]), "tags": _lst(f[2]), "dirs": _lst(f[3]), "vf": _lst(f[4]),
                    "cf": _lst(f[5]), "resolve": _lst(f[6]), "neff": int(f[7])})
    return out


# ------------------------------------------------------------------ implementation side

_EUPS = None


def _eups():
    global _EUPS
    if _EUPS is None:
        _EUPS = common.import_eups()
        from eups import hooks
        if "beta" not in hooks.config.Eups.globalTags:
            hooks.config.Eups.globalTags += ["beta"]
    return _EUPS


def _quiet():
    dn = os.open(os.devnull, os.O_WRONLY)
    os.dup2(dn, 1)
    os.dup2(dn, 2)


def setup_world(root):
    for s in STACKS + ["user"]:
        os.makedirs(os.path.join(root, s, "ups_db"), exist_ok=True)
    ensure_products(root)


def ensure_products(root):
    """product directories and table files are not database records: keep them all in place (remove deletes them)"""
    for n in NAMES:
        for v in VERSIONS:
            for d in DIRVARS:
                p = root + cdir(n, v, d) + "/ups"
                if not os.path.isdir(p):
                    os.makedirs(p, exist_ok=True)
                for tb in (None, "alt"):
                    t = root + ctable(n, v, d, tb)
                    if not os.path.exists(t):
                        with open(t, "w") as fd:
                            fd.write("# table %s\n" % ctable(n, v, d, tb))     # distinct content per path


def world_environ(root, flavor):
    return common.scrubbed_environ({"EUPS_PATH": ":".join(os.path.join(root, s) for s in STACKS),
                                    "EUPS_USERDATA": os.path.join(root, "user"), "EUPS_FLAVOR": flavor})


def make_eups(root, flavor):
    e = _eups()
    os.environ.clear()
    os.environ.update(world_environ(root, flavor))
    x = e.Eups(flavor=flavor)
    x.selectVRO(None, None, None, None)       # as cmd.createEups does
    return x


def do_op(x, root, o):
    """perform one operation on Eups instance x; returns the outcome class"""
    e = _eups()
    x.force = bool(o["F"])
    x.noaction = bool(o["N"])
    stack = os.path.join(root, o["s"]) if o["s"] else None
    k = o["k"]
    try:
        if k == "D":
            d = root + cdir(o["n"], o["v"], o["d"]) if o["d"] else None
            tb = root + ctable(o["n"], o["v"], o["d"], "alt") if (o.get("tb") and o["d"]) else None
            x.declare(o["n"], o["v"], d, stack, tb, o["t"])
        elif k == "A":
            x.assignTag(o["t"], o["n"], o["v"], stack)
        elif k == "U":
            x.unassignTag(o["t"], o["n"], o["v"], stack)
        elif k == "X":
            x.undeclare(o["n"], o["v"], stack)
        elif k == "T":
            x.undeclare(o["n"], o["v"], stack, tag=o["t"], undeclareVersionAndTag=bool(o["both"]))
        elif k == "R":
            x.remove(o["n"], o["v"])
        else:
            raise ValueError(k)
        return "ok"
    except e.ProductNotFound:
        return "notfound"
    except e.EupsException as ex:
        return "refused"
    except Exception as ex:  # noqa
        return "other:" + type(ex).__name__
    finally:
        x.force = False
        x.noaction = False


def _child_op(root, o):
    _quiet()
    x = make_eups(root, o["f"])
    return do_op(x, root, o)


def read_state(root, flavors):
    """a fresh reader: nothing cached, new Database objects"""
    e = _eups()
    sys.modules["eups.db.Database"]._databases.clear()
    os.environ.clear()
    os.environ.update(world_environ(root, flavors[0]))
    r = e.Eups(readCache=False)

    def canon(p):
        if p is None:
            return "None"
        return p[len(root):] if p.startswith(root + "/") else p

    st = {"decls": [], "tags": [], "dirs": [], "vf": [], "cf": [], "resolve": []}
    for s in STACKS:
        dbp = os.path.join(root, s, "ups_db")
        db = e.db.Database(dbp)
        for n in sorted(os.listdir(dbp)):
            p = os.path.join(dbp, n)
            if not os.path.isdir(p):
                st["dirs"].append([s, "FILE:" + n])
                continue
            st["dirs"].append([s, n])
            for fn in sorted(os.listdir(p)):
                if fn.endswith(".version"):
                    st["vf"].append([s, n, fn[:-len(".version")]])
                elif fn.endswith(".chain"):
                    st["cf"].append([s, n, fn[:-len(".chain")]])
                else:
                    st["vf"].append([s, n, "STRAY:" + fn])
            for prod in db.findProducts(n):
                st["decls"].append([s, n, prod.version, prod.flavor, canon(prod.dir), canon(prod.tablefile)])
            for (tag, vers, flavor) in db.getTagAssignments(n):
                st["tags"].append([s, n, tag, flavor, vers])
    for n in NAMES:
        for t in TAGS:
            for f in flavors:
                p = r.findTaggedProduct(n, t, flavor=f, noCache=True)
                if p is not None:
                    st["resolve"].append([n, t, f, os.path.basename(p.stackRoot()), p.version])
    for k in st:
        st[k].sort()
    return st


def impl_history(case):
    """runs in a pool worker; returns the per-operation observations"""
    _eups()
    root = common.scratch_dir()
    saved = dict(os.environ)
    out = []
    try:
        setup_world(root)
        insts = {}
        for o in case["ops"]:
            ensure_products(root)
            if case["mode"] == "fork":
                r = common.in_child(_child_op, root, o, timeout=120)
                oc = r[1] if r[0] == "ok" else "other:child-%s" % (r[1] if len(r) > 1 else r[0],)
            elif case["mode"] == "proc":
                oc = do_op(make_eups(root, o["f"]), root, o)
            else:
                if o["f"] not in insts:
                    insts[o["f"]] = make_eups(root, o["f"])
                oc = do_op(insts[o["f"]], root, o)
            st = read_state(root, case["flavors"])
            st["out"] = oc
            out.append(st)
    finally:
        shutil.rmtree(root, ignore_errors=True)
        os.environ.clear()
        os.environ.update(saved)
    return out


def _worker_init():
    _quiet()
    _eups()


_POOL = None


def pool():
    global _POOL
    if _POOL is None:
        n = min(16, os.cpu_count() or 4)
        _POOL = multiprocessing.get_context("fork").Pool(n, initializer=_worker_init)
    return _POOL


def impl_many(cases):
    return pool().map(impl_history, cases, chunksize=1)


def impl_one(case):
    """one history, in a pool worker (quiet, and the main process keeps its environment)"""
    return pool().apply(impl_history, (case,))


# ------------------------------------------------------------------ the property's own oracle
#
# The abstract specification, written directly from the property text: the database is a set of declarations
# (stack, product, version, flavor) -> (directory, table) and a tag map (stack, product, tag, flavor) -> version.
# It is evaluated on what the fresh reader of the *implementation* reported before the operation and compared
# with what it reports afterwards.

def spec_step(decls, tags, o, path=STACKS):
    """-> (outcome class, decls', tags').  decls: {(s,n,v,f): (dir, table)}, tags: {(s,n,t,f): v}"""
    decls, tags = dict(decls), dict(tags)
    f, n = o["f"], o["n"]
    fls = [f, "generic"]
    roots = [o["s"]] if o["s"] else list(path)
    unchanged = lambda oc: (oc, decls, tags)

    def exact(v, fl=f, rs=None):
        for s in (rs or roots):
            if (s, n, v, fl) in decls:
                return s
        return None

    def tagged(t, rs):
        for s in rs:
            v = tags.get((s, n, t, f))
            if v is not None and (s, n, v, f) in decls:
                return s, v
        return None

    def undeclare(s, v):
        del decls[(s, n, v, f)]
        for k in [k for k in tags if k[0] == s and k[1] == n and k[3] == f and tags[k] == v]:
            del tags[k]                    # every tag on it goes with it

    def the_version(v):
        """version and stack an undeclare without / with version means"""
        if v is None:
            found = set((k[2], k[3]) for k in decls if k[1] == n and k[0] in roots and k[3] in fls)
            if not found:
                return "notfound", None, None
            if len(found) > 1:
                return "refused", None, None
            v = list(found)[0][0]
        s = exact(v)
        if s is None:
            return "notfound", None, None
        return None, s, v

    k = o["k"]
    if k == "D":
        v, t = o["v"], o["t"]
        d = cdir(n, v, o["d"]) if o["d"] else None
        tb = ctable(n, v, o["d"], "alt") if (o.get("tb") and o["d"]) else None
        if t and (d is None or tb is None):
            for fl in fls:                 # complete the request from the declaration that exists
                s0 = exact(v, fl)
                if s0:
                    od, otb = decls[(s0, n, v, fl)]
                    if d is None:
                        d = od
                    if tb is None and d == od:
                        tb = otb
                    break
        if d is None:
            return unchanged("refused")
        if tb is None:
            tb = d + "/ups/" + n + ".table"
        tg = o["s"] or path[0]
        if not t and not any(kk[1] == n and kk[3] in fls for kk in decls):
            t = "current"                  # first version that can be found of this product
        old = decls.get((tg, n, v, f))
        write = True
        if old is not None and not o["F"]:
            if old == (d, tb):
                write = False
            elif t:
                write = False              # only the tag is declared
            else:
                return unchanged("refused")
        if o["N"]:
            return unchanged("ok")
        if write:
            decls[(tg, n, v, f)] = (d, tb)
        if t:
            for s in path:                 # the tag moves: afterwards set here and in no other stack of the path
                tags.pop((s, n, t, f), None)
            tags[(tg, n, t, f)] = v
        return "ok", decls, tags
    if k == "A":
        s = exact(o["v"])
        if s is None:
            return unchanged("notfound")
        tags[(s, n, o["t"], f)] = o["v"]
        return "ok", decls, tags
    if k == "U" or (k == "T" and not o["both"]):
        t, v = o["t"], o["v"]
        if v is not None:
            s = exact(v)
            if s is None:
                return unchanged("notfound")
            if tags.get((s, n, t, f)) == v and not o["N"]:
                del tags[(s, n, t, f)]
            return "ok", decls, tags
        if o["s"] is None:
            hit = tagged(t, path)
            if hit is None:
                return unchanged("ok" if tagged("current", path) else "notfound")
            if not o["N"]:
                del tags[(hit[0], n, t, f)]
            return "ok", decls, tags
        if not o["N"]:
            tags.pop((o["s"], n, t, f), None)
        return "ok", decls, tags
    if k == "X" or k == "R":
        if k == "R":
            roots = list(path)
        err, s, v = the_version(o["v"])
        if err:
            return unchanged(err)
        if not o["N"]:
            undeclare(s, v)
        return "ok", decls, tags
    if k == "T":
        t, v = o["t"], o["v"]
        if v is None:
            # versions (of this flavor or generic) carrying the tag in the stacks searched, plus the version the
            # tag resolves to on the whole path
            cands = set()
            top = tagged(t, path)
            for s in roots:
                for fl in fls:
                    if any(kk[0] == s and kk[1] == n and kk[3] == fl for kk in decls):
                        if top:
                            cands.add((top[1], f))
                        vv = tags.get((s, n, t, fl))
                        if vv is not None and (s, n, vv, fl) in decls:
                            cands.add((vv, fl))
            if len(cands) == 1:
                v = list(cands)[0][0]
        err, s, v = the_version(v)
        if err:
            return unchanged(err)
        if not o["N"]:
            undeclare(s, v)
        return "ok", decls, tags
    raise ValueError(o)


def state_maps(st):
    decls = {(s, n, v, f): (d, tb) for s, n, v, f, d, tb in st["decls"]}
    tags = {(s, n, t, f): v for s, n, t, f, v in st["tags"]}
    return decls, tags


EMPTY = {"decls": [], "tags": [], "dirs": [], "vf": [], "cf": [], "resolve": [], "out": "ok"}


def oracle(case, obs):
    """first operation at which the implementation departs from the property: (index, kind, expected, what) or None"""
    prev = EMPTY
    for i, (o, st) in enumerate(zip(case["ops"], obs)):
        d0, t0 = state_maps(prev)
        d1, t1 = state_maps(st)
        if len(d1) != len(st["decls"]) or len(t1) != len(st["tags"]):
            return i, "reader-duplicate", None, "the reader lists a declaration or a tag twice"
        eo, ed, et = spec_step(d0, t0, o)
        # stated clauses first, so that the kind names the clause that broke
        for k, v in t1.items():
            if (k[0], k[1], v, k[3]) not in d1:
                return i, "dangling-tag", None, "tag %s of %s points at undeclared version %s in %s" % (k[2], k[1], v, k[0])
        if st["out"] != eo:
            return i, "outcome", eo, "operation ended %s, the specification says %s" % (st["out"], eo)
        if o["k"] == "D" and eo == "ok" and not o["N"] and o["t"]:
            stale = [k for k in t1 if k[1] == o["n"] and k[2] == o["t"] and k[3] == o["f"] and k[0] != (o["s"] or STACKS[0])]
            if stale:
                return i, "tag-not-moved", sorted(et.items()), \
                    "declare with tag %s left the tag assigned in %s as well" % (o["t"], stale[0][0])
        if d1 != ed:
            kind = "frame-decl" if all(ed.get(k) == d1.get(k) for k in set(ed) | set(d1)
                                       if k[1] == o["n"] and k[3] == o["f"]) else "declarations"
            return i, kind, sorted(ed.items()), "declarations after the operation differ from the specification"
        if t1 != et:
            kind = "frame-tag" if all(et.get(k) == t1.get(k) for k in set(et) | set(t1)
                                      if k[1] == o["n"] and k[3] == o["f"]) else "tags"
            return i, kind, sorted(et.items()), "tag assignments after the operation differ from the specification"
        # resolving a tag yields the first stack's assignment
        for n, t, f, s, v in st["resolve"]:
            exp = None
            for s_ in STACKS:
                vv = t1.get((s_, n, t, f))
                if vv is not None and (s_, n, vv, f) in d1:
                    exp = (s_, vv)
                    break
            if exp != (s, v):
                return i, "resolve", exp, "tag %s of %s resolves to %s %s" % (t, n, s, v)
        # the listing holds exactly the files the records need
        if sorted(set((s, n, v) for (s, n, v, f) in d1)) != [tuple(x) for x in st["vf"]]:
            return i, "listing", None, "version files on disk do not match the declarations read"
        if sorted(set((s, n, t) for (s, n, t, f) in t1)) != [tuple(x) for x in st["cf"]]:
            return i, "listing", None, "chain files on disk do not match the tags read"
        prev = st
    return None


# ------------------------------------------------------------------ comparison, shrinking

KEYS = ["out", "decls", "tags", "dirs", "vf", "cf", "resolve"]


def first_diff(mres, ires):
    for i, (m, im) in enumerate(zip(mres, ires)):
        for k in KEYS:
            if m[k] != im[k]:
                return i, k
    return None


def evaluate(ctx, cases, pinned=False):
    """-> list of (case, model observations, impl observations, disagreement, oracle failure)"""
    lines = [hist_line(c, pinned) for c in cases]
    mres = [parse_model(l) for l in ctx.model(lines)]
    ires = impl_many(cases)
    return [(c, m, i, first_diff(m, i), oracle(c, i)) for c, m, i in zip(cases, mres, ires)]


def ddmin(case, test):
    """delta debugging on the list of operations; test(case) is true when the case still shows the problem"""
    ops = list(case["ops"])
    n = 2
    while len(ops) >= 2:
        chunk = max(1, len(ops) // n)
        reduced = False
        for start in range(0, len(ops), chunk):
            cand = ops[:start] + ops[start + chunk:]
            if cand and test(dict(case, ops=cand)):
                ops = cand
                n = max(n - 1, 2)
                reduced = True
                break
        if not reduced:
            if chunk == 1:
                break
            n = min(n * 2, len(ops))
    return dict(case, ops=ops)


def shrink_oracle(ctx, case, kind):
    def test(c):
        obs = impl_one(c)
        r = oracle(c, obs)
        return r is not None and r[1] == kind
    c = ddmin(case, test)
    # cut the tail after the failing operation
    r = oracle(c, impl_one(c))
    if r is not None:
        c = dict(c, ops=c["ops"][:r[0] + 1])
    return c


def shrink_disagreement(ctx, case, pinned):
    def test(c):
        m = parse_model(ctx.model([hist_line(c, pinned)])[0])
        return first_diff(m, impl_one(c)) is not None
    return ddmin(case, test)


def shape(case):
    return "%s/%s/len%02d-%02d" % (case["mode"], "+".join(case["flavors"]), len(case["ops"]) // 5 * 5,
                                   len(case["ops"]) // 5 * 5 + 4)


def process(ctx, results, pinned=False, budget=[6]):
    for c, m, i, dis, orc in results:
        ctx.count(len(c["ops"]), key=shape(c),
                  nontrivial=hist_line(c) if any(st["decls"] for st in i) else None)
        for o, st in zip(c["ops"], i):
            ctx.bump("op/%s/%s" % (o["k"], st["out"].split(":")[0]))
        if dis is None:
            ctx.traces_validated += 1
        else:
            cc = shrink_disagreement(ctx, c, pinned) if budget[0] > 0 else c
            budget[0] -= 1
            mm = parse_model(ctx.model([hist_line(cc, pinned)])[0])
            ii = impl_one(cc)
            d2 = first_diff(mm, ii) or dis
            j, k = d2
            ctx.disagree(cc, {"at": j, "field": k, "value": mm[j][k] if j < len(mm) else None},
                         {"at": j, "field": k, "value": ii[j][k] if j < len(ii) else None},
                         where="operation %d (%s), %s" % (j, cc["ops"][j]["k"] if j < len(cc["ops"]) else "?", k))
        if orc is not None:
            idx, kind, exp, what = orc
            cc = shrink_oracle(ctx, c, kind) if budget[0] > 0 else dict(c, ops=c["ops"][:idx + 1])
            budget[0] -= 1
            obs = impl_one(cc)
            r = oracle(cc, obs) or orc
            ctx.fail(r[1], cc, expected=r[2], observed=obs[min(r[0], len(obs) - 1)] if obs else None, what=r[3])


def corpus_cases():
    d = os.path.join(common.ROOT, "corpus", "C06")
    out = []
    if os.path.isdir(d):
        for f in sorted(os.listdir(d)):
            if f.endswith(".json"):
                out.append(json.load(open(os.path.join(d, f)))["input"])
    return out


def configure(ctx):
    ctx.rule = ("random histories of declare (new / same / conflicting / directory taken from the existing "
                "declaration; with and without tag, force, noaction), assignTag, unassignTag, undeclare, "
                "undeclare --tag (with and without the version), remove over 3 products x 3 versions x 2 flavors "
                "(Linux64+Darwin or Linux64+generic) x tags current/stable/beta x 2 stacks on EUPS_PATH, each target "
                "stack explicit or left to the search; every operation in a freshly built Eups (forked child per "
                "operation, or one process), or one instance per flavor for the whole history; one evaluation = one "
                "operation followed by a fresh reader; a history is non-trivial when some declaration exists at some "
                "point; distinct = distinct encoded history")
    ctx.trusted_base = common.COMMON_TRUSTED + [
        "modelled, not verified: the product cache (ProductStack) answers findProduct/findProducts/findTaggedProduct "
        "as the database files would (that is C07); text format of version and chain files (C16); python dict order; "
        "os.listdir order only affects the order of effects, not the resulting records"]
    ctx.assumptions = [
        "global tags only (current, stable, beta); no user tags, no tag:<name> pseudo-versions",
        "product directories and table files lie outside the stacks, exist, and table files differ in content iff they differ in path",
        "every ups_db is writable; no product is set up; fallback flavor list is the shipped one (flavor, generic)",
        "a target stack that is not given means the first stack of EUPS_PATH for declare (the home-stack inference from the product directory is not modelled)"]


def run(ctx):
    configure(ctx)
    ctx.check_theorems()
    try:
        corp = corpus_cases()
        process(ctx, evaluate(ctx, corp))
        nh = ctx.size(600, 3000)
        lo, hi = 5, ctx.size(25, 60)
        cases = [gen_history(ctx.rng, ctx.rng.randint(lo, hi)) for _ in range(nh)]
        for c in cases[:2]:
            ctx.sample(c)
        for k in range(0, len(cases), 400):
            process(ctx, evaluate(ctx, cases[k:k + 400]))
    finally:
        if _POOL is not None:
            _POOL.close()
            _POOL.join()


def replay(ctx, path):
    configure(ctx)
    obj = json.load(open(path))
    c = obj["input"] if "input" in obj else obj["first_disagreement"]["case"]
    try:
        process(ctx, evaluate(ctx, [c]))
    finally:
        if _POOL is not None:
            _POOL.close()
            _POOL.join()
    bad = [f for f in ctx.failures if not ctx._known(f)] or ctx.disagreements
    for f in ctx.failures:
        print("oracle: %s: %s" % (f["kind"], f["what"]))
    for d in ctx.disagreements:
        print("model/implementation differ at %s: model %s, implementation %s" % (d["where"], d["model"], d["impl"]))
    print("replay %s: %s" % (path, "still fails" if bad else "passes"))
    return 1 if bad else 0
