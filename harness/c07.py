"""C07 - answers served from the product cache equal the answers in the database files.

Model: coq/Model/Cache.v (on top of Model/Db.v)   Theorems: coq/Props/C07.v
Implementation: the real Eups / ProductStack / ProductFamily / Database code on two scratch stacks and two user
data directories.  A case is a sequence of *processes*; every process runs in a forked child that has never built
an Eups before (as every command-line invocation is), builds one Eups (the fromCache load of every stack on the
path), performs its operations (each: database update ; ensureInSync ; in-memory write-through ; save of the
invoking flavor's pickle) and may be killed by an injected os._exit right after (or right before) the k-th
database call of one of its operations.  Cache files are deleted at arbitrary points.  Reader processes ask every
query with noCache=False and noCache=True, for every flavor.

  case = {"procs": [proc, ...]}
  proc = {"u": "u1"|"u2", "f": flavor, "ops": [op, ...], "q": bool,
          "crash": None | {"op": i, "g": k, "when": "pre"|"post"}}
       | {"u": user, "adm": True, "f": flavor, "ops": [], ...}   an administrator's load: Eups(asAdmin=True), as
                                                                 eups admin buildCache -A builds it (persists into ups_db)
       | {"del": [loc, stack, flavor]}                      loc = "u1" | "u2" | "db"   (an outside deletion)
       | {"u": user, "f": flavor, "live": [step, ...]}      a session: one process in which several Eups instances of the
                                                            user live at the same time (Model/CacheLive.v)
  step = {"new": 1}                     one more instance is built (the instances are numbered in that order)
       | {"i": k, "op": op}              instance k runs an operation
       | {"i": k, "table": [stack|None, name, version]}   instance k finds the product through the cache and parses its
                                                            table on demand (Product.getTable hands it back to the stack)
       | {"i": k, "ask": 1}              instance k is asked every query, through the cache and from the files
  op   = an operation of harness/c06.py  |  {"k": "DC", "loc": loc, "s": stack, "fl": flavor}
       | {"k": "UA", "t": user tag, "n": name, "v": version, "s": stack|None, "f": flavor, "F": bool, "N": bool}
                                                            Eups.assignTag with a user tag (assign, or move to v)
       | {"k": "UU", "t": user tag, "n": name, "v": version|None, "s": stack|None, ...}   Eups.unassignTag

User tags: every user has his own (hooks.config.Eups.userTags): u1 mine, exp; u2 mine, lab.  Their chain files
live in the user's tag directory for the stack (the directory of his cache files), one subdirectory per product.

After every process the modification times of all record and cache files are rewritten to the model's logical
stamps (BASE + stamp seconds), so that no comparison depends on the granularity of the wall clock; which files a
process touched is compared with the model before that.

Compared with the model after every process: outcome of every operation (or the injected death), the set of
record files, the set and the unpickled content of the cache files of both users and of ups_db, which files were
touched, the flavors each loaded stack holds, and every answer (through the cache and from the files).
Oracle (on the implementation alone): answers through the cache == answers from the files.
"""
import json
import multiprocessing
import os
import pickle
import shutil
import sys
import time

import common
from common import enc
import c06

STACKS = c06.STACKS
NAMES = c06.NAMES
VERSIONS = c06.VERSIONS
TAGS = c06.TAGS
USERS = ["u1", "u2"]
UTAGS = {"u1": ["mine", "exp"], "u2": ["mine", "lab"]}
ALLUTAGS = ["mine", "exp", "lab"]
LOCS = USERS + ["db"]
ALLFLAVORS = ["Linux64", "generic", "Darwin"]
BASE = 1000000000          # logical stamp k is written as the modification time BASE + k seconds
EXT = ".pickleDB1_3_0"
CRASH_STATUS = 17


# ------------------------------------------------------------------ file layout

def ups_db(root, s):
    return os.path.join(root, s, "ups_db")


def cache_dir(root, loc, s):
    if loc == "db":
        return ups_db(root, s)
    return os.path.join(root, loc, "_caches_", os.path.join(root, s)[1:])


def pickle_path(root, loc, s, fl):
    return os.path.join(cache_dir(root, loc, s), fl + EXT)


def setup_world(root):
    for s in STACKS + USERS:
        os.makedirs(os.path.join(root, s, "ups_db"), exist_ok=True)
    for d in ("/prod/tables", "/prod/extra"):          # where harness/c06.py keeps table files outside the products
        os.makedirs(root + d, exist_ok=True)
    c06.ensure_products(root)


def proc_environ(root, u, flavor):
    return common.scrubbed_environ({"EUPS_PATH": ":".join(os.path.join(root, s) for s in STACKS),
                                    "EUPS_USERDATA": os.path.join(root, u), "EUPS_FLAVOR": flavor})


# ------------------------------------------------------------------ inside a child: one process

def _fresh_interpreter_state():
    """what a newly started python has: no fallback flavor list installed yet, no Database singletons"""
    e = c06._eups()
    from eups import utils
    if hasattr(utils.Flavor, "_fallbackFlavors"):
        del utils.Flavor._fallbackFlavors
    sys.modules["eups.db.Database"]._databases.clear()
    return e


def _install_crash(crash_state):
    """kill the process right before / right after the k-th outermost mutating call on a Database object made
    while crash_state['armed'] (a nested call - declare assigning its tags, undeclare removing them - is part of
    the outer one)"""
    dbmod = sys.modules["eups.db.Database"]
    cls = dbmod._Database
    depth = [0]

    def wrap(name):
        orig = getattr(cls, name)

        def wrapped(self, *a, **kw):
            outer = depth[0] == 0 and crash_state.get("armed")
            if outer:
                k = crash_state["count"]
                if k == crash_state["g"] and crash_state["when"] == "pre":
                    os._exit(CRASH_STATUS)
            depth[0] += 1
            try:
                r = orig(self, *a, **kw)
            finally:
                depth[0] -= 1
            if outer:
                crash_state["count"] = k + 1
                if k == crash_state["g"] and crash_state["when"] == "post":
                    os._exit(CRASH_STATUS)
            return r
        setattr(cls, name, wrapped)

    for nm in ("declare", "undeclare", "assignTag", "unassignTag"):
        wrap(nm)


def _canon(root, p):
    if p is None:
        return "None"
    return p[len(root):] if p.startswith(root + "/") else p


def _prod(root, p):
    if p is None:
        return None
    return [os.path.basename(p.stackRoot()), p.name, p.version, p.flavor, _canon(root, p.dir),
            _canon(root, p.tablefile), sorted(str(t) for t in p.tags)]


def ask_everything(x, root, flavors, utags=()):
    """every query of the property, through the cache and from the files"""
    e = c06._eups()
    from eups import utils
    ans = {"decl": [], "tag": [], "pdecl": [], "ptag": [], "list": [], "utag": [], "putag": []}
    flavors = list(dict.fromkeys(flavors))
    for mode, nc in (("cache", False), ("files", True)):
        for n in NAMES:
            for fl in flavors:
                for v in VERSIONS:
                    for s in STACKS:
                        p = x.findProduct(n, v, eupsPathDirs=os.path.join(root, s), flavor=fl, noCache=nc)
                        if p is not None:
                            ans["decl"].append([mode, s, n, v, fl] + _prod(root, p)[4:])
                    p = x.findProduct(n, v, flavor=fl, noCache=nc)
                    if p is not None:
                        ans["pdecl"].append([mode, n, v, fl] + _prod(root, p)[:1] + _prod(root, p)[4:])
                for t in TAGS:
                    for s in STACKS:
                        p = x.findTaggedProduct(n, t, eupsPathDirs=os.path.join(root, s), flavor=fl, noCache=nc)
                        if p is not None:
                            ans["tag"].append([mode, s, n, t, fl, p.version])
                    p = x.findTaggedProduct(n, t, flavor=fl, noCache=nc)
                    if p is not None:
                        ans["ptag"].append([mode, n, t, fl, os.path.basename(p.stackRoot()), p.version])
                for t in utags:
                    for s in STACKS:
                        p = x.findTaggedProduct(n, t, eupsPathDirs=os.path.join(root, s), flavor=fl, noCache=nc)
                        if p is not None:
                            ans["utag"].append([mode, s, n, t, fl, p.version])
                    p = x.findTaggedProduct(n, t, eupsPathDirs=[os.path.join(root, s) for s in STACKS], flavor=fl,
                                            noCache=nc)
                    if p is not None:
                        ans["putag"].append([mode, n, t, fl, os.path.basename(p.stackRoot()), p.version])
    # eups list: Eups.findProducts has no file mode of its own; its file answer is Database.findProducts
    for n in NAMES:
        for s in STACKS:
            # one stack at a time: over several stacks findProducts merges equal (name, version, flavor) (utils.uniq)
            for p in x.findProducts(n, eupsPathDirs=[os.path.join(root, s)]):
                ans["list"].append(["cache"] + _prod(root, p))
            db = e.db.Database(ups_db(root, s))
            for p in db.findProducts(n, flavors=list(dict.fromkeys(utils.Flavor().getFallbackFlavors(x.flavor, True)))):
                p.db = ups_db(root, s)
                ans["list"].append(["files"] + _prod(root, p))
    for k in ans:
        ans[k].sort()
    return ans


def do_uop(x, root, o):
    """Eups.assignTag / unassignTag with a user tag; outcome classes as c06.do_op"""
    e = c06._eups()
    x.force = bool(o.get("F"))
    x.noaction = bool(o.get("N"))
    stack = os.path.join(root, o["s"]) if o["s"] else None
    try:
        if o["k"] == "UA":
            x.assignTag(o["t"], o["n"], o["v"], stack)
        else:
            x.unassignTag(o["t"], o["n"], o["v"], stack)
        return "ok"
    except e.ProductNotFound:
        return "notfound"
    except e.EupsException:
        return "refused"
    except Exception as ex:  # noqa
        return "other:" + type(ex).__name__
    finally:
        x.force = False
        x.noaction = False


def _proc_child(root, proc):
    e = _fresh_interpreter_state()
    c06._quiet()
    os.environ.clear()
    os.environ.update(proc_environ(root, proc["u"], proc["f"]))
    from eups import hooks
    hooks.config.Eups.userTags = list(UTAGS[proc["u"]])
    crash = proc.get("crash")
    cs = {"armed": False}
    if crash:
        cs.update({"g": crash["g"], "when": crash["when"], "count": 0})
        _install_crash(cs)
    try:
        x = e.Eups(flavor=proc["f"], asAdmin=bool(proc.get("adm")))
    except Exception as ex:  # noqa
        # building the Eups is part of every command: a raise here is reported, not hidden
        return {"raised": "%s: %s" % (type(ex).__name__, str(ex)[:200]), "loaded": {}, "out": []}
    x.selectVRO(None, None, None, None)
    out = {"loaded": {os.path.basename(k): sorted(v.getFlavors()) for k, v in x.versions.items()
                      if os.path.basename(k) in STACKS},
           "out": []}
    for i, o in enumerate(proc["ops"]):
        if o["k"] == "DC":
            p = pickle_path(root, o["loc"], o["s"], o["fl"])
            if os.path.exists(p):
                os.remove(p)
            out["out"].append("ok")
            continue
        c06.ensure_products(root)
        if crash and crash["op"] == i:
            cs["armed"] = True
            cs["count"] = 0
        out["out"].append(do_uop(x, root, o) if o["k"] in ("UA", "UU") else c06.do_op(x, root, o))
        cs["armed"] = False
    if proc.get("q"):
        from eups import utils
        out["ans"] = ask_everything(x, root, utils.Flavor().getFallbackFlavors(proc["f"], True) + ALLFLAVORS,
                                    UTAGS[proc["u"]])
    return out


def _advance_fs_clock(root):
    """wait until the clock that stamps the files has moved on: two steps of one process must not write within the
    same tick of a coarse clock (clock_strict; between processes the model's stamps are written instead)"""
    p = os.path.join(root, ".clock")

    def stamp():
        with open(p, "w") as fd:
            fd.write("x")
        return os.stat(p).st_mtime_ns
    t0 = stamp()
    while stamp() <= t0:
        time.sleep(0.0004)


def _session_child(root, proc):
    """several live instances in one process; no Database singleton is dropped between them (one interpreter)"""
    e = _fresh_interpreter_state()
    c06._quiet()
    os.environ.clear()
    os.environ.update(proc_environ(root, proc["u"], proc["f"]))
    from eups import hooks, utils
    hooks.config.Eups.userTags = list(UTAGS[proc["u"]])
    insts = []
    out = {"out": [], "asks": {}}
    for k, st in enumerate(proc["live"]):
        _advance_fs_clock(root)
        if "new" in st:
            try:
                x = e.Eups(flavor=proc["f"])
            except Exception as ex:  # noqa
                out["raised"] = "%s: %s" % (type(ex).__name__, str(ex)[:200])
                return out
            x.selectVRO(None, None, None, None)
            insts.append(x)
            out["out"].append("ok")
            continue
        if st["i"] >= len(insts):
            out["out"].append("undefined")
            continue
        x = insts[st["i"]]
        c06.ensure_products(root)
        if "op" in st:
            o = st["op"]
            out["out"].append(do_uop(x, root, o) if o["k"] in ("UA", "UU") else c06.do_op(x, root, o))
        elif "table" in st:
            s_, n, v = st["table"]
            try:
                p = x.findProduct(n, v, eupsPathDirs=(os.path.join(root, s_) if s_ else None))
                if p is not None:
                    p.getTable()
                out["out"].append("ok")
            except Exception as ex:  # noqa
                out["out"].append("other:" + type(ex).__name__)
        else:
            ans = ask_everything(x, root, utils.Flavor().getFallbackFlavors(proc["f"], True) + ALLFLAVORS,
                                 UTAGS[proc["u"]])
            out["asks"][str(k)] = {"ans": ans,
                                   "loaded": {os.path.basename(kk): sorted(v.getFlavors()) for kk, v in x.versions.items()
                                              if os.path.basename(kk) in STACKS}}
            out["out"].append("ok")
    return out


# ------------------------------------------------------------------ outside the children: the files

def scan_records(root):
    """{'s1/D/a': mtime_ns, 's1/V/a/1.0': ..., 's1/C/a/current': ...} for product directories, version, chain files"""
    out = {}
    for s in STACKS:
        dbp = ups_db(root, s)
        for n in sorted(os.listdir(dbp)):
            p = os.path.join(dbp, n)
            if not os.path.isdir(p):
                continue
            out["%s/D/%s" % (s, n)] = p
            for fn in sorted(os.listdir(p)):
                if fn.endswith(".version"):
                    out["%s/V/%s/%s" % (s, n, fn[:-len(".version")])] = os.path.join(p, fn)
                elif fn.endswith(".chain"):
                    out["%s/C/%s/%s" % (s, n, fn[:-len(".chain")])] = os.path.join(p, fn)
                else:
                    out["%s/X/%s/%s" % (s, n, fn)] = os.path.join(p, fn)
    return out


def tag_dir(root, u, s):
    return cache_dir(root, u, s)


def scan_urecords(root):
    """the users' tag directories: {'U:u1/s1/D/a': path, 'U:u1/s1/C/a/mine': path}"""
    out = {}
    for u in USERS:
        for s in STACKS:
            d = tag_dir(root, u, s)
            if not os.path.isdir(d):
                continue
            for n in sorted(os.listdir(d)):
                p = os.path.join(d, n)
                if not os.path.isdir(p):
                    continue
                out["U:%s/%s/D/%s" % (u, s, n)] = p
                for fn in sorted(os.listdir(p)):
                    if fn.endswith(".chain"):
                        out["U:%s/%s/C/%s/%s" % (u, s, n, fn[:-len(".chain")])] = os.path.join(p, fn)
                    else:
                        out["U:%s/%s/X/%s/%s" % (u, s, n, fn)] = os.path.join(p, fn)
    return out


def scan_pickles(root):
    out = {}
    for loc in LOCS:
        for s in STACKS:
            d = cache_dir(root, loc, s)
            if not os.path.isdir(d):
                continue
            for fn in sorted(os.listdir(d)):
                if fn.endswith(EXT):
                    out["%s/%s/%s" % (loc, s, fn[:-len(EXT)])] = os.path.join(d, fn)
    return out


def read_pickle(root, path):
    """canonical content of one cache file:
    [[name, [[version, dir, table], ...], [[tag, version], ...], [[user tag, version], ...]], ...]"""
    c06._eups()
    with open(path, "rb") as fd:
        data = pickle.load(fd)
    out = []
    for n in sorted(data):
        fam = data[n]
        out.append([n, sorted([v, _canon(root, d[0]), _canon(root, d[1])] for v, d in fam.versions.items()),
                    sorted([t, v] for t, v in fam.tags.items() if not t.startswith("user:")),
                    sorted([t[len("user:"):], v] for t, v in fam.tags.items() if t.startswith("user:"))])
    return out


def mtimes(paths):
    out = {}
    for k, p in paths.items():
        try:
            st = os.stat(p)
            out[k] = (st.st_mtime_ns, st.st_ino)
        except FileNotFoundError:
            pass
    return out


# ------------------------------------------------------------------ generator

FLAVOR_SETS = [["Linux64", "generic"], ["Linux64", "generic"], ["Linux64", "generic"], ["generic"], ["generic"],
               ["Linux64", "Darwin"]]


def gen_op(rng, decls, tags, f):
    """one operation for an instance of flavor f, aimed (85 %) at what the running specification state holds;
    same mix and same op format as harness/c06.py gen_history"""
    s = rng.choice([None, None, "s1", "s2"])
    o = {"f": f, "s": s, "F": rng.random() < 0.12, "N": rng.random() < 0.06}
    known = [k for k in decls if k[3] == f and (s is None or k[0] == s)]
    tk = [k for k in tags if k[3] == f and (s is None or k[0] == s)]
    aim = rng.random() < 0.85
    r = rng.random()
    if r < 0.40 or not decls:
        o["k"] = "D"
        if aim and known and rng.random() < 0.4:
            k = rng.choice(known)
            o["n"], o["v"] = k[1], k[2]
            same = decls[k][0].rsplit("-", 1)[1]
            o["d"] = rng.choice([same, same, "A", "B", None])
            o["t"] = rng.choice([None, "current", "stable", "beta"]) if o["d"] else rng.choice(TAGS)
        else:
            o["n"], o["v"] = rng.choice(NAMES), rng.choice(VERSIONS)
            o["d"] = rng.choice(["A", "A", "A", "A", "B", None])
            o["t"] = rng.choice([None, None, "current", "stable", "beta"])
        o["tb"] = "alt" if (o["d"] and rng.random() < 0.12) else None
    elif r < 0.53:
        o["k"] = "A"
        o["t"] = rng.choice(TAGS)
        if aim and known:
            k = rng.choice(known)
            o["n"], o["v"] = k[1], k[2]
        else:
            o["n"], o["v"] = rng.choice(NAMES), rng.choice(VERSIONS)
    elif r < 0.65:
        o["k"] = "U"
        if aim and tk:
            k = rng.choice(tk)
            o["t"], o["n"] = k[2], k[1]
            o["v"] = rng.choice([None, tags[k], tags[k]])
        elif aim and known:
            k = rng.choice(known)
            o["t"], o["n"], o["v"] = rng.choice(TAGS), k[1], k[2]
        else:
            o["t"], o["n"], o["v"] = rng.choice(TAGS), rng.choice(NAMES), rng.choice([None] + VERSIONS)
    elif r < 0.83:
        o["k"] = "X"
        if aim and known:
            k = rng.choice(known)
            o["n"], o["v"] = k[1], rng.choice([k[2], k[2], k[2], None])
        else:
            o["n"], o["v"] = rng.choice(NAMES), rng.choice([None] + VERSIONS)
    elif r < 0.94:
        o["k"] = "T"
        o["both"] = rng.random() < 0.5
        if aim and tk:
            k = rng.choice(tk)
            o["t"], o["n"] = k[2], k[1]
            o["v"] = rng.choice([None, None, tags[k]])
        else:
            o["t"], o["n"], o["v"] = rng.choice(TAGS), rng.choice(NAMES), rng.choice([None] + VERSIONS)
    else:
        o["k"] = "R"
        o["s"] = None
        known = [k for k in decls if k[3] == f]
        if aim and known:
            k = rng.choice(known)
            o["n"], o["v"] = k[1], k[2]
        else:
            o["n"], o["v"] = rng.choice(NAMES), rng.choice(VERSIONS)
    return o


def gen_uop(rng, decls, utags, u, f):
    """one user-tag operation of user u (flavor f), aimed at what is declared / what he has tagged"""
    s = rng.choice([None, None, None, "s1", "s2"])
    o = {"f": f, "s": s, "F": False, "N": rng.random() < 0.05, "t": rng.choice(UTAGS[u])}
    known = [k for k in decls if k[3] == f and (s is None or k[0] == s)]
    mine = [k for k in utags if k[0] == u and k[4] == f and (s is None or k[1] == s)]
    if rng.random() < 0.62 or not utags:
        o["k"] = "UA"
        if known and rng.random() < 0.85:
            k = rng.choice(known)
            o["n"], o["v"] = k[1], k[2]
        else:
            o["n"], o["v"] = rng.choice(NAMES), rng.choice(VERSIONS)
    else:
        o["k"] = "UU"
        if mine and rng.random() < 0.8:
            k = rng.choice(mine)
            o["t"], o["n"] = k[3], k[2]
            o["v"] = rng.choice([None, utags[k], utags[k]])
        elif known and rng.random() < 0.7:
            k = rng.choice(known)
            o["n"], o["v"] = k[1], rng.choice([None, k[2]])
        else:
            o["n"], o["v"] = rng.choice(NAMES), rng.choice([None] + VERSIONS)
    return o


def uspec_step(decls, utags, u, o):
    """rough specification state of the user tags, to aim later operations (validity is not required)"""
    f = o["f"]
    if o["k"] == "UA":
        for s in ([o["s"]] if o["s"] else STACKS):
            if (s, o["n"], o["v"], f) in decls:
                utags[(u, s, o["n"], o["t"], f)] = o["v"]
                break
    else:
        for k in [k for k in utags if k[0] == u and k[2] == o["n"] and k[3] == o["t"] and k[4] == f
                  and (o["s"] is None or k[1] == o["s"]) and (o["v"] is None or utags[k] == o["v"])][:1]:
            del utags[k]


def gen_case(rng, max_procs=16, flavors=None, user_tags=None, live=True):
    flavors = flavors or rng.choice(FLAVOR_SETS)
    two_users = rng.random() < 0.6
    users = USERS if two_users else ["u1"]
    # half of the histories have user tags (a third of their operations)
    if user_tags is None:
        user_tags = rng.random() < 0.5
    decls, tags, utags = {}, {}, {}
    procs = []
    while len(procs) < max_procs - 1:
        if procs and rng.random() < 0.08:
            procs.append({"del": [rng.choice(users + ["db"]), rng.choice(STACKS), rng.choice(flavors)]})
            continue
        f = rng.choice(flavors)
        if procs and rng.random() < 0.06 and not (user_tags and tree_variant() is PINNED):
            # (on the pinned tree a user tag's chain file sits among the stack's own; an administrator who does not
            # know the name lists it in ups_db/global.tags, which re-registers it as a global tag for its owner: a
            # third state that the model does not have.  Histories with user tags have no administrator loads there.)
            procs.append({"u": rng.choice(users), "adm": True, "f": f, "ops": [], "q": False, "crash": None})
            continue
        if live and procs and rng.random() < 0.13:
            sess, decls, tags = gen_session(rng, decls, tags, utags, rng.choice(users), f, user_tags)
            procs.append(sess)
            if len(procs) < max_procs and rng.random() < 0.6:
                procs.append({"u": rng.choice(users), "f": rng.choice(flavors), "ops": [], "q": True, "crash": None})
            continue
        p = {"u": rng.choice(users), "f": f, "ops": [], "q": rng.random() < 0.3, "crash": None}
        for _ in range(rng.choice([1, 1, 2, 2, 3, 4])):
            if rng.random() < 0.07:
                p["ops"].append({"k": "DC", "loc": rng.choice(users + ["db"]), "s": rng.choice(STACKS),
                                 "fl": rng.choice(flavors)})
                continue
            if user_tags and decls and rng.random() < 0.36:
                o = gen_uop(rng, decls, utags, p["u"], f)
                uspec_step(decls, utags, p["u"], o)
                p["ops"].append(o)
                continue
            o = gen_op(rng, decls, tags, f)
            _, decls, tags = c06.spec_step(decls, tags, o)
            p["ops"].append(o)
        if rng.random() < 0.25:
            i = rng.randrange(len(p["ops"]))
            p["crash"] = {"op": i, "g": rng.choice([0, 0, 0, 1, 1, 2]), "when": rng.choice(["post", "post", "pre"])}
            p["q"] = False
            # the specification state above assumed the whole process ran; a crash makes later aims a little
            # less accurate, nothing more (validity is not required)
        procs.append(p)
        if len(procs) < max_procs and rng.random() < 0.8:
            procs.append({"u": rng.choice(users), "f": rng.choice(flavors), "ops": [], "q": True, "crash": None})
        if len(procs) >= 4 and rng.random() < 0.12:
            break
    return {"procs": procs[:max_procs]}


def directed_case(rng):
    """a version that carries several tags (global, or the user's own) is undeclared while another version of the
    product stays, and is declared again; then read by the same user (his cache was written through all along) and
    by the other one (who rebuilds).  What a write-through forgets or keeps by mistake shows here."""
    n = rng.choice(NAMES)
    v1, v2 = rng.sample(VERSIONS, 2)
    f = rng.choice(["generic", "generic", "Linux64"])
    u = rng.choice(USERS)
    s = rng.choice([None, "s1", "s2"])
    base = {"f": f, "s": s, "F": False, "N": False}
    t1, t2 = rng.sample(TAGS, 2)
    ops = [dict(base, k="D", n=n, v=v1, d="A", t=t1, tb=None)]
    if rng.random() < 0.5:
        ops.append(dict(base, k="A", t=t2, n=n, v=v1))
    else:
        ops += [dict(base, k=rng.choice(["UA", "A"]), t=(UTAGS[u][0]), n=n, v=v1), dict(base, k="UA", t=UTAGS[u][1], n=n, v=v1)]
        ops = [o if o["k"] != "A" else dict(o, t=t2) for o in ops]
    ops.append(dict(base, k="D", n=n, v=v2, d="A", t=None, tb=None))
    ops.append(dict(base, k="X", n=n, v=v1))
    if rng.random() < 0.3:
        ops.append({"k": "DC", "loc": rng.choice([u, "db"]), "s": rng.choice(STACKS), "fl": f})
    ops.append(dict(base, k="D", n=n, v=v1, d=rng.choice(["A", "B"]), t=rng.choice([None, t1]), tb=None))
    procs, cur = [], []
    for o in ops:
        cur.append(o)
        if rng.random() < 0.6:
            procs.append({"u": u, "f": f, "ops": cur, "q": False, "crash": None})
            cur = []
    if cur:
        procs.append({"u": u, "f": f, "ops": cur, "q": False, "crash": None})
    other = [x for x in USERS if x != u][0]
    procs.append({"u": u, "f": f, "ops": [], "q": True, "crash": None})
    procs.append({"u": other, "f": f, "ops": [], "q": True, "crash": None})
    return {"procs": procs}


TAG_ONLY = ("A", "U", "UA", "UU")


def tag_only(o):
    """an operation that touches chain files only (on a declared version): assign / move / remove a tag"""
    return o["k"] in TAG_ONLY or (o["k"] == "T" and not o.get("both")) or (o["k"] == "D" and not o.get("d"))


def session_features(p):
    """which cross-instance circumstances a session contains (histogram keys)"""
    out = set()
    n = 0
    pending = {}          # instance -> operations run by OTHER instances since its last step
    tables = set()        # instances that parsed a table and have not written through since
    changed = False
    for st in p["live"]:
        if "new" in st:
            if changed:
                out.add("instance-built-after-a-change-by-another")
            pending[n] = []
            n += 1
            continue
        i = st["i"]
        if i not in pending:
            continue
        if "table" in st:
            tables.add(i)
        elif "op" in st:
            if pending[i]:
                out.add("write-through-after-a-change-by-another-instance")
            tables.discard(i)
            changed = True
            for j in pending:
                if j != i:
                    pending[j].append(st["op"])
        else:
            if pending[i]:
                out.add("asked-after-a-change-by-another-instance")
                if any(tag_only(o) for o in pending[i]):
                    out.add("asked-after-a-tag-only-change-by-another-instance")
                if i in tables:
                    out.add("asked-after-a-table-read-and-a-change-by-another-instance")
        pending[i] = []
    out.add("instances%d" % n)
    return sorted(out)


def gen_session(rng, decls, tags, utags, u, f, user_tags):
    """one process with two or three live instances of user u: commands, table reads and questions interleaved"""
    steps = [{"new": 1}, {"new": 1}]
    ninst, asks = 2, 0
    for _ in range(rng.choice([3, 4, 5, 6, 8])):
        r = rng.random()
        i = rng.randrange(ninst)
        if r < 0.50:
            if user_tags and decls and rng.random() < 0.3:
                o = gen_uop(rng, decls, utags, u, f)
                uspec_step(decls, utags, u, o)
            else:
                o = gen_op(rng, decls, tags, f)
                _, decls, tags = c06.spec_step(decls, tags, o)
            steps.append({"i": i, "op": o})
        elif r < 0.66:
            known = [k for k in decls if k[3] == f]
            if known and rng.random() < 0.9:
                k = rng.choice(known)
                steps.append({"i": i, "table": [rng.choice([None, k[0]]), k[1], k[2]]})
            else:
                steps.append({"i": i, "table": [None, rng.choice(NAMES), rng.choice(VERSIONS)]})
        elif r < 0.93:
            if asks < 2:
                asks += 1
                steps.append({"i": i, "ask": 1})
        elif ninst < 3:
            steps.append({"new": 1})
            ninst += 1
    steps.append({"i": rng.randrange(ninst), "ask": 1})
    return {"u": u, "f": f, "live": steps}, decls, tags


def directed_live_case(rng):
    """two instances A and B of one user live in one process.  A may parse a table on demand; B then changes the stack
    (a tag moved between two declared versions, a tag removed, a version declared or undeclared); A is asked; A may
    then write something else through, and B be asked; at the end new processes of both users read."""
    n, n2 = rng.sample(NAMES, 2)
    v1, v2, v3 = rng.sample(VERSIONS, 3)
    f = rng.choice(["generic", "generic", "Linux64"])
    u = rng.choice(USERS)
    s = rng.choice([None, "s1", "s2"])
    t, t2 = rng.sample(TAGS, 2)
    base = {"f": f, "s": s, "F": False, "N": False}
    setup = [dict(base, k="D", n=n, v=v1, d="A", t=t, tb=None), dict(base, k="D", n=n, v=v2, d="A", t=None, tb=None)]
    if rng.random() < 0.5:
        setup.append(dict(base, k="D", n=n2, v=v1, d="A", t=rng.choice([None, t, t2]), tb=None))
    cut = rng.randrange(1, len(setup) + 1)
    procs = [{"u": u, "f": f, "ops": part, "q": False, "crash": None} for part in (setup[:cut], setup[cut:]) if part]
    a, b = rng.choice([(0, 1), (1, 0)])
    live = [{"new": 1}, {"new": 1}]
    if rng.random() < 0.6:
        live.append({"i": a, "table": [s, n, rng.choice([v1, v2])]})
    change = rng.choice(["move", "move", "move-declare", "untag", "untag", "undeclare-tag", "declare", "undeclare"])
    if change == "move":
        op = dict(base, k="A", t=t, n=n, v=v2)
    elif change == "move-declare":
        op = dict(base, k="D", n=n, v=v2, d=None, t=t, tb=None)
    elif change == "untag":
        op = dict(base, k="U", t=t, n=n, v=rng.choice([None, v1]))
    elif change == "undeclare-tag":
        op = dict(base, k="T", t=t, n=n, v=rng.choice([None, v1]), both=False)
    elif change == "declare":
        op = dict(base, k="D", n=n, v=v3, d="A", t=rng.choice([None, t]), tb=None)
    else:
        op = dict(base, k="X", n=n, v=rng.choice([v1, v2]))
    live.append({"i": b, "op": op})
    live.append({"i": a, "ask": 1})
    if rng.random() < 0.6:
        # A writes something else through: its copy of the flavor goes into the cache file
        other = rng.choice([dict(base, k="D", n=n2, v=v2, d="A", t=None, tb=None),
                            dict(base, k="A", t=t2, n=n, v=v2)])
        live.append({"i": a, "op": other})
        if rng.random() < 0.5:
            live.append({"i": b, "ask": 1})
    procs.append({"u": u, "f": f, "live": live})
    other_u = [x for x in USERS if x != u][0]
    procs.append({"u": u, "f": f, "ops": [], "q": True, "crash": None})
    procs.append({"u": other_u, "f": f, "ops": [], "q": True, "crash": None})
    return {"procs": procs}


def directed_live_flavor_case(rng):
    """the cache directory of the user holds a cache file for a flavor that a live instance did not load (it is not the
    instance's flavor nor a fall-back of it), and that file is out of date: somebody else changed that flavor's
    declarations since.  Two instances of the user live in one process; one changes something, the other is asked -
    about every flavor."""
    f, other = rng.choice([("generic", "Linux64"), ("generic", "Darwin"), ("Linux64", "Darwin"), ("Darwin", "Linux64")])
    u = rng.choice(USERS)
    u2 = [x for x in USERS if x != u][0]
    s = rng.choice(["s1", "s2"])
    n, n2 = rng.sample(NAMES, 2)
    v1, v2 = rng.sample(VERSIONS, 2)
    t = rng.choice(TAGS)
    ob = {"f": other, "s": s, "F": False, "N": False}
    fb = {"f": f, "s": rng.choice([None, s]), "F": False, "N": False}
    procs = [{"u": u, "f": other, "ops": [dict(ob, k="D", n=n, v=v1, d="A", t=t, tb=None)], "q": False, "crash": None}]
    change = rng.choice([dict(ob, k="X", n=n, v=v1), dict(ob, k="D", n=n, v=v2, d="A", t=t, tb=None),
                         dict(ob, k="U", t=t, n=n, v=None)])
    procs.append({"u": u2, "f": other, "ops": [change], "q": False, "crash": None})
    if rng.random() < 0.5:
        procs.append({"u": u, "f": f, "ops": [dict(fb, k="D", n=n2, v=v1, d="A", t=None, tb=None)], "q": False, "crash": None})
    a, b = rng.choice([(0, 1), (1, 0)])
    live = [{"new": 1}, {"new": 1}]
    if rng.random() < 0.4:
        live.append({"i": a, "table": [None, n2, v1]})
    live.append({"i": b, "op": dict(fb, k="D", n=n2, v=v2, d="A", t=rng.choice([None, t]), tb=None)})
    live.append({"i": a, "ask": 1})
    procs.append({"u": u, "f": f, "live": live})
    procs.append({"u": u, "f": f, "ops": [], "q": True, "crash": None})
    return {"procs": procs}


# ------------------------------------------------------------------ model side

def op_line(o):
    """an operation of the C06 histories in the line format ocaml/drv_c07.ml reads (dec_op); kept here so that the two
    stay in step whatever harness/c06.py sends to its own driver"""
    opt = lambda x: "~" if x is None else (enc(x) or "%")
    head = [o["k"], enc(o["f"]), opt(o["s"]), "1" if o["F"] else "0", "1" if o["N"] else "0"]
    k = o["k"]
    if k == "D":
        d = c06.cdir(o["n"], o["v"], o["d"]) if o["d"] else None
        tb = c06.ctable(o["n"], o["v"], o["d"], "alt") if (o.get("tb") and o["d"]) else None
        rest = [enc(o["n"]), enc(o["v"]), opt(d), opt(tb), opt(o["t"])]
    elif k == "A":
        rest = [enc(o["t"]), enc(o["n"]), enc(o["v"])]
    elif k == "U":
        rest = [enc(o["t"]), enc(o["n"]), opt(o["v"])]
    elif k == "X":
        rest = [enc(o["n"]), opt(o["v"])]
    elif k == "T":
        rest = [enc(o["n"]), opt(o["v"]), enc(o["t"]), "1" if o["both"] else "0"]
    elif k == "R":
        rest = [enc(o["n"]), enc(o["v"])]
    else:
        raise ValueError(o)
    return ",".join(head + rest)


def pop_line(o):
    if o["k"] == "DC":
        return ",".join(["DC", enc(o["loc"]), enc(o["s"]), enc(o["fl"])])
    if o["k"] in ("UA", "UU"):
        opt = lambda x: "~" if x is None else (enc(x) or "%")
        return ",".join([o["k"], enc(o["f"]), opt(o["s"]), "1" if o.get("F") else "0", "1" if o.get("N") else "0",
                         enc(o["t"]), enc(o["n"]), opt(o["v"]) if o["k"] == "UU" else enc(o["v"])])
    return op_line(o)


def step_line(st):
    if "new" in st:
        return "N"
    if "op" in st:
        return "O@%d@%s" % (st["i"], pop_line(st["op"]))
    if "table" in st:
        return "T@%d" % st["i"]
    return "Q@%d" % st["i"]


def proc_line(p):
    if "del" in p:
        return ";".join(["X"] + [enc(x) for x in p["del"]])
    if "live" in p:
        return ";".join(["S", enc(p["u"]), enc(p["f"]), "&".join(step_line(st) for st in p["live"])])
    cr = p.get("crash")
    crs = "~" if not cr else "%d,%d,%d" % (cr["op"], cr["g"], 1 if cr["when"] == "post" else 0)
    return ";".join(["P", enc(p["u"]), "1" if p.get("adm") else "0", enc(p["f"]), crs, "1" if p.get("q") else "0",
                     "&".join(pop_line(o) for o in p["ops"])])


def case_line(case, v_rm=False, v_init=False, v_uloc=False, v_ustale=False, v_noread=False, v_shared=False,
              v_foreign=False, v_reloadall=False):
    univ = ";".join([",".join(NAMES), ",".join(VERSIONS), ",".join(TAGS), ",".join(ALLFLAVORS), ",".join(ALLUTAGS),
                     "+".join("%s=%s" % (u, ",".join(UTAGS[u])) for u in USERS)])
    b = lambda x: "1" if x else "0"
    return "\t".join(["case", b(v_rm), b(v_init), ",".join(STACKS), univ,
                      "|".join(proc_line(p) for p in case["procs"]), b(v_uloc), b(v_ustale), b(v_noread), b(v_shared),
                      b(v_foreign), b(v_reloadall)])


def _d(x):
    return common.dec("" if x == "%" else x)


OUTCLASS = {"ok": "ok", "err:Undefined": "undefined", "err:NotFound": "notfound", "err:Refused": "refused", "raised": "notfound",
            "crashed": "crashed"}


def parse_content(s):
    out = []
    if not s:
        return out
    for fam in s.split("+"):
        n, vs, ts, us = fam.split("!")
        out.append([_d(n), sorted([_d(x) for x in v.split(":")] for v in vs.split("^")) if vs else [],
                    sorted([_d(x) for x in t.split(":")] for t in ts.split("^")) if ts else [],
                    sorted([_d(x) for x in t.split(":")] for t in us.split("^")) if us else []])
    out.sort()
    return out


def parse_model(line):
    if line.startswith("DRIVER-ERROR"):
        raise common.ModelError(line)
    out = []
    for seg in line.split("\t"):
        oc, recs, pks, loaded, ans, urecs = seg.split("#")
        st = {"out": [OUTCLASS.get(x, "other:" + x) for x in oc.split(",")] if oc else [], "rec": {}, "pk": {},
              "loaded": {}, "ans": None}
        for r in (urecs.split(";") if urecs else []):
            u, s, k, n, x, t = r.split(",")
            key = "U:%s/%s/%s/%s" % (_d(u), _d(s), k, _d(n)) + ("" if k == "D" else "/" + _d(x))
            st["rec"][key] = int(t)
        for r in (recs.split(";") if recs else []):
            s, k, n, x, t = r.split(",")
            key = "%s/%s/%s" % (_d(s), k, _d(n)) + ("" if k == "D" else "/" + _d(x))
            st["rec"][key] = int(t)
        for r in (pks.split(";") if pks else []):
            l, s, f, t, c = r.split(",")
            st["pk"]["%s/%s/%s" % (_d(l), _d(s), _d(f))] = [int(t), parse_content(c)]
        for r in (loaded.split(";") if loaded else []):
            s, fl = r.split("=")
            st["loaded"][_d(s)] = sorted(set(_d(x) for x in fl.split(",") if x))
        if ">" in ans:
            # a session: one block per ask step
            st["asks"] = {}
            for blk in ans.split("@"):
                k, ld, rows, brecs, untracked, untracked_any = blk.split(">")
                lds = {}
                for r in (ld.split(";") if ld else []):
                    s, fl = r.split("=")
                    lds[_d(s)] = sorted(set(_d(x) for x in fl.split(",") if x))
                st["asks"][k] = {"loaded": lds, "chains": [r.split(",") for r in brecs.split(";") if r and r.split(",")[1] == "C"],
                                 "ans": sorted([_d(x) for x in r.split(",")] for r in rows.split(";")) if rows else []}
        elif ans:
            st["ans"] = sorted([_d(x) for x in r.split(",")] for r in ans.split(";"))
        out.append(st)
    return out


def impl_rows(ans):
    """the implementation's answers in the row format of the model driver"""
    rows = []
    md = {"cache": "c", "files": "f"}
    for mode, s, n, v, fl, d, tb, tags in ans["decl"]:
        rows.append(["E", md[mode], s, n, v, fl])
        rows.append(["D", md[mode], s, n, v, fl, d, tb])
        for t in tags:
            if t.startswith("user:"):
                rows.append(["UH", md[mode], s, n, v, t[len("user:"):], fl])
            else:
                rows.append(["H", md[mode], s, n, v, t, fl])
    for mode, s, n, t, fl, v in ans.get("utag", []):
        rows.append(["UT", md[mode], s, n, t, fl, v])
    for mode, n, t, fl, s, v in ans.get("putag", []):
        rows.append(["UG", md[mode], n, t, fl, s, v])
    for mode, n, v, fl, s, d, tb, tags in ans["pdecl"]:
        rows.append(["F", md[mode], n, v, fl, s, d, tb])
    for mode, s, n, t, fl, v in ans["tag"]:
        rows.append(["T", md[mode], s, n, t, fl, v])
    for mode, n, t, fl, s, v in ans["ptag"]:
        rows.append(["G", md[mode], n, t, fl, s, v])
    rows.sort()
    return rows


# ------------------------------------------------------------------ running a case on the implementation

def apply_stamps(root, mst):
    """write the model's logical stamps as modification times"""
    recs, pks = dict(scan_records(root), **scan_urecords(root)), scan_pickles(root)
    # files first, directories last: utime on a file does not touch its directory, but keep the order obvious
    for k, p in sorted(recs.items(), key=lambda kv: kv[0].split("/")[2 if kv[0].startswith("U:") else 1] == "D"):
        if k in mst["rec"]:
            t = BASE + mst["rec"][k]
            os.utime(p, (t, t))
    for k, p in pks.items():
        if k in mst["pk"]:
            t = BASE + mst["pk"][k][0]
            os.utime(p, (t, t))


def impl_case(arg):
    """runs in a pool worker (which never builds an Eups itself); returns one observation per process"""
    case, mres = arg
    c06._eups()
    root = common.scratch_dir()
    saved = dict(os.environ)
    obs = []
    try:
        setup_world(root)
        for p, mst in zip(case["procs"], mres):
            before = mtimes(dict(dict(scan_records(root), **scan_urecords(root)),
                                 **{"P:" + k: v for k, v in scan_pickles(root).items()}))
            o = {"out": [], "loaded": {}, "ans": None, "died": None, "raised": None}
            if "live" in p:
                r = common.in_child(_session_child, root, p, timeout=180)
                if r[0] == "ok":
                    o["out"] = r[1]["out"]
                    o["raised"] = r[1].get("raised")
                    o["asks"] = r[1]["asks"]
                elif r[0] == "died":
                    o["died"] = r[1]
                else:
                    o["died"] = "exception %s: %s" % (r[1], r[2][:300])
            elif "del" in p:
                pp = pickle_path(root, *p["del"])
                if os.path.exists(pp):
                    os.remove(pp)
                o["out"] = ["ok"]
            else:
                r = common.in_child(_proc_child, root, p, timeout=120)
                if r[0] == "ok":
                    o["out"] = r[1]["out"]
                    o["loaded"] = r[1]["loaded"]
                    o["raised"] = r[1].get("raised")
                    if "ans" in r[1]:
                        o["ans"] = r[1]["ans"]
                elif r[0] == "died":
                    o["died"] = r[1]
                else:
                    o["died"] = "exception %s: %s" % (r[1], r[2][:300])
            recs, pks = dict(scan_records(root), **scan_urecords(root)), scan_pickles(root)
            after = mtimes(dict(recs, **{"P:" + k: v for k, v in pks.items()}))
            o["rec"] = sorted(k for k in after if not k.startswith("P:"))
            o["pk"] = {}
            for k, path in pks.items():
                try:
                    o["pk"][k] = read_pickle(root, path)
                except Exception as ex:  # noqa
                    o["pk"][k] = "unreadable: %s" % type(ex).__name__
            o["touched"] = sorted(k for k in after if before.get(k) != after[k])
            obs.append(o)
            apply_stamps(root, mst)
    finally:
        shutil.rmtree(root, ignore_errors=True)
        os.environ.clear()
        os.environ.update(saved)
    return obs


def _worker_init():
    c06._quiet()
    c06._eups()


_POOL = None


def pool():
    global _POOL
    if _POOL is None:
        n = min(16, os.cpu_count() or 4)
        _POOL = multiprocessing.get_context("fork").Pool(n, initializer=_worker_init)
    return _POOL


def close_pool():
    global _POOL
    if _POOL is not None:
        _POOL.close()
        _POOL.join()
        _POOL = None


# ------------------------------------------------------------------ comparison and the property's own oracle

def model_touched(prev, cur):
    out = []
    for k, t in cur["rec"].items():
        if prev is None or prev["rec"].get(k) != t:
            out.append(k)
    for k, (t, _) in cur["pk"].items():
        if prev is None or k not in prev["pk"] or prev["pk"][k][0] != t:
            out.append("P:" + k)
    return sorted(out)


def first_diff(case, mres, obs):
    """first process at which model and implementation differ: (index, field, model value, implementation value)"""
    prev = None
    for i, (p, m, o) in enumerate(zip(case["procs"], mres, obs)):
        crashed_m = bool(m["out"]) and m["out"][-1] == "crashed"
        if o.get("raised"):
            return i, "load-raises", "an Eups", o["raised"]
        if o["died"] is not None:
            if not (crashed_m and o["died"] == CRASH_STATUS << 8):
                return i, "death", m["out"], o["died"]
        else:
            if m["out"] != o["out"]:
                return i, "outcomes", m["out"], o["out"]
        if sorted(m["rec"]) != o["rec"]:
            return i, "records", sorted(m["rec"]), o["rec"]
        mp = {k: v[1] for k, v in m["pk"].items()}
        if sorted(mp) != sorted(o["pk"]):
            return i, "cache-files", sorted(mp), sorted(o["pk"])
        for k in sorted(mp):
            if mp[k] != o["pk"][k]:
                return i, "cache-content " + k, mp[k], o["pk"][k]
        mt = model_touched(prev, m)
        if mt != o["touched"]:
            return i, "touched", mt, o["touched"]
        if "live" in p and o["died"] is None:
            for k in sorted(m.get("asks", {}), key=int):
                ma, oa = m["asks"][k], (o.get("asks") or {}).get(k)
                if oa is None:
                    return i, "step %s: no answers" % k, "answers", None
                if ma["loaded"] != oa["loaded"]:
                    return i, "step %s: loaded-flavors" % k, ma["loaded"], oa["loaded"]
                ir = impl_rows(oa["ans"])
                if ma["ans"] != ir:
                    a = [r for r in ma["ans"] if r not in ir]
                    b = [r for r in ir if r not in ma["ans"]]
                    return i, "step %s: answers" % k, a[:6], b[:6]
        elif o["died"] is None and "del" not in p:
            if m["loaded"] != o["loaded"]:
                return i, "loaded-flavors", m["loaded"], o["loaded"]
        if p.get("q") and o["died"] is None:
            ir = impl_rows(o["ans"])
            ma = m["ans"] or []
            if ma != ir:
                a = [r for r in ma if r not in ir]
                b = [r for r in ir if r not in ma]
                return i, "answers", a[:6], b[:6]
        prev = m
    return None


FLAVOR_COL = {"decl": 4, "tag": 4, "pdecl": 3, "ptag": 3, "list": 4, "utag": 4, "putag": 3}


def oracle(case, obs):
    """the property, on the implementation alone: every answer through the cache equals the answer from the files,
    for every flavor asked about (the instance's own, its fall-backs and any other).
    -> (process index, kind, answers only the files give, answers only the cache gives) or None."""
    for i, (p, o) in enumerate(zip(case["procs"], obs)):
        if o.get("raised"):
            # no answer at all: the caches (or the tag files) could not even be loaded
            return i, ("admin-load-raises" if p.get("adm") else "load-raises"), ["an Eups instance"], [o["raised"]]
        r = None
        for step, ans in answer_sets(o):
            r = oracle_rows(ans)
            if r is not None:
                return (i,) + r
    return None


def answer_sets(o):
    """the answer sets one process gave: [(step index or None, answers)] - one for a reader, one per ask step of a session"""
    if o.get("asks"):
        return [(int(k), o["asks"][k]["ans"]) for k in sorted(o["asks"], key=int)]
    return [(None, o["ans"])] if o.get("ans") else []


def failing_step(o):
    for step, ans in answer_sets(o):
        if oracle_rows(ans) is not None:
            return step
    return None


def oracle_rows(ans):
    """one set of answers: (kind, only in the files, only in the cache) or None"""
    for k in ("decl", "tag", "pdecl", "ptag", "list", "utag", "putag"):
        if k not in ans:
            continue
        rows = ans[k]
        c = sorted(r[1:] for r in rows if r[0] == "cache")
        f = sorted(r[1:] for r in rows if r[0] == "files")
        if c == f:
            continue
        only_f, only_c = [r for r in f if r not in c], [r for r in c if r not in f]
        # the label says which clause broke: a declaration (or tag) the files have and the cache lacks,
        # one only the cache has, or the same declarations with different tag lists
        bare = lambda rows: sorted(r[:-1] for r in rows) if k in ("decl", "pdecl", "list") else rows
        if bare(c) == bare(f):
            # same declarations, different tag lists: say whether user tags are what differs
            ut = lambda rows: sorted([r[:-1], [t for t in r[-1] if t.startswith("user:")]] for r in rows)
            what = "user-tags-of-version" if ut(c) != ut(f) else "tags-of-version"
        elif [r for r in bare(f) if r not in bare(c)]:
            what = "missing-from-cache"
        else:
            what = "only-in-cache"
        return "incoherent-%s-%s" % (k, what), only_f, only_c
    return None


# the model follows the tree under test.  /repo as it is: the user-tag repairs proposed in proposed_fixes/C07-*.diff are
# not applied (the pinned suite pins the defect of Eups.assignTag, open finding D42), so the model runs with the pinned
# behaviours; EUPS_VERIF_C07_REPAIRED=1 selects the repaired model, for a run against a tree that has the five patches
PINNED = {"v_uloc": True, "v_ustale": True, "v_noread": True, "v_shared": True}
REPAIRED = {}


# ProductStack.ensureInSync: the model follows the repaired code (the flavors the stack holds are read again,
# proposed_fixes/C07-ensure-in-sync-held-flavors); EUPS_VERIF_C07_RELOAD_ALL=1 selects the behaviour before that repair
# (every flavor that has a cache file in the directory is read), for a run against a tree that lacks it
if os.environ.get("EUPS_VERIF_C07_RELOAD_ALL") == "1":
    PINNED["v_reloadall"] = True
    REPAIRED["v_reloadall"] = True


def tree_variant():
    return REPAIRED if os.environ.get("EUPS_VERIF_C07_REPAIRED") == "1" else PINNED


def evaluate(ctx, cases, **variant):
    variant = variant or tree_variant()
    mres = [parse_model(l) for l in ctx.model([case_line(c, **variant) for c in cases])]
    ires = pool().map(impl_case, list(zip(cases, mres)), chunksize=1)
    return [(c, m, o, first_diff(c, m, o), oracle(c, o)) for c, m, o in zip(cases, mres, ires)]


def ddmin_list(items, test):
    items = list(items)
    n = 2
    while len(items) >= 2:
        chunk = max(1, len(items) // n)
        reduced = False
        for start in range(0, len(items), chunk):
            cand = items[:start] + items[start + chunk:]
            if cand and test(cand):
                items = cand
                n = max(n - 1, 2)
                reduced = True
                break
        if not reduced:
            if chunk == 1:
                break
            n = min(n * 2, len(items))
    return items


def shrink(ctx, case, still_bad):
    """fewer processes, then fewer operations in each"""
    procs = ddmin_list(case["procs"], lambda ps: still_bad({"procs": ps}))
    for i in range(len(procs)):
        p = procs[i]
        if "live" in p:
            def test_live(steps, i=i, p=p):
                return still_bad({"procs": procs[:i] + [dict(p, live=steps)] + procs[i + 1:]})
            # the instances are numbered in the order they are built: the steps that build them stay
            keep = [st for st in p["live"] if "new" in st]
            rest = ddmin_list([st for st in p["live"] if "new" not in st] or [None],
                              lambda steps: test_live(keep + [st for st in steps if st]))
            procs[i] = dict(p, live=keep + [st for st in rest if st])
            continue
        if "del" in p or len(p.get("ops", [])) < 2 or p.get("crash"):
            continue

        def test(ops, i=i, p=p):
            return still_bad({"procs": procs[:i] + [dict(p, ops=ops)] + procs[i + 1:]})
        procs[i] = dict(p, ops=ddmin_list(p["ops"], test))
    return {"procs": procs}


def shape(case):
    np_ = len(case["procs"])
    fl = sorted(set(p["f"] for p in case["procs"] if "f" in p))
    us = sorted(set(p["u"] for p in case["procs"] if "u" in p))
    cr = sum(1 for p in case["procs"] if p.get("crash"))
    ut = any(o["k"] in ("UA", "UU") for p in case["procs"]
             for o in p.get("ops", []) + [st["op"] for st in p.get("live", []) if "op" in st])
    live = max([sum(1 for st in p["live"] if "new" in st) for p in case["procs"] if "live" in p] or [0])
    return "procs%02d-%02d/%s/users%d/crashes%d/%s/%s" % (np_ // 4 * 4, np_ // 4 * 4 + 3, "+".join(fl), len(us), min(cr, 3),
                                                        "usertags" if ut else "globaltags",
                                                        "live-instances%d" % live if live else "one-instance-per-process")


KIND_SHRUNK = {}


def _strip_user(tags):
    return sorted(t for t in tags if t not in ALLUTAGS and not t.startswith("user:"))


def classify(c, m, dis, r):
    """Is the oracle failure r = (process, kind, only-in-files, only-in-cache) the open finding D42?  The root cause:
    Eups.assignTag writes the chain file of a user tag among the stack's own chain files while Eups.unassignTag,
    Database.findTags / getTagAssignments and the cache keep user tags in the user's tag directory.  Accepted only if
    (1) the implementation did, file by file and answer by answer, what the model with the pinned assignTag does, up
    to the failing process; (2) a chain file named like a user tag is in a stack's ups_db by then; (3) the two sets of
    answers differ in nothing but tags of those names (the same declarations, directories, global tags)."""
    i, kind, only_f, only_c = r
    if tree_variant() is not PINNED or kind.endswith("load-raises"):
        return kind
    if dis is not None and dis[0] <= i:
        return kind
    planted = any(k.split("/")[1] == "C" and k.split("/")[-1] in ALLUTAGS
                  for st in m[:i + 1] for k in st["rec"] if not k.startswith("U:"))
    # (inside a session: the chain files of the stacks at the ask steps)
    planted = planted or any(_d(r[3]) in ALLUTAGS for blk in m[i].get("asks", {}).values() for r in blk["chains"])
    if not planted:
        return kind
    what = kind.split("-")[1]
    if what in ("utag", "putag"):
        pass                                            # answers of findTaggedProduct(<user tag>)
    elif what in ("decl", "pdecl", "list"):
        strip = lambda rows: sorted(r_[:-1] + [_strip_user(r_[-1])] for r_ in rows)
        if strip(only_f) != strip(only_c):
            return kind
    else:
        return kind                                     # global tags: not explained by that root cause
    return "user-tag-location/" + kind


def process(ctx, results, budget=[6]):
    for c, m, o, dis, orc in results:
        nops = sum(len(p.get("ops", [])) + len(p.get("live", [])) + 1 for p in c["procs"])
        ctx.count(nops, key=shape(c), nontrivial=case_line(c) if any(st["rec"] for st in m) else None)
        for p, ob in zip(c["procs"], o):
            if "live" in p:
                ctx.bump("proc/session")
                for key in session_features(p):
                    ctx.bump("session/" + key)
                for st, oc in zip(p["live"], ob["out"]):
                    ctx.bump("step/%s" % ("new" if "new" in st else "table" if "table" in st else "ask" if "ask" in st
                                          else "op/%s/%s" % (st["op"]["k"], oc.split(":")[0])))
                continue
            ctx.bump("proc/%s" % ("delete" if "del" in p else "admin-load" if p.get("adm") else
                                  "crash-" + p["crash"]["when"] if p.get("crash") else
                                  "reader" if not p["ops"] else "writer"))
            for op, oc in zip(p.get("ops", []), ob["out"]):
                ctx.bump("op/%s/%s" % (op["k"], oc.split(":")[0]))
            if ob.get("died") is not None:
                ctx.bump("died/%s" % ("injected" if ob["died"] == CRASH_STATUS << 8 else "other"))
        if dis is None:
            ctx.traces_validated += 1
        else:
            cc, d2 = c, dis
            if budget[0] > 0:
                budget[0] -= 1
                cc = shrink(ctx, c, lambda x: evaluate(ctx, [x])[0][3] is not None)
                d2 = evaluate(ctx, [cc])[0][3] or dis
            ctx.disagree(cc, {"at": d2[0], "field": d2[1], "value": d2[2]}, {"at": d2[0], "field": d2[1], "value": d2[3]},
                         where="process %d, %s" % (d2[0], d2[1]))
        if orc is not None:
            cc, r, obs_used = c, orc, o
            kind = orc[1]
            open_finding = classify(c, m, dis, orc).startswith("user-tag-location/")
            # two shrunk witnesses per clause are enough; the open findings have theirs in the corpus
            if budget[0] > 0 and KIND_SHRUNK.get(kind, 0) < 2 and not open_finding:
                KIND_SHRUNK[kind] = KIND_SHRUNK.get(kind, 0) + 1

                def bad(x, kind=kind):
                    r = evaluate(ctx, [x])[0][4]
                    return r is not None and r[1] == kind
                cc = shrink(ctx, c, bad)
                c2, m2, o2, dis2, orc2 = evaluate(ctx, [cc])[0]
                if orc2:
                    r, obs_used = orc2, o2
                    final_kind = classify(cc, m2, dis2, r)
                else:
                    cc, final_kind = c, r[1]
            else:
                final_kind = classify(c, m, dis, r)
            cc = {"procs": cc["procs"][:r[0] + 1]}
            step = None
            if "live" in cc["procs"][-1] and not r[1].endswith("load-raises"):
                # cut the session after the ask step that failed
                step = failing_step(obs_used[r[0]])
                if step is not None:
                    cc = {"procs": cc["procs"][:-1] + [dict(cc["procs"][-1], live=cc["procs"][-1]["live"][:step + 1])]}
            if step is not None:
                what = ("process %d is a session (several live Eups instances of one user in one process), step %d: "
                        "instance %d is asked; its answers through the cache differ from the answers read from the "
                        "database files; expected = rows only the files give, observed = rows only the cache gives"
                        % (r[0], step, cc["procs"][-1]["live"][step]["i"]))
            elif r[1].endswith("load-raises"):
                what = ("process %d: building the Eups instance (which loads or rebuilds the caches) raised; "
                        "observed = the exception" % r[0])
            else:
                what = ("process %d (a reader in a new process): the answers through the cache differ from the "
                        "answers read from the database files; expected = rows only the files give, observed = "
                        "rows only the cache gives" % r[0])
            ctx.fail(final_kind, cc, expected=r[2], observed=r[3], what=what)


def corpus_cases():
    d = os.path.join(common.ROOT, "corpus", "C07")
    out = []
    if os.path.isdir(d):
        for f in sorted(os.listdir(d)):
            if f.endswith(".json"):
                out.append(json.load(open(os.path.join(d, f)))["input"])
    return out


def configure(ctx):
    ctx.rule = ("random histories of the C06 operations (declare / assignTag / unassignTag / undeclare / undeclare "
                "--tag / remove over 3 products x 3 versions x tags current/stable/beta x 2 stacks) split into up to "
                "16 processes of one or two users with separate EUPS_USERDATA directories; in half of the histories a "
                "third of the operations are Eups.assignTag / unassignTag with the user's own user tags (u1: mine, exp; "
                "u2: mine, lab - assigned, moved to another version, unassigned, the tagged version undeclared by the "
                "same or the other user and declared again); flavor sets Linux64 with "
                "generic fall-back, generic only, Linux64+Darwin; every process is a forked child that builds its "
                "first Eups (fromCache load of every stack), runs its operations and may be killed by an injected "
                "os._exit right before or right after the k-th database call of one operation; cache files deleted "
                "inside and between processes; administrator loads (Eups(asAdmin=True), what eups admin buildCache -A "
                "builds) that persist into ups_db; reader processes ask "
                "findProduct / findTaggedProduct per stack and over the path for every product x version x tag (global "
                "and the reader's user tags) x "
                "flavor of the fall-back list with noCache=False and noCache=True, and findProducts against "
                "Database.findProducts; after every process the modification times are rewritten to the model's "
                "logical stamps; 60 directed histories per run (a version carrying several global or user tags is "
                "undeclared while another version stays, then declared again, and read by both users); "
                "SESSIONS (about one process in eight of the random histories, 60 + 24 directed histories per run): one "
                "forked child builds two or three Eups instances of one user that live at the same time and interleaves "
                "their commands (any operation above, user tags included), table files parsed on demand through "
                "Product.getTable (which marks the flavor of the stack as updated), further instances built in between, and "
                "questions to any instance (all queries, cache and files); between two steps the child waits for the clock "
                "that stamps the files to move on; directed sessions: instance A (may parse a table), instance B moves a "
                "tag between two declared versions / removes a tag / undeclares --tag / declares / undeclares, A is "
                "asked, A writes something else through, B is asked, then new processes of both users read; and the same "
                "with an out-of-date cache file of ANOTHER flavor lying in the user's cache directory; "
                "one evaluation = one operation, one step or one load; a case is non-trivial when some record "
                "exists at some point; distinct = distinct encoded case")
    ctx.trusted_base = common.COMMON_TRUSTED + [
        "modelled, not verified: the decisions of the commands (Model/Db.v, tied to the code by C06) are taken on "
        "the files' view; pickle byte format; python dict order; os.listdir order; Database.* performing exactly "
        "the record effects of Model/Db.v (C06) atomically (C08)"]
    ctx.assumptions = [
        "clock_strict: every record effect and every cache-file write gets a modification time strictly later than "
        "all earlier ones (the harness writes the model's logical stamps, one second apart, after every process); "
        "with equal stamps the property is false (coherent_refuted_coarse_clock)",
        "processes run one after the other (the commands hold the C09 locks).  Inside one process several Eups "
        "instances of ONE user and one flavor may live at the same time and interleave commands, table reads and "
        "questions (sessions, Model/CacheLive.v).  Outside the model and the generator: live instances of different "
        "users or of different flavors at the same time (nothing tells an instance that another user's command changed "
        "the database: ensureInSync watches the instance's own cache files only), cache files deleted and deaths "
        "while several instances live (a death ends the whole process; deletions are covered between and inside "
        "single-instance processes)",
        "the model follows /repo with the two repairs this class of histories led to: ProductStack.ensureInSync reads again "
        "the flavors the stack holds (D57; EUPS_VERIF_C07_RELOAD_ALL=1 selects the model of the code before it, which read "
        "every cache file of the directory: live_refuted_pinned_reload_all) and ProductStack.fromCache persists the stack "
        "into its own directory after falling back on the shared files of ups_db (D58; no switch: Model/Cache.v from_cache)",
        "no user's data directory is a stack's ups_db; an administrator's instance (asAdmin) only loads - the command "
        "line offers it to eups admin buildCache / clearCache only - and holds no user tags (documented in Eups.__init__); "
        "the user-tag theorem is about the instances of ordinary users",
"the answers are asked and compared for every flavor, those the asking instance did not load included (repaired: "
        "they are read from the database files, Eups._readDatabase; proposed_fixes/C07-unloaded-flavor-from-database); the "
        "user-tag theorem keeps the hypothesis that the flavor is consulted or that no chain file of a stack is named like "
        "the user tag",
        "the model runs with the behaviours of the tree under test: on /repo as it is the four user-tag switches of "
        "Model/Cache.v are pinned (Eups.assignTag writes a user tag's chain file among the stack's own, open finding "
        "D42; nothing then ever writes into a tag directory, so the other three are never exercised); "
        "EUPS_VERIF_C07_REPAIRED=1 selects the repaired model for a tree that has proposed_fixes/C07-user-tag-*.diff, "
        "-declare-reads-back-tags, -shared-cache-user-tags, -load-user-tags-skip; on the pinned tree the random histories "
        "with user tags contain no administrator load (an administrator who does not know a user-tag name found among the "
        "stack's chain files lists it in ups_db/global.tags, which re-registers it as a global tag for its owner: not modelled)",
        "user tags are assigned and removed with Eups.assignTag / unassignTag (eups declare -t / undeclare -t on a "
        "declared version); Eups.declare(tag=<user tag>) of a new version, which declares into the user's own stack "
        "EUPS_USERDATA/ups_db, and tags read from another user (userTags entries with an owner) are outside the model; "
        "an administrator's instance only loads; _EUPS_ASSUME_CACHES_UP_TO_DATE unset",
        "a process dies only between two groups or between the database call of a group and its cache update "
        "(death inside the database call is C08)"]
    # open finding: an Eups that loaded its stacks from cache files holds its own flavor and the fall-backs only,
    # and answers "not declared" for any other flavor (after a rebuild in the same process it holds every flavor)
    ctx.matchers = {# the kind is given by classify() above, which checks the mechanism, not the mere presence of user tags
                    "c07.user_tag_location": lambda f: f["kind"].startswith("user-tag-location/")}


def run(ctx):
    configure(ctx)
    ctx.check_theorems()
    try:
        process(ctx, evaluate(ctx, corpus_cases()))
        ncases = ctx.size(800, 14000)
        cases = [directed_case(ctx.rng) for _ in range(ctx.size(60, 600))]
        cases += [directed_live_case(ctx.rng) for _ in range(ctx.size(60, 600))]
        cases += [directed_live_flavor_case(ctx.rng) for _ in range(ctx.size(24, 240))]
        cases += [gen_case(ctx.rng, max_procs=ctx.rng.choice([6, 10, 16, 16])) for _ in range(ncases)]
        for c in cases[:2]:
            ctx.sample(c)
        for k in range(0, len(cases), 200):
            process(ctx, evaluate(ctx, cases[k:k + 200]))
    finally:
        close_pool()


def replay(ctx, path):
    configure(ctx)
    obj = json.load(open(path))
    c = obj["input"] if "input" in obj else obj["first_disagreement"]["case"]
    try:
        process(ctx, evaluate(ctx, [c]), budget=[0])
    finally:
        close_pool()
    bad = [f for f in ctx.failures if not ctx._known(f)] or ctx.disagreements
    for f in ctx.failures:
        print("oracle: %s: %s\n  only in the files: %s\n  only in the cache: %s" % (f["kind"], f["what"], f["expected"], f["observed"]))
    for d in ctx.disagreements:
        print("model/implementation differ at %s: model %s, implementation %s" % (d["where"], d["model"], d["impl"]))
    print("replay %s: %s" % (path, "still fails" if bad else "passes"))
    return 1 if bad else 0
