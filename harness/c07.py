"""C07 - answers served from the product cache equal the answers in the database files.

Model: coq/Model/Cache.v (on top of Model/Db.v)   Theorems: coq/Props/C07.v
Implementation: the real Eups / ProductStack / ProductFamily / Database code on two scratch stacks and two user
data directories.  A case is a sequence of *processes*; every process runs in a forked child that has never built
an Eups before (as every command-line invocation is), builds one Eups (the fromCache load of every stack on the
path), performs its operations (each: database update ; ensureInSync ; in-memory write-through ; save of the
invoking flavor's pickle) and may be killed by an injected os._exit right after (or right before) the k-th
database call of one of its operations.  Cache files are deleted at arbitrary points.  Reader processes ask every
query with noCache=False and noCache=True.

  case = {"procs": [proc, ...]}
  proc = {"u": "u1"|"u2", "adm": bool, "f": flavor, "ops": [op, ...], "q": bool,
          "crash": None | {"op": i, "g": k, "when": "pre"|"post"}}
       | {"del": [loc, stack, flavor]}                      loc = "u1" | "u2" | "db"   (an outside deletion)
  op   = an operation of harness/c06.py  |  {"k": "DC", "loc": loc, "s": stack, "fl": flavor}

After every process the modification times of all record and cache files are rewritten to the model's logical
stamps (BASE + stamp seconds), so that no comparison depends on the granularity of the wall clock; which files a
process touched is compared with the model before that.
"""
import json
import multiprocessing
import os
import pickle
import shutil
import sys

import common
from common import enc
import c06

STACKS = c06.STACKS
NAMES = c06.NAMES
VERSIONS = c06.VERSIONS
TAGS = c06.TAGS
USERS = ["u1", "u2"]
LOCS = USERS + ["db"]
ALLFLAVORS = ["Linux64", "generic", "Darwin"]
BASE = 1000000000          # logical stamp k is written as the modification time BASE + k seconds
EXT = ".pickleDB1_3_0"
CRASH_STATUS = 17


# ------------------------------------------------------------------ file layout

def ups_db(root, s):
    return os.path.join(root, s, "ups_db")


def cache_dir(root, loc, s):
    if loc == "db":
        return ups_db(root, s)
    return os.path.join(root, loc, "_caches_", os.path.join(root, s)[1:])


def pickle_path(root, loc, s, fl):
    return os.path.join(cache_dir(root, loc, s), fl + EXT)


def setup_world(root):
    for s in STACKS + USERS:
        os.makedirs(os.path.join(root, s, "ups_db"), exist_ok=True)
    c06.ensure_products(root)


def proc_environ(root, u, flavor):
    return common.scrubbed_environ({"EUPS_PATH": ":".join(os.path.join(root, s) for s in STACKS),
                                    "EUPS_USERDATA": os.path.join(root, u), "EUPS_FLAVOR": flavor})


# ------------------------------------------------------------------ inside a child: one process

def _fresh_interpreter_state():
    """what a newly started python has: no fallback flavor list installed yet, no Database singletons"""
    e = c06._eups()
    from eups import utils
    if hasattr(utils.Flavor, "_fallbackFlavors"):
        del utils.Flavor._fallbackFlavors
    sys.modules["eups.db.Database"]._databases.clear()
    return e


def _install_crash(crash_state):
    """kill the process right before / right after the k-th outermost mutating call on a Database object made
    while crash_state['armed'] (a nested call - declare assigning its tags, undeclare removing them - is part of
    the outer one)"""
    dbmod = sys.modules["eups.db.Database"]
    cls = dbmod._Database
    depth = [0]

    def wrap(name):
        orig = getattr(cls, name)

        def wrapped(self, *a, **kw):
            outer = depth[0] == 0 and crash_state.get("armed")
            if outer:
                k = crash_state["count"]
                if k == crash_state["g"] and crash_state["when"] == "pre":
                    os._exit(CRASH_STATUS)
            depth[0] += 1
            try:
                r = orig(self, *a, **kw)
            finally:
                depth[0] -= 1
            if outer:
                crash_state["count"] = k + 1
                if k == crash_state["g"] and crash_state["when"] == "post":
                    os._exit(CRASH_STATUS)
            return r
        setattr(cls, name, wrapped)

    for nm in ("declare", "undeclare", "assignTag", "unassignTag"):
        wrap(nm)


def _canon(root, p):
    if p is None:
        return "None"
    return p[len(root):] if p.startswith(root + "/") else p


def _prod(root, p):
    if p is None:
        return None
    return [os.path.basename(p.stackRoot()), p.version, p.flavor, _canon(root, p.dir), _canon(root, p.tablefile),
            sorted(str(t) for t in p.tags)]


def ask_everything(x, root, flavors):
    """every query of the property, through the cache and from the files"""
    e = c06._eups()
    ans = {"decl": [], "tag": [], "pdecl": [], "ptag": [], "list": []}
    for mode, nc in (("cache", False), ("files", True)):
        for n in NAMES:
            for fl in flavors:
                for v in VERSIONS:
                    for s in STACKS:
                        p = x.findProduct(n, v, eupsPathDirs=os.path.join(root, s), flavor=fl, noCache=nc)
                        if p is not None:
                            ans["decl"].append([mode, s, n, v, fl] + _prod(root, p)[3:])
                    p = x.findProduct(n, v, flavor=fl, noCache=nc)
                    if p is not None:
                        ans["pdecl"].append([mode, n, v, fl] + _prod(root, p)[:1] + _prod(root, p)[3:])
                for t in TAGS:
                    for s in STACKS:
                        p = x.findTaggedProduct(n, t, eupsPathDirs=os.path.join(root, s), flavor=fl, noCache=nc)
                        if p is not None:
                            ans["tag"].append([mode, s, n, t, fl, p.version])
                    p = x.findTaggedProduct(n, t, flavor=fl, noCache=nc)
                    if p is not None:
                        ans["ptag"].append([mode, n, t, fl, os.path.basename(p.stackRoot()), p.version])
    # eups list: Eups.findProducts has no file mode of its own; its file answer is Database.findProducts
    for n in NAMES:
        for s in STACKS:
            # one stack at a time: over several stacks findProducts merges equal (name, version, flavor) (utils.uniq)
            for p in x.findProducts(n, eupsPathDirs=[os.path.join(root, s)]):
                ans["list"].append(["cache"] + _prod(root, p))
            db = e.db.Database(ups_db(root, s))
            for p in db.findProducts(n, flavors=list(dict.fromkeys(flavors))):
                p.db = ups_db(root, s)
                ans["list"].append(["files"] + _prod(root, p))
    for k in ans:
        ans[k].sort()
    return ans


def _proc_child(root, proc):
    e = _fresh_interpreter_state()
    c06._quiet()
    os.environ.clear()
    os.environ.update(proc_environ(root, proc["u"], proc["f"]))
    crash = proc.get("crash")
    cs = {"armed": False}
    if crash:
        cs.update({"g": crash["g"], "when": crash["when"], "count": 0})
        _install_crash(cs)
    x = e.Eups(flavor=proc["f"])
    x.selectVRO(None, None, None, None)
    out = {"loaded": {os.path.basename(k): sorted(v.getFlavors()) for k, v in x.versions.items()
                      if os.path.basename(k) in STACKS},
           "out": []}
    for i, o in enumerate(proc["ops"]):
        if o["k"] == "DC":
            p = pickle_path(root, o["loc"], o["s"], o["fl"])
            if os.path.exists(p):
                os.remove(p)
            out["out"].append("ok")
            continue
        c06.ensure_products(root)
        if crash and crash["op"] == i:
            cs["armed"] = True
            cs["count"] = 0
        out["out"].append(c06.do_op(x, root, o))
        cs["armed"] = False
    if proc.get("q"):
        from eups import utils
        out["ans"] = ask_everything(x, root, utils.Flavor().getFallbackFlavors(proc["f"], True))
    return out


# ------------------------------------------------------------------ outside the children: the files

def scan_records(root):
    """{'s1/D/a': mtime_ns, 's1/V/a/1.0': ..., 's1/C/a/current': ...} for product directories, version, chain files"""
    out = {}
    for s in STACKS:
        dbp = ups_db(root, s)
        for n in sorted(os.listdir(dbp)):
            p = os.path.join(dbp, n)
            if not os.path.isdir(p):
                continue
            out["%s/D/%s" % (s, n)] = p
            for fn in sorted(os.listdir(p)):
                if fn.endswith(".version"):
                    out["%s/V/%s/%s" % (s, n, fn[:-len(".version")])] = os.path.join(p, fn)
                elif fn.endswith(".chain"):
                    out["%s/C/%s/%s" % (s, n, fn[:-len(".chain")])] = os.path.join(p, fn)
                else:
                    out["%s/X/%s/%s" % (s, n, fn)] = os.path.join(p, fn)
    return out


def scan_pickles(root):
    out = {}
    for loc in LOCS:
        for s in STACKS:
            d = cache_dir(root, loc, s)
            if not os.path.isdir(d):
                continue
            for fn in sorted(os.listdir(d)):
                if fn.endswith(EXT):
                    out["%s/%s/%s" % (loc, s, fn[:-len(EXT)])] = os.path.join(d, fn)
    return out


def read_pickle(root, path):
    """canonical content of one cache file: [[name, [[version, dir, table], ...], [[tag, version], ...]], ...]"""
    c06._eups()
    with open(path, "rb") as fd:
        data = pickle.load(fd)
    out = []
    for n in sorted(data):
        fam = data[n]
        out.append([n, sorted([v, _canon(root, d[0]), _canon(root, d[1])] for v, d in fam.versions.items()),
                    sorted([t, v] for t, v in fam.tags.items())])
    return out


def mtimes(paths):
    out = {}
    for k, p in paths.items():
        try:
            st = os.stat(p)
            out[k] = (st.st_mtime_ns, st.st_ino)
        except FileNotFoundError:
            pass
    return out


# ------------------------------------------------------------------ generator

FLAVOR_SETS = [["Linux64", "generic"], ["Linux64", "generic"], ["Linux64", "generic"], ["generic"], ["generic"],
               ["Linux64", "Darwin"]]


def gen_op(rng, decls, tags, f):
    """one operation for an instance of flavor f, aimed (85 %) at what the running specification state holds;
    same mix and same op format as harness/c06.py gen_history"""
    s = rng.choice([None, None, "s1", "s2"])
    o = {"f": f, "s": s, "F": rng.random() < 0.12, "N": rng.random() < 0.06}
    known = [k for k in decls if k[3] == f and (s is None or k[0] == s)]
    tk = [k for k in tags if k[3] == f and (s is None or k[0] == s)]
    aim = rng.random() < 0.85
    r = rng.random()
    if r < 0.40 or not decls:
        o["k"] = "D"
        if aim and known and rng.random() < 0.4:
            k = rng.choice(known)
            o["n"], o["v"] = k[1], k[2]
            same = decls[k][0].rsplit("-", 1)[1]
            o["d"] = rng.choice([same, same, "A", "B", None])
            o["t"] = rng.choice([None, "current", "stable", "beta"]) if o["d"] else rng.choice(TAGS)
        else:
            o["n"], o["v"] = rng.choice(NAMES), rng.choice(VERSIONS)
            o["d"] = rng.choice(["A", "A", "A", "A", "B", None])
            o["t"] = rng.choice([None, None, "current", "stable", "beta"])
        o["tb"] = "alt" if (o["d"] and rng.random() < 0.12) else None
    elif r < 0.53:
        o["k"] = "A"
        o["t"] = rng.choice(TAGS)
        if aim and known:
            k = rng.choice(known)
            o["n"], o["v"] = k[1], k[2]
        else:
            o["n"], o["v"] = rng.choice(NAMES), rng.choice(VERSIONS)
    elif r < 0.65:
        o["k"] = "U"
        if aim and tk:
            k = rng.choice(tk)
            o["t"], o["n"] = k[2], k[1]
            o["v"] = rng.choice([None, tags[k], tags[k]])
        elif aim and known:
            k = rng.choice(known)
            o["t"], o["n"], o["v"] = rng.choice(TAGS), k[1], k[2]
        else:
            o["t"], o["n"], o["v"] = rng.choice(TAGS), rng.choice(NAMES), rng.choice([None] + VERSIONS)
    elif r < 0.83:
        o["k"] = "X"
        if aim and known:
            k = rng.choice(known)
            o["n"], o["v"] = k[1], rng.choice([k[2], k[2], k[2], None])
        else:
            o["n"], o["v"] = rng.choice(NAMES), rng.choice([None] + VERSIONS)
    elif r < 0.94:
        o["k"] = "T"
        o["both"] = rng.random() < 0.5
        if aim and tk:
            k = rng.choice(tk)
            o["t"], o["n"] = k[2], k[1]
            o["v"] = rng.choice([None, None, tags[k]])
        else:
            o["t"], o["n"], o["v"] = rng.choice(TAGS), rng.choice(NAMES), rng.choice([None] + VERSIONS)
    else:
        o["k"] = "R"
        o["s"] = None
        known = [k for k in decls if k[3] == f]
        if aim and known:
            k = rng.choice(known)
            o["n"], o["v"] = k[1], k[2]
        else:
            o["n"], o["v"] = rng.choice(NAMES), rng.choice(VERSIONS)
    return o


def gen_case(rng, max_procs=16, flavors=None):
    flavors = flavors or rng.choice(FLAVOR_SETS)
    two_users = rng.random() < 0.6
    users = USERS if two_users else ["u1"]
    decls, tags = {}, {}
    procs = []
    while len(procs) < max_procs - 1:
        if procs and rng.random() < 0.08:
            procs.append({"del": [rng.choice(users + ["db"]), rng.choice(STACKS), rng.choice(flavors)]})
            continue
        f = rng.choice(flavors)
        p = {"u": rng.choice(users), "f": f, "ops": [], "q": rng.random() < 0.3, "crash": None}
        for _ in range(rng.choice([1, 1, 2, 2, 3, 4])):
            if rng.random() < 0.07:
                p["ops"].append({"k": "DC", "loc": rng.choice(users + ["db"]), "s": rng.choice(STACKS),
                                 "fl": rng.choice(flavors)})
                continue
            o = gen_op(rng, decls, tags, f)
            _, decls, tags = c06.spec_step(decls, tags, o)
            p["ops"].append(o)
        if rng.random() < 0.25:
            i = rng.randrange(len(p["ops"]))
            p["crash"] = {"op": i, "g": rng.choice([0, 0, 0, 1, 1, 2]), "when": rng.choice(["post", "post", "pre"])}
            p["q"] = False
            # the specification state above assumed the whole process ran; a crash makes later aims a little
            # less accurate, nothing more (validity is not required)
        procs.append(p)
        if len(procs) < max_procs and rng.random() < 0.8:
            procs.append({"u": rng.choice(users), "f": rng.choice(flavors), "ops": [], "q": True, "crash": None})
        if len(procs) >= 4 and rng.random() < 0.12:
            break
    return {"procs": procs[:max_procs]}
