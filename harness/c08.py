"""C08 - an interrupted update never corrupts or loses existing declarations.

Theorems: coq/Props/C08.v (generic layer: any crash point of the write-temporary-then-rename protocol leaves the
records as after a whole number of record-level effects; second layer: Model/CrashDb.v puts the database commands
of Model/Db.v on that store - what a reader sees at every crash point of every command).
Tie to the code: every mutating operation of generated histories is run on the real code with the process killed
(os._exit) after k file-system effects, for every k; the surviving ups_db is compared (a) with the model's
crash_state for the effect list observed in the completed run, (b) with the property's own oracle: a fresh reader
succeeds, every record file is byte-identical to its old or its new form, everything else is untouched, (c) what the
fresh reader reports (declarations, tags) with Model/CrashDb.read_db on the model's crash store for the same number of
completed effects.  For every operation the ordered record-level effects (kind, path) of its completed run are
compared with Model/CrashDb.image of Db.effects on the model state reached by the same history.
The reader-level oracle (view_frame) names the targets of the command - the declaration it declares or undeclares,
the tag assignment it makes or removes, the tags pointing at an undeclared version for its flavor - and demands every
other declaration and tag assignment exactly as before at every crash point and after completion (theorems
crash_untouched_by_command_is_untouched, crash_undeclare_frame).  Cases marked cache also make the effects on the
product cache crash points (utils.AtomicFile / ProductStack.persist) with TMPDIR across an emulated file-system
boundary; the calls seen on the cache file itself are compared with Model/CrashXdev.target_kinds.
"""
import json
import os
import shutil
import sys

import common
from common import enc

PRODUCTS = ["a", "b"]
VERSIONS = ["1", "2"]
FLAVORS = ["Linux64", "Darwin"]
TAGS = ["current", "stable"]
FALLBACK = "generic"            # every flavor falls back on it: a command loads its own flavor's cache and this one
SKEL_PRODUCTS = PRODUCTS + ["c"]


# ------------------------------------------------------------------ helpers that run inside children

def _flatten_times(stack, userdata):
    """testing knob VERIF_C08_FLATTIME=1: every file and directory gets the same modification time, as on a file
    system or clock too coarse to order two operations; a cache that is out of date then passes for fresh"""
    for top in (os.path.join(stack, "ups_db"), userdata):
        for d, _, files in os.walk(top):
            for x in [d] + [os.path.join(d, f) for f in files]:
                try:
                    os.utime(x, (1000000000, 1000000000))
                except OSError:
                    pass


def new_eups(stack, userdata, flavor):
    import eups
    sys.modules["eups.db.Database"]._databases.clear()
    if os.environ.get("VERIF_C08_FLATTIME") == "1":
        _flatten_times(stack, userdata)
    os.environ["EUPS_PATH"] = stack
    os.environ["EUPS_USERDATA"] = userdata
    os.environ["EUPS_FLAVOR"] = flavor
    os.environ["EUPS_SHELL"] = "sh"
    e = eups.Eups(quiet=1, readCache=True)
    e.selectVRO(None, None, None, None)
    return e


def make_skeleton(work):
    stack = os.path.join(work, "stack")
    os.makedirs(os.path.join(stack, "ups_db"))
    os.makedirs(os.path.join(work, "user", "ups_db"))
    for fl in FLAVORS + [FALLBACK]:
        for p in SKEL_PRODUCTS:
            for v in VERSIONS:
                d = os.path.join(stack, fl, p, v, "ups")
                os.makedirs(d)
                with open(os.path.join(d, p + ".table"), "w") as f:
                    f.write("envSet(%s_OK, 1)\n" % p.upper())
    return stack


def do_op(e, stack, op):
    k = op["op"]
    pdir = os.path.join(stack, op["flavor"], op["p"], op.get("v") or "1")
    if k == "declare":
        e.declare(op["p"], op["v"], pdir, tag=op.get("tag"))
    elif k == "tag":
        e.declare(op["p"], op["v"], tag=op["tag"])
    elif k == "untag":
        e.unassignTag(op["tag"], op["p"], op.get("v"))
    elif k == "undeclare":
        e.undeclare(op["p"], op["v"])
    else:
        raise ValueError(k)


def canon_lines(text):
    """who/when lines differ from run to run and carry no declaration data"""
    return [l for l in text.split("\n")
            if not l.strip().startswith(("DECLARER", "DECLARED", "MODIFIER", "MODIFIED"))]


def snapshot(stack):
    """relative path -> list of lines (files) / None (directories) for everything under ups_db except caches"""
    root = os.path.join(stack, "ups_db")
    out = {}
    for d, dirs, files in os.walk(root):
        dirs.sort()
        rel = os.path.relpath(d, stack)
        if "_caches_" in rel:
            continue
        out[rel] = None
        for f in files:
            if ".pickleDB" in f:
                continue
            with open(os.path.join(d, f), errors="replace") as fd:
                out[os.path.join(rel, f)] = canon_lines(fd.read())
    return out


def read_view(stack, userdata, first=None):
    """what a fresh reader reports: {flavor: sorted [(name, version, flavor, dir, tags)], "_tags": every tag
    assignment}; raises if the reader does.  Two readers: an Eups instance per flavor (it rebuilds its cache from the
    records when that is stale, and raises on a record it cannot parse), and the records read directly through
    Database.findProducts / getTagAssignments as in the C06 check -- an Eups(readCache=False) loads no product stack
    at all, its findProducts() is always empty"""
    import eups
    view = {fl: [] for fl in FLAVORS}
    # the readers that answer THROUGH THE CACHE (the list command: Eups.findProducts of an instance that loads the
    # user's product cache, believing it when it looks up to date): one per flavor, the flavor of the command first -
    # a reader rewrites the caches it does not believe
    cached = {}
    for fl in sorted(FLAVORS, key=lambda f: f != first):
        e = new_eups(stack, userdata, fl)
        rows = []
        for p in e.findProducts():
            if p.stackRoot() != stack:
                continue
            rows.append([p.name, p.version, p.flavor, os.path.relpath(p.dir, stack) if p.dir else None,
                         sorted(str(t) for t in p.tags)])
        cached[fl] = sorted(rows)
        e2 = type(e)(quiet=1, readCache=False)
        e2.findProducts()
    sys.modules["eups.db.Database"]._databases.clear()
    dbp = os.path.join(stack, "ups_db")
    db = eups.db.Database(dbp)
    alltags = []
    for n in sorted(os.listdir(dbp)):
        if not os.path.isdir(os.path.join(dbp, n)) or n == "_caches_":
            continue
        tagsof = {}
        for (tag, vers, flavor) in db.getTagAssignments(n):
            tagsof.setdefault((vers, flavor), []).append(str(tag))
            alltags.append([n, str(tag), flavor, vers])
        for p in db.findProducts(n):
            view.setdefault(p.flavor, []).append(
                [p.name, p.version, p.flavor, os.path.relpath(p.dir, stack) if p.dir else None,
                 sorted(tagsof.get((p.version, p.flavor), []))])
    for fl in view:
        view[fl].sort()
    view["_tags"] = sorted(alltags)
    view["_cached"] = cached
    return view


class _Crash(Exception):
    pass


def install_listdir(mode):
    """POSIX promises nothing about the order of a directory listing, and the order differs between file systems.
    mode None: whatever the file system gives; "sorted" / "reversed": by name; "shuffle:<n>": a permutation that
    depends on n and on the directory only; "perpid:<n>": also on the process, so that the completed run and each
    killed run of one case meet the entries of one directory in different orders.  Installed in the child of the case: history, operation and readers"""
    if not mode:
        return
    import random
    orig = os.listdir

    def listdir(path="."):
        l = sorted(orig(path))
        if mode == "reversed":
            l.reverse()
        elif mode.startswith(("shuffle:", "perpid:")):
            try:
                key = os.path.basename(os.fspath(path))
            except TypeError:
                key = ""
            key = key if isinstance(key, str) else key.decode()
            if mode.startswith("perpid:"):      # another order in every process: two copies of one directory differ
                key += "|%d" % os.getpid()
            random.Random("%s|%s" % (mode, key)).shuffle(l)
        return l
    os.listdir = listdir


def install_injector(stack, kill_at, trace, flush=True, cache=False, tmproot=None, death="exit"):
    """count the file-system effects on <stack>/ups_db; before effect number kill_at the process dies.
    death "exit": it is gone at once (SIGKILL: os._exit); death "interrupt": the signal is one python delivers as an
    exception (SIGINT, KeyboardInterrupt), raised from the intercepted call instead of making it: the command unwinds
    through its with / finally blocks - whose file-system effects are carried out and traced after a marker entry
    [interrupted, path, None] - and the process ends by itself.
    cache=True: the effects on everything else the command writes below the work directory are crash points too
    (kinds c-open, c-write, c-close, c-rename, c-unlink: the product cache <flavor>.pickleDB*, which every mutating
    command rewrites last through utils.AtomicFile / ProductStack.persist, its temporary file wherever it is created,
    user caches), and tmproot - the directory TMPDIR names in this process - lies on ANOTHER FILE SYSTEM than the stack
    and the user data: rename and link across that boundary fail with EXDEV, as they do between two mounts"""
    import builtins
    import errno
    root = os.path.join(stack, "ups_db") + os.sep
    work = os.path.dirname(os.path.abspath(stack)) + os.sep
    state = {"n": 0}
    fds = {}

    def tracked(path):
        try:
            p = os.path.abspath(os.fsdecode(path))
        except Exception:  # noqa
            return None
        if not p.startswith(root) or ".pickleDB" in p or "_caches_" in p:
            return None
        return os.path.relpath(p, stack)

    def ctracked(path):
        """other files of the work area a command may write: caches and temporaries (never a product directory)"""
        if not cache or isinstance(path, int):
            return None
        try:
            p = os.path.abspath(os.fsdecode(path))
        except Exception:  # noqa
            return None
        if not p.startswith(work) or tracked(p) is not None:
            return None
        rel = os.path.relpath(p, work)
        top = rel.split(os.sep)
        if top[0] == "stack" and len(top) > 2 and top[1] != "ups_db":
            return None                  # <stack>/<flavor>/<product>/...: installed products
        if top[0] == "keep":
            return None
        return rel

    def other_fs(a, b):
        if tmproot is None:
            return False
        t = os.path.abspath(tmproot) + os.sep
        try:
            ia = (os.path.abspath(os.fsdecode(a)) + os.sep).startswith(t)
            ib = (os.path.abspath(os.fsdecode(b)) + os.sep).startswith(t)
        except Exception:  # noqa
            return False
        return ia != ib

    def effect(kind, rel, extra=None):
        if kill_at is not None and state["n"] == kill_at and death == "interrupt" and not state.get("fired"):
            state["fired"] = True
            trace.append(["interrupted", rel, kind])
            raise KeyboardInterrupt()
        if kill_at is not None and state["n"] == kill_at and not state.get("fired"):
            if state.get("on_kill"):
                state["on_kill"]()       # the report of what was done so far leaves through the pipe
            os._exit(137)
        state["n"] += 1
        trace.append([kind, rel, extra])

    orig_open = builtins.open

    def wrap(mod, name, kind, argidx=0, two=False):
        orig = getattr(mod, name)

        def w(*a, **k):
            if two and len(a) > 1 and other_fs(a[0], a[1]):
                raise OSError(errno.EXDEV, "Invalid cross-device link", os.fsdecode(a[0]))
            rel = tracked(a[argidx]) if len(a) > argidx else None
            if rel is not None:
                extra = None
                if kind == "rename":
                    try:
                        with orig_open(a[0], errors="replace") as fd:
                            extra = canon_lines(fd.read())
                    except Exception:  # noqa
                        extra = None
                effect(kind, rel, extra)
            elif len(a) > argidx:
                rel = ctracked(a[argidx])
                if rel is not None and kind in ("rename", "unlink"):
                    effect("c-" + kind, rel)
            return orig(*a, **k)
        setattr(mod, name, w)

    wrap(os, "remove", "unlink")
    wrap(os, "unlink", "unlink")
    wrap(os, "rmdir", "rmdir")
    wrap(os, "mkdir", "mkdir")
    wrap(os, "rename", "rename", 1, two=True)
    wrap(os, "replace", "rename", 1, two=True)
    wrap(os, "link", "rename", 1, two=True)
    orig_makedirs = os.makedirs

    def makedirs(name, *a, **k):
        rel = tracked(name)
        if rel is not None and not os.path.isdir(name):
            effect("mkdir", rel)
        return orig_makedirs(name, *a, **k)
    os.makedirs = makedirs

    class Proxy(object):
        def __init__(self, f, rel, pre=""):
            self._f, self._rel, self._pre = f, rel, pre
            if pre:
                try:
                    self._fd = f.fileno()
                    fds[self._fd] = rel
                except Exception:  # noqa
                    self._fd = None

        def write(self, s):
            effect(self._pre + "write", self._rel)
            r = self._f.write(s)
            if flush:
                self._f.flush()       # every write reaches the disk at once: partial contents become visible
            return r                  # (otherwise python buffers and a kill loses what was not yet closed)

        def close(self):
            effect(self._pre + "close", self._rel)
            if self._pre:
                fds.pop(self._fd, None)
            return self._f.close()

        def __getattr__(self, n):
            return getattr(self._f, n)

        def __iter__(self):
            return iter(self._f)

        def __enter__(self):
            return self

        def __exit__(self, *a):
            self.close()

    def open_w(file, mode="r", *a, **k):
        isname = isinstance(file, (str, bytes, os.PathLike))
        rel = tracked(file) if isname else None
        if rel is not None and any(c in mode for c in "wax+"):
            effect("open", rel)
            return Proxy(orig_open(file, mode, *a, **k), rel)
        rel = ctracked(file) if isname else None
        if rel is not None and any(c in mode for c in "wax+"):
            effect("c-open", rel)         # created or truncated
            return Proxy(orig_open(file, mode, *a, **k), rel, "c-")
        return orig_open(file, mode, *a, **k)
    builtins.open = open_w

    if cache:
        # what is written into a temporary file made by tempfile.NamedTemporaryFile (utils.AtomicFile: pickle.dump
        # of a cache file) is a crash point per write call, and so is its close
        import tempfile
        orig_ntf = tempfile.NamedTemporaryFile

        def ntf(*a, **k):
            f = orig_ntf(*a, **k)
            rel = ctracked(f.name)
            if rel is not None and hasattr(f, "file"):
                f.file = Proxy(f.file, rel, "c-")
            return f
        tempfile.NamedTemporaryFile = ntf
        # tempfile creates its files with os.open; shutil copies with os.sendfile / os.copy_file_range between
        # descriptors (the copy a cross-device move degrades to)
        orig_os_open = os.open

        def os_open(path, flags, *a, **k):
            rel = ctracked(path)
            if rel is not None and flags & (os.O_WRONLY | os.O_RDWR) and flags & (os.O_CREAT | os.O_TRUNC):
                effect("c-open", rel)
            return orig_os_open(path, flags, *a, **k)
        os.open = os_open
        for name in ("sendfile", "copy_file_range"):
            if hasattr(os, name):
                def mk(orig, out_idx):
                    def w(*a, **k):
                        rel = fds.get(a[out_idx]) if len(a) > out_idx else None
                        if rel is not None:
                            effect("c-write", rel)
                        return orig(*a, **k)
                    return w
                setattr(os, name, mk(getattr(os, name), 0 if name == "sendfile" else 1))
    return state


def run_history(work, history):
    """build the state reached by a history of completed operations"""
    stack = make_skeleton(work)
    userdata = os.path.join(work, "user")
    for op in history:
        e = new_eups(stack, userdata, op["flavor"])
        try:
            do_op(e, stack, op)
        except Exception:  # noqa  (refused / not found operations are part of histories)
            pass
    return stack, userdata


def _killed_run(stack, userdata, op, kill_at, flush, cache=False, death="exit"):
    """run op in a grandchild that dies before effect kill_at (None: runs to completion); returns its report.
    cache=True: TMPDIR names a directory on another file system (see install_injector) and the effects on the
    product cache are crash points as well"""
    tmproot = None
    if cache:
        tmproot = os.path.join(os.path.dirname(stack), "tmp")
        shutil.rmtree(tmproot, ignore_errors=True)
        os.makedirs(tmproot)
    r, w = os.pipe()
    pid = os.fork()
    if pid == 0:
        os.close(r)
        trace = []
        try:
            if cache:
                import tempfile
                os.environ["TMPDIR"] = tmproot
                tempfile.tempdir = None          # forget the directory chosen in the parent
            st = install_injector(stack, kill_at, trace, flush, cache, tmproot, death)
            st["on_kill"] = lambda: os.write(w, json.dumps({"trace": trace, "outcome": "killed"}).encode())
            try:
                e = new_eups(stack, userdata, op["flavor"])      # the command from its start: constructor included
                do_op(e, stack, op)
                outcome = "ok"
            except BaseException as ex:  # noqa
                outcome = "exc:" + type(ex).__name__
            os.write(w, json.dumps({"trace": trace, "outcome": outcome}).encode())
        finally:
            os._exit(0)
    os.close(w)
    data = b""
    while True:
        b = os.read(r, 1 << 16)
        if not b:
            break
        data += b
    os.close(r)
    os.waitpid(pid, 0)
    return json.loads(data.decode()) if data else {"trace": None, "outcome": "killed"}


def _observe(stack, userdata, info, before, first=None):
    after = snapshot(stack)
    r, w = os.pipe()
    pid = os.fork()
    if pid == 0:                         # a fresh reader: new process state, singletons empty
        os.close(r)
        try:
            try:
                out = {"view": read_view(stack, userdata, first), "reader": "ok"}
            except BaseException as ex:  # noqa
                out = {"view": None, "reader": "exc:%s:%s" % (type(ex).__name__, str(ex)[:200])}
            os.write(w, json.dumps(out).encode())
        finally:
            os._exit(0)
    os.close(w)
    data = b""
    while True:
        b = os.read(r, 1 << 16)
        if not b:
            break
        data += b
    os.close(r)
    os.waitpid(pid, 0)
    out = json.loads(data.decode()) if data else {"view": None, "reader": "exc:reader died"}
    out.update({"before": before, "after": after, "info": info})
    return out


def crash_points(trace, thin):
    """the crash points explored: all of them, or (thin) all but those between two consecutive writes to one
    temporary file - the states they leave differ only in the length of a file no reader opens.  Writes to a
    record itself (the in-place protocol) are never thinned"""
    n = len(trace)
    if not thin:
        return list(range(n + 1))
    return [k for k in range(n + 1)
            if not (0 < k < n and trace[k][0] == "write" and is_tmpname(trace[k][1]) and
                    trace[k - 1][0] == "write" and trace[k - 1][1] == trace[k][1])]


def prepare_user(stack, userdata, op, user):
    """the caches the command finds.  None / "same": what the history left - the user's cache file of the last
    command's flavor is fresh, the others are older than the database, so the command starts by rebuilding them;
    "fresh": another user, or a new EUPS_USERDATA: no cache at all; "listed": a read-only command of this user and
    flavor ran in between, every cache the command loads is up to date"""
    if user == "fresh":
        shutil.rmtree(userdata)
        os.makedirs(os.path.join(userdata, "ups_db"))
    elif user == "listed":
        new_eups(stack, userdata, op["flavor"]).findProducts()


def case_run(history, op, flush=True, listdir=None, cache=False, thin=False, user=None, deaths=("exit",)):
    """child: the state after history is built once; the operation is then run to completion and, from a
    restored copy of that state, killed before each of its effects.  Returns {"full": ..., "crashes": [...]}"""
    common.import_eups()
    install_listdir(listdir)
    work = common.scratch_dir("c08.")
    try:
        stack, userdata = run_history(work, history)
        prepare_user(stack, userdata, op, user)
        keep = os.path.join(work, "keep")
        shutil.copytree(stack, os.path.join(keep, "stack"), symlinks=True)
        shutil.copytree(userdata, os.path.join(keep, "user"), symlinks=True)

        def restore():
            shutil.rmtree(stack)
            shutil.rmtree(userdata)
            shutil.copytree(os.path.join(keep, "stack"), stack, symlinks=True)
            shutil.copytree(os.path.join(keep, "user"), userdata, symlinks=True)
        before = snapshot(stack)
        first = op["flavor"]
        oldview = _observe(stack, userdata, None, before, first)["view"]
        restore()
        full = _observe(stack, userdata, _killed_run(stack, userdata, op, None, flush, cache), before, first)
        crashes = []
        for death in deaths:
            for k in crash_points(full["info"]["trace"] or [], thin):
                restore()
                crashes.append(_observe(stack, userdata, _killed_run(stack, userdata, op, k, flush, cache, death),
                                        before, first))
                crashes[-1]["k"] = k
                crashes[-1]["death"] = death
        return {"full": full, "crashes": crashes, "oldview": oldview}
    finally:
        shutil.rmtree(work, ignore_errors=True)


def case_full_only(history, op, listdir=None):
    """child: the operation run to completion only, with its trace (no crash points); for the effect-sequence tie"""
    common.import_eups()
    install_listdir(listdir)
    work = common.scratch_dir("c08s.")
    try:
        stack, userdata = run_history(work, history)
        info = _killed_run(stack, userdata, op, None, True)
        return {"full": {"info": info, "after": snapshot(stack)}}
    finally:
        shutil.rmtree(work, ignore_errors=True)


# ------------------------------------------------------------------ generators

def gen_op(rng):
    fl = rng.choice(FLAVORS)
    p = rng.choice(PRODUCTS)
    v = rng.choice(VERSIONS)
    r = rng.random()
    if r < 0.40:
        return {"op": "declare", "p": p, "v": v, "flavor": fl, "tag": rng.choice([None, None, "current", "stable"])}
    if r < 0.60:
        return {"op": "tag", "p": p, "v": v, "flavor": fl, "tag": rng.choice(TAGS)}
    if r < 0.75:
        return {"op": "untag", "p": p, "v": rng.choice([v, None]), "flavor": fl, "tag": rng.choice(TAGS)}
    return {"op": "undeclare", "p": p, "v": v, "flavor": fl}


def directed_cases():
    """the situations the property names: version files holding several flavors, chain files being re-pointed"""
    L, D = "Linux64", "Darwin"
    dec = lambda fl, p, v, tag=None: {"op": "declare", "p": p, "v": v, "flavor": fl, "tag": tag}
    two = [dec(L, "a", "1", "current"), dec(D, "a", "1", "current")]
    out = [
        ([dec(L, "a", "1")], dec(D, "a", "1")),                                   # second flavor joins a version file
        (two, {"op": "undeclare", "p": "a", "v": "1", "flavor": L}),              # one of two flavors leaves it
        (two, {"op": "undeclare", "p": "a", "v": "1", "flavor": D}),
        (two + [dec(L, "a", "2")], {"op": "tag", "p": "a", "v": "2", "flavor": L, "tag": "current"}),   # re-point
        (two + [dec(D, "a", "2")], {"op": "tag", "p": "a", "v": "2", "flavor": D, "tag": "current"}),
        (two, {"op": "untag", "p": "a", "v": None, "flavor": L, "tag": "current"}),  # one of two entries leaves a chain
        ([dec(L, "a", "1", "current")], {"op": "untag", "p": "a", "v": "1", "flavor": L, "tag": "current"}),
        ([dec(L, "a", "1", "current")], {"op": "undeclare", "p": "a", "v": "1", "flavor": L}),  # last flavor, tagged
        (two + [dec(L, "b", "1", "stable")], {"op": "tag", "p": "a", "v": "1", "flavor": L, "tag": "stable"}),
        ([dec(L, "a", "1"), dec(L, "a", "2", "stable")], dec(D, "a", "2", "stable")),
    ]
    return [{"history": h, "op": op} for h, op in out]


def order_cases():
    """undeclare of a version that several tags point at (each untag is one effect; Database.findTags meets the chain
    files in os.listdir order), chain files shared by two flavors, two products"""
    L, D = "Linux64", "Darwin"
    dec = lambda fl, p, v, tag=None: {"op": "declare", "p": p, "v": v, "flavor": fl, "tag": tag}
    tag = lambda fl, p, v, t: {"op": "tag", "p": p, "v": v, "flavor": fl, "tag": t}
    und = lambda fl, p, v: {"op": "undeclare", "p": p, "v": v, "flavor": fl}
    out = [
        ([dec(L, "a", "1", "current"), tag(L, "a", "1", "stable")], und(L, "a", "1")),
        ([dec(L, "a", "1", "current"), dec(D, "a", "1", "current"), tag(L, "a", "1", "stable"),
          tag(D, "a", "1", "stable")], und(L, "a", "1")),
        ([dec(L, "b", "1", "stable"), dec(L, "b", "2"), tag(L, "b", "1", "current")], und(L, "b", "1")),
        ([dec(L, "a", "1", "current"), dec(L, "b", "1", "stable"), dec(L, "b", "2", "current")],
         dec(D, "a", "2", "stable")),
    ]
    return [{"history": h, "op": op} for h, op in out]


def gen_history(rng):
    return [gen_op(rng) for _ in range(rng.choice([2, 3, 4, 5, 6]))]


def repoint_cases():
    """multi-flavor databases whose chain files hold several flavors pointing at DIFFERENT versions (a tag re-pointed
    for one flavor only), alone and together with version files shared by two flavors; every kind of command on them"""
    L, D = "Linux64", "Darwin"
    dec = lambda fl, p, v, tag=None: {"op": "declare", "p": p, "v": v, "flavor": fl, "tag": tag}
    tag = lambda fl, p, v, t: {"op": "tag", "p": p, "v": v, "flavor": fl, "tag": t}
    und = lambda fl, p, v: {"op": "undeclare", "p": p, "v": v, "flavor": fl}
    one = [dec(L, "a", "1", "current"), dec(D, "a", "2", "current")]
    two = [dec(L, "a", "1", "current"), tag(L, "a", "1", "stable"), dec(D, "a", "2", "current"),
           tag(D, "a", "2", "stable")]
    out = [
        (one, und(L, "a", "1")),
        (one, und(D, "a", "2")),
        (two, und(L, "a", "1")),                                        # two chain files lose one entry each
        (two, und(D, "a", "2")),
        (one + [dec(L, "a", "2")], tag(L, "a", "2", "current")),         # re-point one flavor onto the other's version
        (one, {"op": "untag", "p": "a", "v": None, "flavor": L, "tag": "current"}),
        ([dec(L, "a", "1", "current"), dec(D, "a", "1"), dec(D, "a", "2", "current")], und(L, "a", "1")),
        (two + [dec(L, "b", "1", "current")], dec(L, "a", "2", "current")),   # declaration that moves the tag
        ([dec(L, "b", "2", "stable"), dec(L, "b", "1"), dec(D, "b", "1", "stable")], und(D, "b", "1")),
    ]
    return [{"history": h, "op": op} for h, op in out]


def gen_repointed(rng):
    """random prior states of the same kind: one product declared for both flavors, each tag assigned per flavor to
    an independently chosen version, a few operations on the other product in between; then any command on it"""
    p = rng.choice(PRODUCTS)
    q = [x for x in PRODUCTS if x != p][0]
    h, have = [], {}
    fls = list(FLAVORS)
    rng.shuffle(fls)
    for fl in fls:
        vs = [v for v in VERSIONS if rng.random() < 0.75] or [rng.choice(VERSIONS)]
        have[fl] = vs
        for v in vs:
            h.append({"op": "declare", "p": p, "v": v, "flavor": fl, "tag": None})
    for t in TAGS:
        for fl in fls:
            if rng.random() < 0.8:
                h.append({"op": "tag", "p": p, "v": rng.choice(have[fl]), "flavor": fl, "tag": t})
    if rng.random() < 0.5:
        h.insert(rng.randrange(len(h) + 1), {"op": "declare", "p": q, "v": rng.choice(VERSIONS),
                                             "flavor": rng.choice(FLAVORS), "tag": rng.choice([None, "current"])})
    fl = rng.choice(FLAVORS)
    r = rng.random()
    if r < 0.5:
        op = {"op": "undeclare", "p": p, "v": rng.choice(have[fl]), "flavor": fl}
    elif r < 0.65:
        op = {"op": "untag", "p": p, "v": rng.choice([None] + have[fl]), "flavor": fl, "tag": rng.choice(TAGS)}
    elif r < 0.85:
        op = {"op": "tag", "p": p, "v": rng.choice(VERSIONS), "flavor": fl, "tag": rng.choice(TAGS)}
    else:
        op = {"op": "declare", "p": p, "v": rng.choice(VERSIONS), "flavor": fl, "tag": rng.choice([None] + TAGS)}
    return {"history": h, "op": op}


def cache_cases():
    """commands whose cache rewrite (ProductStack.persist through utils.AtomicFile, the last thing every mutating
    command does) is explored too, with TMPDIR on another file system than the stack and the user data: among them
    the undeclare of the last version of a product, after which nothing in the database is newer than the caches"""
    L, D = "Linux64", "Darwin"
    dec = lambda fl, p, v, tag=None: {"op": "declare", "p": p, "v": v, "flavor": fl, "tag": tag}
    tag = lambda fl, p, v, t: {"op": "tag", "p": p, "v": v, "flavor": fl, "tag": t}
    und = lambda fl, p, v: {"op": "undeclare", "p": p, "v": v, "flavor": fl}
    out = [
        ([dec(L, "a", "1", "current"), dec(L, "b", "1", "current"), tag(L, "b", "1", "stable")], und(L, "b", "1")),
        ([dec(L, "a", "1", "current"), dec(L, "a", "2")], tag(L, "a", "2", "current")),
        ([dec(L, "a", "1")], dec(D, "a", "1")),
        ([dec(L, "a", "1", "current"), dec(D, "a", "2", "current")], und(L, "a", "1")),
        ([dec(D, "b", "2", "stable"), dec(L, "a", "1", "current")],
         {"op": "untag", "p": "a", "v": None, "flavor": L, "tag": "current"}),
    ]
    return [{"history": h, "op": op, "cache": True} for h, op in out]


def rebuild_cases():
    """commands that begin by rebuilding the user's product cache (ProductStack.fromCache -> refreshFromDatabase ->
    save, in the constructor): the user's caches are older than the database (same user, after another mutating
    command) or missing (another user / new EUPS_USERDATA).  The stacks hold products under the command's flavor AND
    under the fall-back flavor - a reader believes the cache only when the file of every flavor it loads is up to
    date - and two versions of every product, with the directory listing in both orders"""
    L, D, G = "Linux64", "Darwin", FALLBACK
    dec = lambda fl, p, v, tag=None: {"op": "declare", "p": p, "v": v, "flavor": fl, "tag": tag}
    tag = lambda fl, p, v, t: {"op": "tag", "p": p, "v": v, "flavor": fl, "tag": t}
    und = lambda fl, p, v: {"op": "undeclare", "p": p, "v": v, "flavor": fl}
    ab = [dec(L, "a", "1"), dec(L, "a", "2", "current"), dec(G, "b", "1"), dec(G, "b", "2", "current")]
    ba = [dec(G, "a", "1"), dec(G, "a", "2", "current"), dec(D, "b", "1", "stable"), dec(D, "b", "2", "current")]
    out = [
        (ab, dec(L, "c", "1", "current"), "same", "sorted"),
        (ab, dec(L, "c", "1", "current"), "fresh", "reversed"),
        (ba, dec(D, "c", "1"), "fresh", "sorted"),
        (ba, tag(D, "b", "1", "current"), "same", "reversed"),
        (ab + [dec(L, "c", "2", "stable")], und(L, "a", "1"), "same", None),
        (ab, {"op": "untag", "p": "b", "v": None, "flavor": G, "tag": "current"}, "fresh", None),
        (ab, dec(L, "c", "1"), "listed", None),
    ]
    return [{"history": h, "op": op, "cache": True, "user": u, "listdir": ld} for h, op, u, ld in out]


def gen_rebuild(rng):
    """random cases of the same kind: every product lives under one flavor - the command's, the fall-back flavor or
    the other one - with one or two versions and any tags; the user's caches as the history left them, missing, or
    brought up to date by a read-only command in between; any command"""
    F = rng.choice(FLAVORS)
    home = {}
    prods = list(SKEL_PRODUCTS if rng.random() < 0.4 else PRODUCTS)
    pool = [F, FALLBACK] + [rng.choice([F, FALLBACK, FALLBACK, [x for x in FLAVORS if x != F][0]]) for _ in prods]
    rng.shuffle(pool)
    h = []
    for p in prods:
        home[p] = pool.pop()
        vs = list(VERSIONS) if rng.random() < 0.75 else [rng.choice(VERSIONS)]
        rng.shuffle(vs)
        for v in vs:
            h.append({"op": "declare", "p": p, "v": v, "flavor": home[p],
                      "tag": rng.choice([None, None, "current", "stable"])})
    rng.shuffle(h)
    if rng.random() < 0.3:
        p = rng.choice(prods)
        h.append({"op": "tag", "p": p, "v": rng.choice(VERSIONS), "flavor": home[p], "tag": rng.choice(TAGS)})
    p = rng.choice(SKEL_PRODUCTS)
    fl = home.get(p) or rng.choice([F, F, FALLBACK])
    op = dict(gen_op(rng), p=p, flavor=fl)
    return {"history": h, "op": op, "cache": True, "user": rng.choice(["same", "same", "fresh", "fresh", "listed"]),
            "listdir": rng.choice([None, "sorted", "reversed"])}


def prior_shape(before):
    """what the property names in the prior state, read off the record files: version files that hold several flavors,
    chain files that hold several flavors, and chain files whose flavors point at different versions"""
    out = set()
    for p, lines in before.items():
        if lines is None:
            continue
        fl = [l.split("=", 1)[1].strip() for l in lines if l.strip().startswith("FLAVOR")]
        if len(fl) < 2:
            continue
        if p.endswith(".version"):
            out.add("version-file-of-several-flavors")
        elif p.endswith(".chain"):
            vs = {l.split("=", 1)[1].strip() for l in lines if l.strip().startswith("VERSION")}
            out.add("chain-flavors-at-different-versions" if len(vs) > 1 else "chain-of-several-flavors")
    return "+".join(sorted(out)) or "single-flavor-records"


# ------------------------------------------------------------------ model encoding

def is_tmpname(rel):
    import re
    return re.search(r"\.tmp\d+$", rel) is not None


def canon_path(rel):
    """the model uses one temporary suffix; real names carry the pid"""
    import re
    return re.sub(r"\.tmp\d+$", ".tmp", rel)


def enc_fs(snap):
    items = []
    for p, c in sorted(snap.items()):
        if is_tmpname(p):
            continue
        items.append(enc(p) + "=" + ("D" if c is None else "F:" + common.enc_list(",", c)))
    return ";".join(items)


def effects_from(trace, final):
    """record-level effects of a completed run, from its trace: a rename of a temporary onto p is a write of p
    (with the content p has in the end, or at the next rename of p: each record is written at most once per op
    in practice - checked), unlink -> remove, mkdir, rmdir"""
    effs = []
    writes = {}
    for kind, rel, extra in trace:
        if kind == "rename":
            writes[rel] = writes.get(rel, 0) + 1
            effs.append(("W", rel))
        elif kind == "unlink" and not is_tmpname(rel):
            effs.append(("R", rel))
        elif kind == "mkdir":
            effs.append(("M", rel))
        elif kind == "rmdir":
            effs.append(("X", rel))
        elif kind == "open" and not is_tmpname(rel):
            effs.append(("W", rel))     # in-place write (pinned protocol)
            writes[rel] = writes.get(rel, 0) + 1
    return effs, writes


def enc_effects(effs, final):
    out = []
    for k, p in effs:
        if k == "W":
            c = final.get(p)
            out.append("W:%s:%s" % (enc(p), common.enc_list(",", c if c is not None else [])))
        else:
            out.append("%s:%s" % (k, enc(p)))
    return ";".join(out)


def _o(x):
    return "~" if x is None else (enc(x) or "%")


def op_model(o):
    """the operation as a Model/Db.v op (line format of the C06 driver); the product directory is named by its
    path below the stack, which is equal for two operations exactly when the real directories are.
    tag = Eups.declare(p, v, tag=t) without a directory: the skeleton holds <stack>/<flavor>/<p>/<v> for every
    product, version and flavor, which Eups.declare finds by itself (search of self.path, Eups.py ~2300, not part of
    Model/Db.v, whose worlds keep product directories elsewhere) and which is also the directory every declaration
    of this harness records; the operation is therefore encoded with that directory given"""
    head = lambda k: [k, enc(o["flavor"]), "~", "0", "0"]
    k = o["op"]
    pdir = "/%s/%s/%s" % (o["flavor"], o["p"], o.get("v") or "1")
    if k == "declare":
        f = head("D") + [enc(o["p"]), enc(o["v"]), enc(pdir), "~", _o(o.get("tag"))]
    elif k == "tag":
        f = head("D") + [enc(o["p"]), enc(o["v"]), enc(pdir), "~", _o(o["tag"])]
    elif k == "untag":
        f = head("U") + [enc(o["tag"]), enc(o["p"]), _o(o.get("v"))]
    elif k == "undeclare":
        f = head("X") + [enc(o["p"]), _o(o["v"])]
    else:
        raise ValueError(k)
    return ",".join(f)


def effects_line(case):
    return "\t".join(["effects", "0", "stack", "|".join(op_model(o) for o in case["history"]), op_model(case["op"])])


def parse_effects(out):
    if out.startswith("DRIVER-ERROR"):
        raise common.ModelError(out)
    if out.startswith("err:"):
        return out, []
    body = out.split("#", 1)[1]
    return "ok", [tuple(common.dec(x) for x in e.split(":", 1)) for e in body.split(";")] if body else []


def completed_effects(own, after):
    """record-level effects a killed run completed, in the order it performed them, from its own trace.  An entry is
    traced before the call is made and the process dies at the next traced entry, so every entry was carried out -
    except a last os.makedirs entry, whose os.mkdir (traced in its turn) was not reached: the directory tells"""
    out = []
    for i, (kind, rel, _) in enumerate(own):
        if kind == "rename":
            e = ("W", "stack/" + rel)
        elif kind == "unlink" and not is_tmpname(rel):
            e = ("R", "stack/" + rel)
        elif kind == "rmdir":
            e = ("X", "stack/" + rel)
        elif kind == "mkdir":
            e = ("M", "stack/" + rel)
            if i > 0 and own[i - 1][0] == "mkdir" and own[i - 1][1] == rel and out and out[-1] == e:
                continue
            if i == len(own) - 1 and rel not in after:
                continue
        else:
            continue
        out.append(e)
    return out


def untag_run(op, seq):
    n = 0
    if op["op"] == "undeclare":
        while n < len(seq) and seq[n][1].endswith(".chain"):
            n += 1
    return n


def is_model_prefix(op, model, done):
    """done is a prefix of the model's effects, the untag effects of an undeclare taken in any order"""
    from collections import Counter
    n = untag_run(op, model)
    if len(done) <= n:
        return not (Counter(done) - Counter(model[:n]))
    return sorted(done[:n]) == sorted(model[:n]) and list(done[n:]) == list(model[n:len(done)])


def real_rows(view):
    rows = set()
    for fl in view:
        if fl.startswith("_"):
            continue
        for name, version, flavor, d, tags in view[fl]:
            rows.add((name, version, flavor, d or "", "+".join(sorted(tags))))
    return [sorted(rows), sorted(tuple(t) for t in view.get("_tags", []))]


def model_rows(out):
    if not out.startswith("ok#"):
        return out
    body, tagpart = out[3:].split("#")
    rows = set()
    for r in filter(None, body.split(";")):
        n, v, fl, d, tags = r.split(",")
        rows.add((common.dec(n), common.dec(v), common.dec(fl), common.dec(d).lstrip("/"),
                  "+".join(sorted(common.dec(t) for t in tags.split("+") if t))))
    tags = sorted(tuple(common.dec(x) for x in t.split(",")) for t in filter(None, tagpart.split(";")))
    return [sorted(rows), tags]


def canon_untag_order(op, seq):
    """Database.undeclare removes the tags on the version in the order Database.findTags meets the chain files, i.e.
    os.listdir order, which the file system chooses; the model fixes the order in which the chain files were created.
    The leading run of chain-file effects of an undeclare is therefore compared as a set"""
    n = untag_run(op, seq)
    return sorted(seq[:n]) + list(seq[n:])


def compare_effect_sequences(ctx, cases):
    """second layer of the tie: the ordered record-level effects (kind, path) the real operation performed, read off
    the trace of its completed run, against Model/CrashDb.image of Db.effects on the model's image of the prior state
    (the model run on the same history)"""
    outs = ctx.model([effects_line(c) for c in cases])
    for c, out in zip(cases, outs):
        status, model = parse_effects(out)
        model = [tuple(e) for e in model]
        trace = c["_full"]["info"]["trace"] or []
        effs, _ = effects_from(trace, c["_full"]["after"])
        real = []
        for k, rel in effs:
            e = (k, "stack/" + rel)
            if k == "M" and real and real[-1] == e:
                continue        # os.makedirs and the os.mkdir it calls are both traced: one directory creation
            real.append(e)
        c["_meffs"], c["_reffs"] = model, real
        c["_seq_agrees"] = canon_untag_order(c["op"], model) == canon_untag_order(c["op"], real)
        ctx.traces_validated += 1
        ctx.bump("effect-sequences-compared")
        if model != real:
            ctx.bump("effect-sequences-equal-up-to-listdir-order-of-untags")
        if canon_untag_order(c["op"], model) != canon_untag_order(c["op"], real):
            ctx.disagree({"history": c["history"], "op": c["op"], "listdir": c.get("listdir")},
                         "%s %s" % (status, ";".join("%s:%s" % e for e in model)),
                         "%s %s" % (c["_full"]["info"]["outcome"], ";".join("%s:%s" % e for e in real)),
                         where="record-level effect sequence of the operation (Db.effects vs real trace)")


def compare_cache_helper(ctx, cases):
    """tie of Model/CrashXdev.v: the system calls the real command performs on a cache file itself (not on a
    temporary name), with repeated writes collapsed, against target_kinds of the model for a temporary file on the
    target's file system - one rename per rewrite, nothing else"""
    cc = [c for c in cases if c.get("cache")]
    if not cc:
        return
    model = ctx.model(["helper\tsame\t1"])[0].split(",")
    for c in cc:
        per = {}
        for kind, rel, _ in c["_full"]["info"]["trace"] or []:
            if kind.startswith("c-") and ".pickleDB" in rel and not rel.endswith(".tmp"):
                l = per.setdefault(os.path.basename(rel), [])
                if not (l and l[-1] == kind[2:] == "write"):
                    l.append(kind[2:])
        for name, kinds in sorted(per.items()):
            ctx.traces_validated += 1
            ctx.bump("cache-rewrites-compared-with-the-helper-model", kinds.count("rename") or 1)
            n = max(1, len(kinds) // len(model))
            if kinds != model * n:
                ctx.disagree({"history": c["history"], "op": c["op"], "cache": True},
                             ",".join(model * n), ",".join(kinds),
                             where="system calls on the cache file %s itself (Model/CrashXdev.target_kinds SameFs vs "
                                   "the real trace): the temporary file is not installed by a rename" % name)


def main_stack_cache(rel):
    """is rel the user's cache file of the stack (not of the user-data stack, not a temporary file)?  -> flavor"""
    d, b = os.path.split(rel)
    if ".pickleDB" in b and not b.endswith(".tmp") and d.startswith("user" + os.sep + "_caches_") and \
            d.endswith(os.sep + "stack"):
        return b.split(".pickleDB")[0]
    return None


def compare_cache_rebuild(ctx, cases):
    """tie of Model/CrashCache.persists: the cache files of the stack a command installs before its first effect on
    the records (the rebuild its constructor performs when the user's cache is missing or out of date), in order,
    against the model's persists for autosave off, the flavors the command loads and the declarations the database
    holds: one complete file per flavor ProductStack.updated holds - every flavor the database has a declaration of
    (addProduct notes it), loaded or not, then the loaded flavors it has none of - and nothing else.  The order in
    which the flavors of the database are first met is that of the walk of refreshFromDatabase (os.listdir order of
    the product directories and version files, which the file system chooses and which a copy of the directory
    need not share); the model is given the declarations sorted, and the leading run of files - those of the flavors
    of the database - is compared as a set without repetition, the rest in order"""
    cc = [c for c in cases if c.get("cache") and c.get("_oldview")]
    lines, meta = [], []
    for c in cc:
        trace = c["_full"]["info"]["trace"] or []
        firstdb = min([i for i, e in enumerate(trace) if not e[0].startswith("c-")] or [len(trace)])
        real = [main_stack_cache(rel) for kind, rel, _ in trace[:firstdb] if kind == "c-rename"]
        real = [x for x in real if x]
        if not real:
            ctx.bump("commands-that-found-their-cache-up-to-date")
            continue
        F = c["op"]["flavor"]
        fls = [F] + ([FALLBACK] if F != FALLBACK else [])
        rows = sorted((fl, n, v) for fl, l in c["_oldview"].items() if not fl.startswith("_") for n, v, _, _, _ in l)
        lines.append("\t".join(["persists", "0", ",".join(enc(x) for x in fls),
                                ";".join(",".join(enc(x) for x in r) for r in rows)]))
        meta.append((c, real, len({r[0] for r in rows})))
    if not lines:
        return
    for out, (c, real, ndb) in zip(ctx.model(lines), meta):
        ctx.traces_validated += 1
        ctx.bump("start-up-cache-rebuilds-compared-with-the-model")
        model = [common.dec(x.split(":")[0]) for x in out.split(":", 1)[1].split(";") if x]
        if model != real:
            ctx.bump("start-up-cache-rebuilds-equal-up-to-the-order-the-walk-met-the-flavors-of-the-database")
        if len(set(model)) > ndb:
            ctx.bump("start-up-cache-rebuilds-that-wrote-a-loaded-flavor-the-database-holds-nothing-of")
        if len(set(model) - set(fls)) > 0:
            ctx.bump("start-up-cache-rebuilds-that-wrote-a-flavor-the-command-did-not-load")
        if sorted(model[:ndb]) != sorted(real[:ndb]) or model[ndb:] != real[ndb:]:
            ctx.disagree({"history": c["history"], "op": c["op"], "cache": True, "user": c.get("user")},
                         ",".join(model), ",".join(real),
                         where="cache files of the stack installed by the rebuild at the start of the command "
                               "(Model/CrashCache.persists, autosave off, vs the real trace)")


def compare_unwind(ctx, items):
    """tie of Model/CrashCache.helper_unwind: a command ended by KeyboardInterrupt raised from a write into the
    temporary file of a cache dump - what it does to cache files themselves while unwinding (nothing)"""
    if not items:
        return
    model = [x for x in ctx.model(["unwind\tskip"])[0].split(":", 1)[1].split(",") if x]
    for c, k, own in items:
        i = [j for j, e in enumerate(own) if e[0] == "interrupted"][0]
        real = [kind[2:] for kind, rel, _ in own[i + 1:]
                if kind.startswith("c-") and ".pickleDB" in rel and not rel.endswith(".tmp")]
        ctx.traces_validated += 1
        ctx.bump("unwinding-of-an-interrupted-cache-dump-compared-with-the-model")
        if real != model:
            ctx.disagree({"history": c["history"], "op": c["op"], "cache": True, "user": c.get("user"),
                          "kill_before_effect": k, "death": "interrupt"}, ",".join(model), ",".join(real),
                         where="system calls on cache files themselves after KeyboardInterrupt was raised from a "
                               "write of the dump (Model/CrashCache.helper_unwind SkipOnRaise vs the real trace)")


# ------------------------------------------------------------------ oracle

def oracle(case, k, old, new, res, trace):
    """the property on one crash state"""
    if res["reader"] != "ok":
        return ("reader-fails", "a read-only command after the crash raised %s" % res["reader"])
    after = res["after"]
    for p in sorted(set(old) | set(new) | set(after)):
        if is_tmpname(p):
            continue
        a, o, n = after.get(p, "ABSENT"), old.get(p, "ABSENT"), new.get(p, "ABSENT")
        if a == o or a == n:
            continue
        # complete forms the operation itself gave the record on the way (a second rewrite, a removal): still a
        # violation - "old or new" is meant literally (D20, fixed: Eups.declare moved a tag by unassign-then-assign,
        # which left the chain record without the flavor's entry, or absent, between the two rewrites) - but named
        # apart from truncated / garbled records
        inter = [x for kind, rel, x in trace if kind == "rename" and rel == p]
        if any(kind in ("unlink", "rmdir") and rel == p for kind, rel, _ in trace):
            inter.append("ABSENT")
        if any(kind == "mkdir" and rel == p for kind, rel, _ in trace):
            inter.append(None)
        if a in inter:
            kind = "tag-move-intermediate" if p.endswith(".chain") else "record-intermediate"
            return (kind, "%s is in neither its old nor its final form after a crash before effect %d but in a complete "
                    "intermediate form the operation wrote (%s)" % (p, k, "absent" if a == "ABSENT" else "rewritten"))
        kind = "record-truncated" if (isinstance(a, list) and (a in ([""], []) or
                                      (isinstance(n, list) and len(a) < len(n)))) else "record-garbled"
        return (kind, "%s is neither in its old nor in its new form after a crash before effect %d: %r" %
                (p, k, a if a == "ABSENT" or a is None else a[:6]))
    return None


def view_maps(view):
    """what a reader reports, keyed: declarations {(product, version, flavor): directory} and tag assignments
    {(product, tag, flavor): version}"""
    decls, tags = {}, {}
    for fl in view:
        if fl.startswith("_"):
            continue
        for name, version, flavor, d, _ in view[fl]:
            decls[(name, version, flavor)] = d
    for name, tag, flavor, version in view.get("_tags", []):
        tags[(name, tag, flavor)] = version
    return decls, tags


def op_targets(op, old_tags):
    """the declarations and tag assignments a command is aimed at: the (product, version, flavor) it declares or
    undeclares, the (product, tag, flavor) it assigns or unassigns, and for an undeclare the tags that pointed at the
    version it removes (for that flavor).  Everything else - other products, other flavors, other versions of the
    product, tags of the product that point elsewhere - is not the target"""
    p, fl, k = op["p"], op["flavor"], op["op"]
    D, T = set(), set()
    if k in ("declare", "tag"):
        D.add((p, op["v"], fl))
        # a declaration that names no tag makes the first version of a product current (Eups.declare says so): the
        # assignment of current for that flavor is then what the command is aimed at as well
        T.add((p, op.get("tag") or "current", fl))
    elif k == "untag":
        T.add((p, op["tag"], fl))
    elif k == "undeclare":
        D.add((p, op["v"], fl))
        T |= {key for key, v in old_tags.items() if key[0] == p and key[2] == fl and v == op["v"]}
    return D, T


def view_frame(case, old_view, new_view, res):
    """every declaration and tag that was not the target of the command is reported exactly as before (at every
    crash point and after the completed command); the targets read as before or as after the completed command"""
    if res["view"] is None:
        return None
    od, ot = view_maps(old_view)
    nd, nt = view_maps(new_view)
    ad, at = view_maps(res["view"])
    D, T = op_targets(case["op"], ot)
    p = case["op"]["p"]
    for what, o, n, a, tgt in (("declaration", od, nd, ad, D), ("tag assignment", ot, nt, at, T)):
        for key in sorted(set(o) | set(a)):
            if key in tgt:
                continue
            if o.get(key, "ABSENT") != a.get(key, "ABSENT"):
                kind = "bystander-changed" if key[0] != p else "untargeted-%s-changed" % what.split()[0]
                return (kind, "%s %r (product, %s, flavor) is not the target of the command but is reported as %r "
                        "instead of %r" % (what, key, "version" if what == "declaration" else "tag",
                                           a.get(key, "ABSENT"), o.get(key, "ABSENT")))
        for key in sorted(tgt):
            if a.get(key, "ABSENT") not in (o.get(key, "ABSENT"), n.get(key, "ABSENT")):
                kind = "declaration-lost" if (what == "declaration" and key not in a) else "target-garbled"
                return (kind, "%s %r reads as %r: neither as before the command (%r) nor as after it (%r)" %
                        (what, key, a.get(key, "ABSENT"), o.get(key, "ABSENT"), n.get(key, "ABSENT")))
    return None


def cached_maps(rows):
    """a listing through the cache, keyed like view_maps: the tags are those the listed products carry"""
    decls, tags = {}, {}
    for name, version, flavor, d, tl in rows:
        decls[(name, version, flavor)] = d
        for t in tl:
            tags.setdefault((name, t, flavor), []).append(version)
    return decls, {k: "+".join(sorted(v)) for k, v in tags.items()}


def cached_frame(case, old_view, new_view, res):
    """the same clause for the readers that answer through the product cache (what the list command prints): for the
    reader of every flavor, every declaration and tag that was not the target of the command is listed exactly as a
    reader of that flavor listed it before the command; the targets as before or as after the completed command"""
    if res["view"] is None or "_cached" not in res["view"] or "_cached" not in (old_view or {}):
        return None
    _, ot = view_maps(old_view)
    D, T = op_targets(case["op"], ot)
    p = case["op"]["p"]
    for fl in sorted(res["view"]["_cached"]):
        od, otg = cached_maps(old_view["_cached"].get(fl, []))
        nd, ntg = cached_maps(new_view["_cached"].get(fl, []))
        ad, atg = cached_maps(res["view"]["_cached"][fl])
        for what, o, n, a, tgt in (("declaration", od, nd, ad, D), ("tag assignment", otg, ntg, atg, T)):
            for key in sorted(set(o) | set(a)):
                if key in tgt:
                    if a.get(key, "ABSENT") not in (o.get(key, "ABSENT"), n.get(key, "ABSENT")):
                        return ("cached-target-garbled", "through the cache a reader of flavor %s lists %s %r as %r: "
                                "neither as before the command (%r) nor as after it (%r)" %
                                (fl, what, key, a.get(key, "ABSENT"), o.get(key, "ABSENT"), n.get(key, "ABSENT")))
                    continue
                if o.get(key, "ABSENT") != a.get(key, "ABSENT"):
                    kind = "cached-bystander-changed" if key[0] != p else "cached-untargeted-%s-changed" % what.split()[0]
                    return (kind, "%s %r (product, %s, flavor) is not the target of the command, its records are "
                            "untouched, but a later reader of flavor %s, answering through the product cache, lists it "
                            "as %r instead of %r" % (what, key, "version" if what == "declaration" else "tag", fl,
                                                     a.get(key, "ABSENT"), o.get(key, "ABSENT")))
    return None


def fallback_shape(before):
    """does the prior state hold products of the fall-back flavor next to others, and a product with two versions"""
    fls, vers = set(), {}
    for p, lines in before.items():
        if lines is None or not p.endswith(".version"):
            continue
        fls |= {l.split("=", 1)[1].strip() for l in lines if l.strip().startswith("FLAVOR")}
        prod = p.split(os.sep)[-2]
        vers[prod] = vers.get(prod, 0) + 1
    return "%s,%s" % ("fall-back-flavor-and-others" if FALLBACK in fls and len(fls) > 1 else
                      "fall-back-flavor-only" if FALLBACK in fls else "no-fall-back-flavor-product",
                      "a-product-with-two-versions" if any(n > 1 for n in vers.values()) else "one-version-each")


# ------------------------------------------------------------------ driver

def corpus_cases():
    d = os.path.join(common.ROOT, "corpus", "C08")
    out = []
    if os.path.isdir(d):
        for f in sorted(os.listdir(d)):
            if f.endswith(".json"):
                out.append(json.load(open(os.path.join(d, f)))["input"])
    return out


def explore(ctx, cases, flush=True):
    runs = common.par_map(case_run, [(c["history"], c["op"], flush, c.get("listdir"), bool(c.get("cache")),
                                      bool(c.get("thin")) or not flush, c.get("user"),
                                      tuple(c.get("deaths") or ("exit",))) for c in cases], timeout=900)
    jobs, res = [], []
    for c, r in zip(cases, runs):
        if r[0] != "ok":
            raise RuntimeError("case run failed: %r" % (r,))
        r = r[1]
        c["_full"] = r["full"]
        if r["oldview"] is not None:
            c["_oldview"] = r["oldview"]
        for cr in r["crashes"]:
            jobs.append((c, (cr["k"], cr.get("death", "exit"))))
            res.append(("ok", cr))
    compare_effect_sequences(ctx, cases)
    compare_cache_helper(ctx, cases)
    if os.environ.get("VERIF_C08_TIES", "1") == "1":
        compare_cache_rebuild(ctx, cases)
    lines, meta = [], []
    vlines, vmeta = [], []
    unwinds = []
    for (c, (k, death)), r in zip(jobs, res):
        if r[0] != "ok":
            raise RuntimeError("crash run failed: %r" % (r,))
        r = r[1]
        full_r = c["_full"]
        old, new = full_r["before"], full_r["after"]
        trace = full_r["info"]["trace"] or []
        ndb = len([1 for kind, _, _ in trace if not kind.startswith("c-")])
        shape = "%s/%s/%s/%s" % (c["op"]["op"], "effects=%d" % min(ndb, 9), "flushed" if flush else "buffered",
                                 prior_shape(old))
        if c.get("cache"):
            shape += "/cache-effects=%d,TMPDIR-on-another-file-system" % min(len(trace) - ndb, 30)
            ctx.bump("crash-points-inside-the-cache-rewrite" if k < len(trace) and trace[k][0].startswith("c-")
                     else "crash-points-of-cache-cases-elsewhere")
            # the part of the command before its first effect on the records: the constructor, which rebuilds the
            # caches it finds missing or older than the database
            firstdb = min([i for i, e in enumerate(trace) if not e[0].startswith("c-")] or [len(trace)])
            nstart = len([1 for e in trace[:firstdb] if e[0] == "c-rename"])
            shape += "/user=%s/cache-files-rebuilt-at-start-up=%d" % (c.get("user") or "same", nstart)
            if k < firstdb and nstart:
                ctx.bump("crash-points-inside-the-start-up-cache-rebuild/death=%s" % death)
            if k < len(trace) and trace[k][0] in ("c-write", "c-close"):
                ctx.bump("crash-points-inside-the-dump-of-a-cache-file(pickle.dump..close)/death=%s" % death)
            ctx.bump("prior-state/" + fallback_shape(old))
        if death != "exit":
            shape += "/death=" + death
        nontrivial = len(trace) > 0 and old != new
        ctx.count(1, key=shape, nontrivial=(json.dumps([c["history"], c["op"], k, flush, death, c.get("user")],
                                                       sort_keys=True) if nontrivial else None))
        ctx.traces_validated += 1
        o = oracle(c, k, old, new, r, trace)
        if o is None and "_oldview" in c and full_r["view"] is not None:
            o = view_frame(c, c["_oldview"], full_r["view"], r)
        if o is None and "_oldview" in c and full_r["view"] is not None:
            o = cached_frame(c, c["_oldview"], full_r["view"], r)
            ctx.bump("crash-states-listed-through-the-cache")
        if o is not None:
            inp = {"history": c["history"], "op": c["op"], "kill_before_effect": k, "flush": flush}
            for f in ("listdir", "cache", "thin", "user"):
                if c.get(f):
                    inp[f] = c[f]
            if death != "exit":
                inp["death"] = death
            if k < len(trace):
                inp["effect_not_reached"] = trace[k][:2]
            ctx.fail(o[0], inp,
                     expected="old or new form of every record; reader succeeds; everything that is not the target "
                              "is listed as before, from the records and through the cache",
                     observed=o[1], what=o[1])
        # model comparison: completed main effects among the first k real effects
        effs, writes = effects_from(trace, new)
        done = 0
        for kind, rel, extra in trace[:k]:
            if kind in ("rename", "mkdir", "rmdir") or (kind == "unlink" and not is_tmpname(rel)):
                done += 1
        atomic = all(kind != "open" or is_tmpname(rel) for kind, rel, _ in trace)
        own = (r["info"] or {}).get("trace")
        if own is not None and death != "exit" and (r["info"] or {}).get("outcome") == "exc:KeyboardInterrupt":
            mk = [e for e in own if e[0] == "interrupted"]
            if mk and mk[0][2] == "c-write" and mk[0][1].endswith(".tmp"):
                unwinds.append((c, k, own))
        if own is not None and death != "exit":
            # a command ended by an exception: what it did while unwinding is in its trace after the marker.  When
            # that holds no effect on a record the records are as after a kill at the same point and are compared
            # with the model in the same way; otherwise only the oracle speaks
            i = [j for j, e in enumerate(own) if e[0] == "interrupted"]
            tail = own[i[0] + 1:] if i else own
            if not i:
                ctx.bump("interrupt-points-not-reached-by-the-rerun")
            if any(kind in ("rename", "mkdir", "rmdir", "open") or (kind == "unlink" and not is_tmpname(rel))
                   for kind, rel, _ in tail):
                ctx.bump("interrupted-command-went-on-to-change-records(not-compared-with-model)")
                own = None
            else:
                own = own[:i[0]] if i else own
                ctx.bump("interrupted-command-unwound-without-touching-records")
        if atomic and own is not None:
            # the killed run reports what it did itself: its completed effects come first, in its own order (the
            # order of the untag effects of an undeclare may differ between two copies of one directory)
            first = [(kk, pp[len("stack/"):]) for kk, pp in completed_effects(own, r["after"])]
            rest = list(effs)
            for e in first:
                if e in rest:
                    rest.remove(e)
            effs, done = first + rest, len(first)
        if atomic and r["view"] is not None and own is not None and c.get("_seq_agrees"):
            # what the fresh reader reports at this crash point against Model/CrashDb.read_db on the model's store
            # after the record-level effects this killed run completed, in the order it performed them (the order of
            # the untag effects of an undeclare is the file system's: os.listdir)
            did = completed_effects(own, r["after"])
            if is_model_prefix(c["op"], c["_meffs"], did):
                if did != c["_meffs"][:len(did)]:
                    ctx.bump("crash-views-compared-in-the-observed-untag-order")
                if did != c["_reffs"][:len(did)]:
                    ctx.bump("killed-run-untagged-in-another-order-than-the-completed-run")
                vlines.append("\t".join(["crashview", "0", "stack", "|".join(op_model(o) for o in c["history"]),
                                         op_model(c["op"]), str(len(did)),
                                         ";".join("%s:%s" % (kk, enc(pp)) for kk, pp in did)]))
                vmeta.append((c, k, r))
            else:
                ctx.disagree({"history": c["history"], "op": c["op"], "kill_before_effect": k,
                              "listdir": c.get("listdir")},
                             ";".join("%s:%s" % e for e in c["_meffs"]), ";".join("%s:%s" % e for e in did),
                             where="the effects completed before the crash are not a prefix of the model's effects")
        if atomic and all(v == 1 for v in writes.values()) and (death == "exit" or own is not None):
            # position in the model's system calls: all calls of the completed effects
            pos = 0
            for kk, p in effs[:done]:
                pos += (len(new.get(p) or []) + 3) if kk == "W" else 1
            lines.append("\t".join(["crash", "atomic", enc_fs(old), enc_effects(effs, new), str(pos)]))
            meta.append((c, k, r))
        else:
            ctx.bump("not-compared-with-model(in-place or repeated write)")
    if os.environ.get("VERIF_C08_TIES", "1") == "1":
        compare_unwind(ctx, unwinds)
    if vlines:
        outs = ctx.model(vlines)
        for out, (c, k, r) in zip(outs, vmeta):
            ctx.bump("crash-views-compared")
            m, real = model_rows(out), real_rows(r["view"])
            if m != real:
                ctx.disagree({"history": c["history"], "op": c["op"], "kill_before_effect": k,
                              "listdir": c.get("listdir")}, repr(m)[:600],
                             repr(real)[:600], where="what a fresh reader reports at the crash point (read_db of the "
                                                     "model's crash store vs findProducts of the real one)")
    if lines:
        outs = ctx.model(lines)
        for line, out, (c, k, r) in zip(lines, outs, meta):
            real = enc_fs(r["after"])
            if out != real:
                ctx.disagree({"history": c["history"], "op": c["op"], "kill_before_effect": k,
                              "listdir": c.get("listdir")}, out[:600], real[:600],
                             where="crash state (main files)")


def run(ctx):
    ctx.rule = ("random histories of 2-6 mutating operations (declare with/without tag, tag, untag, undeclare) over 2 "
                "products x 2 versions x 2 flavors sharing version files; the last operation is killed before every "
                "one of its file-system effects (open/write/close/rename/unlink/mkdir/rmdir under ups_db); a case is "
                "non-trivial when the completed operation changes the database; distinct = distinct (history, op, k); "
                "plus histories of 2-7 operations whose last operation is only run to completion, for the comparison "
                "of its ordered record-level effects with the model's; plus directed and random prior states in which "
                "each tag of a product is assigned per flavor to an independently chosen version (chain files whose "
                "flavors point at different versions), followed by any command on that product; plus cases (key "
                "suffix cache-effects=n,TMPDIR-on-another-file-system) in which the effects on the product cache "
                "(temporary file, rename or copy, unlink) are crash points too and TMPDIR lies across a file-system "
                "boundary (rename/link across it fail with EXDEV); the key names the prior state: version file of "
                "several flavors, chain of several flavors, chain flavors at different versions")
    ctx.trusted_base = common.COMMON_TRUSTED + [
        "crash = the process stops between two file-system calls (os._exit in an injected wrapper); rename, unlink, "
        "mkdir, rmdir are atomic; no power loss (fsync) semantics",
        "the record-level effect list fed to the generic crash model is reconstructed from the trace of the completed "
        "real run; its kinds and paths, in order, are compared with Model/CrashDb.image of Db.effects for the same "
        "operation on the model state reached by the same history (record contents are not compared: abstract)",
        "Eups.declare without a directory finds <stack>/<flavor>/<product>/<version> by itself (not modelled in Db.v); "
        "the harness encodes such operations with that directory given",
        "second file system: emulated in the killed process by making os.rename/os.replace/os.link between the "
        "directory TMPDIR names and the rest of the work area raise OSError(EXDEV); data written to a cache file "
        "through os.sendfile/os.copy_file_range or file.write is one crash point per call"]
    ctx.assumptions = ["POSIX atomicity of rename/unlink/mkdir/rmdir", "one writer at a time (C09 provides it)"]
    ctx.check_theorems()
    cases = corpus_cases() + directed_cases()
    n = ctx.size(30, 400)
    for _ in range(n):
        h = gen_history(ctx.rng)
        cases.append({"history": h[:-1], "op": h[-1]})
    forced = os.environ.get("VERIF_C08_LISTDIR") or None      # testing knob: one listing order for every case
    for c in cases:
        c["listdir"] = forced
    for c in cases[:3]:
        ctx.sample({"history": c["history"], "op": c["op"]})
    # prior states with chain files re-pointed per flavor (directed and random), and cases whose cache rewrite is
    # explored as well, with TMPDIR on another file system
    extra = repoint_cases() + [gen_repointed(ctx.rng) for _ in range(ctx.size(10, 150))]
    extra += cache_cases()
    for _ in range(ctx.size(4, 60)):
        h = gen_history(ctx.rng)
        extra.append({"history": h[:-1], "op": h[-1], "cache": True})
    for c in extra:
        c["listdir"] = forced
        c["thin"] = True
    # commands that rebuild the user's cache when they start, products under the fall-back flavor; every crash point
    # of a case whose cache effects are explored is visited twice: the process gone at once, and the command ended
    # by KeyboardInterrupt raised from the call it was about to make
    rebuild = rebuild_cases() + [gen_rebuild(ctx.rng) for _ in range(ctx.size(5, 80))]
    for c in rebuild:
        c["listdir"] = forced or c.get("listdir")
        c["thin"] = True
    extra += rebuild
    for c in extra:
        if c.get("cache"):
            c["deaths"] = ["exit", "interrupt"]
    for c in cases[len(corpus_cases()):len(corpus_cases()) + len(directed_cases())]:
        c["deaths"] = ["exit", "interrupt"]
    explore(ctx, cases + extra, flush=True)
    # many more operations for the effect-sequence tie alone (completed runs, no crash points: cheap)
    seq = []
    for _ in range(ctx.size(150, 2500)):
        h = gen_history(ctx.rng) + ([gen_op(ctx.rng)] if ctx.rng.random() < 0.5 else [])
        seq.append({"history": h[:-1], "op": h[-1], "listdir": forced})
    runs = common.par_map(case_full_only, [(c["history"], c["op"], c.get("listdir")) for c in seq], timeout=300)
    for c, r in zip(seq, runs):
        if r[0] != "ok":
            raise RuntimeError("case run failed: %r" % (r,))
        c["_full"] = r[1]["full"]
        ctx.count(1, key="sequence-only/%s/effects=%d" % (c["op"]["op"], min(len(c["_full"]["info"]["trace"] or []), 9)),
                  nontrivial=(json.dumps([c["history"], c["op"]], sort_keys=True)
                              if c["_full"]["info"]["trace"] else None))
    compare_effect_sequences(ctx, seq)
    # the same crash points with python's ordinary buffering: what was written but not yet closed is lost
    nb = len(corpus_cases()) + len(directed_cases()) + ctx.size(6, 100)
    explore(ctx, [dict(history=c["history"], op=c["op"], _oldview=c.get("_oldview"), listdir=c.get("listdir"))
                  for c in cases[:nb]], flush=False)
    # directory listings in other orders than this file system's: by name, reversed, shuffled, and differing between
    # the processes of one case.  Nothing compared above or below may depend on the order of a listing
    if not forced:
        n1, n2 = ctx.rng.randrange(1 << 30), ctx.rng.randrange(1 << 30)
        for mode in ("sorted", "reversed", "shuffle:%d" % n1, "perpid:%d" % n2):
            explore(ctx, [dict(c, listdir=mode, thin=True) for c in order_cases() +
                          (directed_cases() if mode.startswith(("reversed", "shuffle")) else [])], flush=True)


def replay(ctx, path):
    obj = json.load(open(path))
    i = obj["input"]
    c = {"history": i["history"], "op": i["op"], "listdir": i.get("listdir"), "cache": bool(i.get("cache")),
         "thin": bool(i.get("thin")), "user": i.get("user"),
         "deaths": [i["death"]] if i.get("death") else ["exit"]}
    explore(ctx, [c], flush=i.get("flush", True))
    bad = [f for f in ctx.failures if not ctx._known(f)] or ctx.disagreements
    print("replay %s: %s" % (path, "still fails" if bad else "passes"))
    return 1 if bad else 0
