"""C09 - exclusive database locks exclude every other holder under all interleavings.

Model: coq/Model/Lock.v   Proofs: coq/Proofs/Lock*.v   Theorems: coq/Props/C09.v
Generated: coq/Generated/Locks.v (harness/translate_locks.py, every run)
Implementation: the unmodified python/eups/lock.py, scheduled one file-system call at a time
(harness/c09_sched.py), and the command dispatch of cmd.py / setupcmd.py with lock.takeLocks spied.
"""
import json
import os
import shutil

import common
import c09_sched
import translate_locks

# ------------------------------------------------------------------ model <-> implementation vocabulary

# program counter of the model -> the file-system call the implementation is parked at
_GIVE = {"Isdir": "isdir", "ExistsF": "existsf", "Remove": "remove", "Count": "walk", "Rmdir": "rmdir"}
LOC_OP = {
    "LMkdir": "mkdir", "LListAll": "glob*", "LListAll2": "glob*", "LExists": "exists", "LScanX": "globx",
    "LScanX2": "globx", "LCreate": "open", "LHeld": "hold", "LHeldNoLock": "hold",
    "LDone": "done", "LFailed": "failed", "LCrashed": "crashed",
}
for _m in ("LGive", "LBack", "LUnwF", "LUnwC"):
    for _g, _op in _GIVE.items():
        LOC_OP[_m + _g] = _op
NOSTACK = ("hold", "done", "failed", "crashed")
TERMINAL = c09_sched.TERMINAL
# the three versions of the protocol the model knows: (second look, release on failure)
REPAIRED, NORELEASE, PINNED = (True, True), (True, False), (False, False)


def kinds_of(procs):
    return {p["pid"]: p["kind"] for p in procs}


def roots_of(procs):
    return {p["pid"]: p.get("root") for p in procs}


def paths_of(procs):
    return {p["pid"]: list(p.get("path") or [0]) for p in procs}


def nstacks_of(case):
    return int(case.get("stacks", 1))


def enc_name(x):
    """a file or login name as both sides write it: percent-encoded bytes"""
    return common.enc(x.encode("utf-8"))


def own_name(p):
    return enc_name(c09_sched.lock_file_name(p))


def junk_of(case):
    j = [list(x) for x in (case.get("junk") or [])]
    return j + [[] for _ in range(nstacks_of(case) - len(j))]


def model_line(flags, procs, sched, nstacks=1, junk=()):
    """the protocol over file names (Model/LockName.v): every process with its login name, the lock directories
    with their foreign entries"""
    ps = ";".join("%d,%s,%s,%d,%s,%s" % (p["pid"], p["kind"], "-" if p.get("root") is None else p["root"],
                                         p.get("ntry", 2), ".".join(str(k) for k in (p.get("path") or [0])),
                                         enc_name(p.get("user", c09_sched.DEFAULT_USER)))
                  for p in procs)
    return "\t".join(["ntrace", "1" if flags[0] else "0", "1" if flags[1] else "0", str(nstacks), ps,
                      ",".join("%d:%d" % (a, b) for a, b in sched),
                      "/".join(",".join(enc_name(n) for n in names) for names in junk)])


def case_line(flags, c, sched):
    return model_line(flags, c["procs"], sched, nstacks_of(c), junk_of(c))


def parse_model(line, procs):
    """-> list of (canonical state string comparable with the implementation, raw state string, oracle ok)"""
    f = line.split("\t")
    if f[0] != "ok":
        raise common.ModelError("model: " + line[:200])
    kinds, paths = kinds_of(procs), paths_of(procs)
    out = []
    for st in f[1].split(";"):
        d, fs, ps, ok = st.split("|")
        files = []
        for per in fs.split("/"):
            files.append(",".join(sorted(x for x in per.split(",") if x)))
        ops = []
        for e in ps.split(","):
            pid, loc, _i, n, j = e.split(":")
            pid = int(pid)
            op = LOC_OP[loc] if loc != "LValidate" else ("glob*" if kinds[pid] == "E" else "globx")
            if op not in NOSTACK:
                w = int(j) if loc.startswith(("LGive", "LUnw")) else int(n)
                k = paths[pid][w] if w < len(paths[pid]) else None
                op += "" if k == 0 else "@%s" % k
            ops.append((pid, "%d:%s" % (pid, op)))
        ops = [x for _, x in sorted(ops)]
        canon = "%s|%s|%s" % ("".join("D" if x == "1" else "-" for x in d), "/".join(files), ",".join(ops))
        out.append((canon, st, ok == "1"))
    return out


def loc_of(raw, pid):
    for e in raw.split("|")[2].split(","):
        f = e.split(":")
        if int(f[0]) == pid:
            return f[1]
    return None


def ops_of(canon):
    return {int(e.split(":")[0]): e.split(":")[1] for e in canon.split("|")[2].split(",")}


def files_of(canon):
    """per stack, the names in the lock directory (percent-encoded)"""
    return [[x for x in per.split(",") if x] for per in canon.split("|")[1].split("/")]


# ------------------------------------------------------------------ the property's own oracle (on the implementation)

def related(roots, p, q):
    return roots.get(p) == q or roots.get(q) == p


def mutex_violation(procs, canon):
    """the pair of unrelated simultaneous holders that lock a common stack and of which one is exclusive, or None"""
    kinds, roots, paths = kinds_of(procs), roots_of(procs), paths_of(procs)
    holders = [p for p, op in sorted(ops_of(canon).items()) if op == "hold"]
    for i, p in enumerate(holders):
        for q in holders[i + 1:]:
            if not related(roots, p, q) and (kinds[p] == "E" or kinds[q] == "E") and set(paths[p]) & set(paths[q]):
                return (p, q)
    return None


def residue(case, canon):
    """every process has ended and something of theirs is still there: an entry that was not in the lock directory
    before anybody ran, or a lock directory that was not there (foreign entries are nobody's to remove: a directory
    that held some from the start may stay, with them)"""
    if not all(op in TERMINAL for op in ops_of(canon).values()):
        return False
    d = canon.split("|")[0]
    for k, (fl, jk) in enumerate(zip(files_of(canon), junk_of(case))):
        foreign = set(enc_name(n) for n in jk)
        if any(f not in foreign for f in fl) or (d[k] == "D" and not jk):
            return True
    return False


def ended_owner(procs, canon):
    """(pid, stack) of a process that has ended (done, failed or crashed) and still has a lock file, or None"""
    names = {p["pid"]: own_name(p) for p in procs}
    for pid, op in sorted(ops_of(canon).items()):
        if op in TERMINAL:
            for k, fl in enumerate(files_of(canon)):
                if names[pid] in fl:
                    return (pid, k, op)
    return None


def window(procs, sched, trace, k, pair):
    """which check-then-act window of takeLocks the violation at trace[k] went through (signature of D10)"""
    kinds = kinds_of(procs)
    names = {pr["pid"]: own_name(pr) for pr in procs}
    p, q = pair
    files = [x for fl in files_of(trace[k]) for x in fl]
    for x in pair:
        if names[x] not in files:
            return "K3"                 # holds without a lock file: the directory vanished before os.path.exists
    if kinds[p] == "E" and kinds[q] == "E":
        return "K1-siblings"            # both passed the listing of all lockers before either created its file
    try:
        return _window_shared(p if kinds[p] == "S" else q, sched, trace, k)
    except ValueError:
        return "unclassified"


def _window_shared(s, sched, trace, k):
    # the shared requester: when did it pass its scan, when did it create its file?  (single stack)
    t_open = max(j for j in range(1, k + 1) if sched[j - 1][0] == s and ops_of(trace[j - 1])[s] == "open")
    t_scan = max(j for j in range(1, t_open) if sched[j - 1][0] == s and ops_of(trace[j - 1])[s] == "globx")
    if any(trace[j].startswith("-") for j in range(t_scan, t_open)):
        return "K2"                     # the directory was removed (and made again) between scan and create
    return "K1"


# ------------------------------------------------------------------ running cases

def run_impl(cases, chunk=1500):
    out = []
    for i in range(0, len(cases), chunk):
        r = common.in_child(c09_sched.run_cases, cases[i:i + chunk], timeout=600)
        if r[0] != "ok":
            raise RuntimeError("implementation driver failed: %r" % (r,))
        out += r[1]
    return out


def shape_of(c):
    return "".join(p["kind"] + ("c" if p.get("root") is not None else "") +
                   ("" if nstacks_of(c) == 1 else "".join(str(k) for k in (p.get("path") or [0])))
                   for p in c["procs"])


def small_case(c, sched):
    out = {"mode": "lock", "stacks": nstacks_of(c), "procs": c["procs"], "schedule": [list(x) for x in sched],
           "drain": False}
    if any(junk_of(c)):
        out["junk"] = junk_of(c)
    if c.get("based"):
        out["based"] = True
    return out


def project(r):
    """the run as the model sees it: the steps spent inside getLockPath(d, create=True) - only there when the site
    keeps its locks under hooks.config.site.lockDirectoryBase - change nothing the model has (the process stays
    `at its mkdir`), so they are dropped from schedule and trace.  -> (indices kept, schedule, trace)"""
    sched = [tuple(x) for x in r["schedule"]]
    st = r.get("stutter") or [False] * len(sched)
    keep = [i for i in range(len(sched)) if not st[i]]
    return keep, [sched[i] for i in keep], [r["trace"][0]] + [r["trace"][i + 1] for i in keep]


# ---- the file-name layer: classes of login names, of pids and of foreign entries (for the histogram)

USERS = {
    "word": ["root", "eups", "builder_1"],
    "dotted": ["john.doe", "j.r.r.tolkien"],
    "dashed": ["www-data", "svc-build"],
    "realm": ["first.last@realm", "alice@EXAMPLE.ORG"],
    "digit-tail": ["u.5", "ops.2024"],             # the name itself ends like a lock-file name does
    "numeric": ["1000"],
    "kind-like": ["exclusive", "shared-x"],        # a login name that reads like a lock type
    "punct": ["John Doe", "a+b", "o'neil", "d$"],
    "non-ascii": ["j\u00f6rg"],
}
USER_CLASS = {u: cl for cl, us in USERS.items() for u in us}
USER_CLASS[c09_sched.DEFAULT_USER] = "word"

FOREIGN = {
    "no-parse": ["README", "exclusive.bak", "exclusive-root.12~", "shared-root", "exclusive-.5", "lock-root.77",
                 "exclusive-a.b", "shared-john.doe"],
    "hidden": [".nfs000001", ".exclusive-root.5"],
    "stale-shared": ["shared-ghost.4194304", "shared-bob.007"],       # a lock file of a process that died
    "stale-exclusive": ["exclusive-ghost.4000000"],
}
FOREIGN_CLASS = {n: cl for cl, ns in FOREIGN.items() for n in ns}

# pids as the kernel hands them out: any width, one the prefix or the suffix of another
PID_FAMILIES = [[7, 71, 717], [12, 123, 1234], [5, 45, 345], [1, 10, 100], [9, 99, 999], [2, 20, 2020]]


def gen_pids(rng, n):
    if rng.random() < 0.5:
        fam = list(rng.choice(PID_FAMILIES))
        rng.shuffle(fam)
        return fam[:n]
    out = []
    while len(out) < n:
        # (the extracted model counts in unary: pids of four and five digits are kept rare for the time they cost)
        w = rng.choice([1, 2, 2, 3, 3, 3, 3, 3, 3, 4])
        x = rng.randrange(10 ** (w - 1), 10 ** w) if rng.random() < 0.99 else rng.randrange(10000, 32768)
        if x not in out:
            out.append(x)
    return out


def gen_users(rng, n):
    if rng.random() < 0.25:                        # everybody is the same user
        u = rng.choice(USERS[rng.choice(sorted(USERS))])
        return [u] * n
    return [rng.choice(USERS[rng.choice(sorted(USERS))]) for _ in range(n)]


def gen_junk(rng, nstacks):
    out = []
    for _ in range(nstacks):
        names = []
        if rng.random() < 0.6:
            for _ in range(rng.choice([1, 1, 2])):
                cl = rng.choice(["no-parse", "no-parse", "no-parse", "hidden", "hidden", "stale-shared", "stale-shared",
                                 "stale-exclusive"])
                nm = rng.choice(FOREIGN[cl])
                if nm not in names:
                    names.append(nm)
        out.append(names)
    return out if any(out) else []


def rename(case, pids):
    """the case with the pids 1, 2, 3 ... replaced by the given ones"""
    m = {i + 1: x for i, x in enumerate(pids)}
    for p in case["procs"]:
        p["pid"] = m[p["pid"]]
        if p.get("root") is not None:
            p["root"] = m[p["root"]]
    case["schedule"] = [[m[x[0]], x[1]] for x in case["schedule"]]
    return case


def name_layer_histogram(ctx, c):
    for p in c["procs"]:
        ctx.bump("user/" + USER_CLASS.get(p.get("user", c09_sched.DEFAULT_USER), "other"))
        ctx.bump("pid-width/%d" % len(str(p["pid"])))
    ctx.bump("users-per-run/%d" % len(set(p.get("user", c09_sched.DEFAULT_USER) for p in c["procs"])))
    for names in junk_of(c):
        for n in names:
            ctx.bump("foreign/" + FOREIGN_CLASS.get(n, "other"))


def check_cases(ctx, cases, key, validate=True):
    """run implementation and model on the cases, compare step by step, evaluate the oracle.  Returns the
    list of (effective schedule, model states) per case."""
    ires = run_impl(cases)
    lines = [case_line(REPAIRED, c, project(r)[1]) for c, r in zip(cases, ires)]
    mres = [parse_model(l, c["procs"]) for c, l in zip(cases, ctx.model(lines))]
    redo = []
    results = []
    for idx, (c, r, m) in enumerate(zip(cases, ires, mres)):
        sched = [tuple(x) for x in r["schedule"]]
        trace = r["trace"]
        busy = max(sum(1 for op in ops_of(t).values() if op not in TERMINAL and not op.startswith("mkdir"))
                   for t in trace)
        keep, msched, mtrace = project(r)
        based = "+base" if c.get("based") else ""
        ctx.count(1, key=key + based + "/" + shape_of(c),
                  nontrivial=(lines[idx] + based + str(r.get("stutter") if based else "")) if busy >= 2 else None)
        if based:
            ctx.bump("lockDirectoryBase/steps-inside-getLockPath", len(sched) - len(msched))
        name_layer_histogram(ctx, c)
        # which branches of the model this trace exercises (evidence: every arrow validated at least once)
        for k, (pid, _ch) in enumerate(msched):
            if k + 1 < len(m):
                a, b = loc_of(m[k][1], pid), loc_of(m[k + 1][1], pid)
                if a not in ("LDone", "LFailed", "LCrashed"):
                    ctx.bump("arrow/%s->%s" % (a, b))
        # correspondence
        bad = next((k for k in range(len(mtrace)) if k >= len(m) or m[k][0] != mtrace[k]), None)
        if bad is None:
            if validate:
                ctx.traces_validated += 1
        else:
            redo.append((idx, bad, 0 if bad == 0 else keep[bad - 1] + 1))
        # the model's own oracle must be true on the repaired model (it is a theorem)
        if any(not ok for _, _, ok in m):
            ctx.proof_problems.append({"theorem": "mutex_okb_reachable",
                                       "what": "extracted model violates its own oracle", "case": c})
        # the property's oracle on the implementation
        for k, t in enumerate(trace):
            pair = mutex_violation(c["procs"], t)
            if pair is not None:
                w = window(c["procs"], sched, trace, k, pair)
                ctx.fail("mutex", small_case(c, sched[:k]), expected="no two unrelated holders with an exclusive one",
                         observed={"state": t, "holders": list(pair), "window": w, "step": k},
                         what="processes %d and %d both hold the lock of the stack (window %s)" % (pair[0], pair[1], w))
                break
        for k, t in enumerate(trace):
            eo = ended_owner(c["procs"], t)
            if eo is not None:
                ctx.fail("residue-after-end", small_case(c, sched[:k]),
                         expected="a process that has ended owns no lock file",
                         observed={"state": t, "process": eo[0], "stack": eo[1], "ended": eo[2], "step": k},
                         what="process %d has %s but its lock file on stack %d is still there" % (eo[0], eo[2], eo[1]))
                break
        if residue(c, trace[-1]):
            ctx.fail("residue", small_case(c, sched),
                     expected="nothing of the processes left once every one of them has finished",
                     observed={"state": trace[-1]}, what="lock directory or lock file left behind")
        results.append((msched, m))
    if redo:
        # does the implementation follow an earlier version of the protocol instead?  (diagnosis only)
        sub = redo[:200]
        alt = {}
        for name, flags in (("WITHOUT release-on-failure", NORELEASE), ("PINNED", PINNED)):
            out = ctx.model([case_line(flags, cases[i], project(ires[i])[1]) for i, _, _ in sub])
            for (i, _, _), pl in zip(sub, out):
                pm = parse_model(pl, cases[i]["procs"])
                tr = project(ires[i])[2]
                if i not in alt and all(k < len(pm) and pm[k][0] == tr[k] for k in range(len(tr))):
                    alt[i] = name
        for i, bad, rawbad in redo:
            where = "state %d of the trace" % rawbad
            if i in alt:
                where += "; the implementation agrees with the model of the protocol %s on this schedule" % alt[i]
            mm = mres[i][bad][0] if bad < len(mres[i]) else None
            ctx.disagree(small_case(cases[i], ires[i]["schedule"][:rawbad]), mm, ires[i]["trace"][rawbad], where=where)
    return results


# ------------------------------------------------------------------ exhaustive exploration, memoised on the model state

TWO_STACK_QUICK = [("E01-S1", "E", [0, 1], "S", [1]), ("S01-E1", "S", [0, 1], "E", [1]),
                   ("E01-E10", "E", [0, 1], "E", [1, 0])]
TWO_STACK_THOROUGH = [("E01-E1", "E", [0, 1], "E", [1]), ("S01-E10", "S", [0, 1], "E", [1, 0]),
                      ("E01-E01", "E", [0, 1], "E", [0, 1]), ("S01-S10", "S", [0, 1], "S", [1, 0])]


# in the exhaustive configurations every updater is john.doe and every reader www-data (two processes of one kind
# stay interchangeable), and the pids are 7, 71 and 717: each a prefix of the next
XPIDS = [7, 71, 717]
XUSER = {"E": "john.doe", "S": "www-data"}


def xproc(i, kind, root=None, ntry=2, path=None):
    p = {"pid": XPIDS[i], "kind": kind, "root": None if root is None else XPIDS[root], "ntry": ntry,
         "user": XUSER[kind]}
    if path is not None:
        p["path"] = path
    return p


def procs2(k1, k2, child=False, ntry=2):
    return [xproc(0, k1, ntry=ntry), xproc(1, k2, root=0 if child else None, ntry=ntry)]


def sym_key(raw, procs):
    """state key up to renaming of interchangeable processes (same kind, root, budget and path, nobody's root):
    the protocol treats pids uniformly, so one representative per orbit is explored"""
    best = raw
    cls = {}
    rooted = {p.get("root") for p in procs}
    for p in procs:
        if p["pid"] not in rooted:
            cls.setdefault((p["kind"], p.get("root"), p.get("ntry", 2), tuple(p.get("path") or [0]),
                            p.get("user", c09_sched.DEFAULT_USER)), []).append(p["pid"])
    for group in cls.values():
        if len(group) == 2:
            a, b = group
            sw = {a: b, b: a}
            names = {p["pid"]: own_name(p) for p in procs}
            swn = {names[a]: names[b], names[b]: names[a]}
            d, fs, ps, ok = raw.split("|")
            fs2 = "/".join(",".join(swn.get(x, x) for x in per.split(",") if x) for per in fs.split("/"))
            ent = {}
            for e in ps.split(","):
                f = e.split(":")
                ent[sw.get(int(f[0]), int(f[0]))] = f[1:]
            ps2 = ",".join("%d:%s" % (pid, ":".join(ent[pid])) for pid in sorted(ent))
            best = min(best, "|".join([d, fs2, ps2, ok]))
    return best


def listing_size(raw, procs, p):
    """number of exclusive lock files on the stack process p is working on (for the choice of listing order)"""
    paths = paths_of(procs)
    for e in raw.split("|")[2].split(","):
        f = e.split(":")
        if int(f[0]) == p:
            w = int(f[3])
            if w >= len(paths[p]):
                return 0
            per = raw.split("|")[1].split("/")
            k = paths[p][w]
            return sum(1 for x in per[k].split(",") if x.startswith("exclusive-")) if k < len(per) else 0
    return 0


def explore(ctx, configs, max_states, deadline=None):
    """Breadth-first over the states of the model, all configurations (label, procs, nstacks) in lock step; every
    transition found is replayed on the implementation (from empty stacks, along the representative schedule of
    its source state) and compared.  Returns True when every state space was exhausted."""
    inits = ctx.model([model_line(REPAIRED, procs, [], ns, [[] for _ in range(ns)]) for _, procs, ns in configs])
    book = []
    for (label, procs, ns), line in zip(configs, inits):
        init = parse_model(line, procs)[0]
        book.append({"label": label, "procs": procs, "stacks": ns, "frontier": [()],
                     "seen": {sym_key(init[1], procs)}, "last": {(): init}, "ntrans": 0, "complete": True,
                     "optional": len(procs) > 2 or ns > 1})
    import time
    while any(b["frontier"] for b in book):
        cand = []
        for b in book:
            if deadline is not None and time.time() > deadline and b["optional"] and b["frontier"]:
                b["complete"] = False      # out of time: the rest of this space is left to the thorough tier
                b["frontier"] = []
                ctx.notes.append("exhaustive exploration of %s cut short by the time budget" % b["label"])
                continue
            pids = [p["pid"] for p in b["procs"]]
            for pi in b["frontier"]:
                canon, raw, _ = b["last"][pi]
                ops = ops_of(canon)
                for p in pids:
                    if ops[p] in TERMINAL:
                        continue
                    nex = listing_size(raw, b["procs"], p) if loc_of(raw, p) == "LScanX2" else 0
                    for ch in (range(nex) if nex >= 2 else [0]):
                        cand.append((b, pi + ((p, ch),)))
            b["frontier"] = []
        if not cand:
            break
        cases = [{"mode": "lock", "stacks": b["stacks"], "procs": b["procs"], "schedule": [list(x) for x in pi],
                  "drain": False, "label": b["label"]} for b, pi in cand]
        res = check_cases(ctx, cases, "exhaustive")
        for (b, pi), (sched, m) in zip(cand, res):
            b["ntrans"] += 1
            st = m[-1]
            key = sym_key(st[1], b["procs"])
            if key not in b["seen"]:
                if len(b["seen"]) >= max_states:
                    b["complete"] = False
                    continue
                b["seen"].add(key)
                b["last"][pi] = st
                b["frontier"].append(pi)
    for b in book:
        ctx.extra.setdefault("exhaustive_exploration", {})[b["label"]] = {
            "states": len(b["seen"]), "transitions": b["ntrans"], "complete": b["complete"]}
    return all(b["complete"] for b in book)


# ------------------------------------------------------------------ random schedules of three processes

def gen_random(rng):
    shape = rng.choice(["flat", "flat", "child", "siblings", "chain"])
    kinds = [rng.choice("SE") for _ in range(3)]
    if rng.random() < 0.5 and "E" not in kinds:
        kinds[rng.randrange(3)] = "E"
    roots = {"flat": [None, None, None], "child": [None, 1, None], "siblings": [None, 1, 1],
             "chain": [None, 1, 1]}[shape]
    procs = [{"pid": i + 1, "kind": kinds[i], "root": roots[i], "ntry": rng.choice([1, 2, 2, 3])} for i in range(3)]
    stacks = rng.choice([1, 1, 2, 2, 3])
    if stacks > 1:
        # each process locks one or several of the stacks, in an order of its own (EUPS_PATH orders differ)
        for p in procs:
            ks = list(range(stacks))
            rng.shuffle(ks)
            p["path"] = ks[:rng.choice([1, 2, 2, stacks])]
    n = rng.choice([8, 14, 20, 30, 45])
    # bursts: a process tends to run a few calls in a row, as real processes do
    sched = []
    while len(sched) < n:
        p = rng.choice([1, 2, 3])
        for _ in range(rng.choice([1, 1, 2, 3, 5])):
            sched.append([p, rng.choice([0, 0, 0, 1, 2])])
    case = {"mode": "lock", "stacks": stacks, "procs": procs, "schedule": sched, "drain": True, "shape": shape}
    # the file-name layer: a login name per process, pids of any width, foreign entries in the lock directories
    for p, u in zip(procs, gen_users(rng, 3)):
        p["user"] = u
    rename(case, gen_pids(rng, 3))
    if rng.random() < 0.3:
        junk = gen_junk(rng, stacks)
        if junk:
            case["junk"] = junk
    if rng.random() < 0.3:
        case["based"] = True        # the site keeps its locks under hooks.config.site.lockDirectoryBase
    return case


# ------------------------------------------------------------------ directed families of the file-name layer

def hold_then_rival(holder, rival, junk=None):
    """the holder takes its lock undisturbed; then the rival tries; then everybody finishes"""
    c = {"mode": "lock", "stacks": 1, "procs": [holder, rival],
         "schedule": [[holder["pid"], 0]] * (5 if junk else 4) + [[rival["pid"], 0]] * 8, "drain": True}
    if junk:
        c["junk"] = [list(junk)]
    return c


def gen_release_race(rng):
    """a holder releases the last lock of a stack while a second requester is parked at each of its first calls
    (under lockDirectoryBase: inside getLockPath, or between getLockPath and its mkdir); the second then goes on
    for one to four calls before a third requester arrives; all kinds, with the locks in the stack and under
    hooks.config.site.lockDirectoryBase"""
    out = []
    for based in (False, True):
        take = 4 + (2 if based else 0)
        for hk in "SE":
            for rk in "SE":
                for wk in "SE":
                    for j in range(4):
                        for m in range(1, 5):
                            h, r, w = gen_pids(rng, 3)
                            procs = [{"pid": h, "kind": hk, "root": None, "ntry": 1},
                                     {"pid": r, "kind": rk, "root": None, "ntry": 2},
                                     {"pid": w, "kind": wk, "root": None, "ntry": 1}]
                            sched = [[h, 0]] * take + [[r, 0]] * j + [[h, 0]] * 8 + [[r, 0]] * m + [[w, 0]] * 12
                            c = {"mode": "lock", "stacks": 1, "procs": procs, "schedule": sched, "drain": True}
                            if based:
                                c["based"] = True
                            out.append(c)
    return out


def gen_names(rng):
    """every login name of the pool as the holder of a lock of either kind, against a rival of either kind under a
    name of another class, as strangers and as parent and child; pids of all widths"""
    out = []
    users = [u for cl in sorted(USERS) for u in USERS[cl]]
    for i, u in enumerate(users):
        for hk, rk in ("ES", "SE", "EE", "SS"):
            v = users[(i + 1 + rng.randrange(len(users) - 1)) % len(users)] if rng.random() < 0.8 else u
            a, b = gen_pids(rng, 2)
            child = rng.random() < 0.25
            holder = {"pid": a, "kind": hk, "root": None, "ntry": 1, "user": u}
            rival = {"pid": b, "kind": rk, "root": a if child else None, "ntry": rng.choice([1, 2]), "user": v}
            out.append(hold_then_rival(holder, rival))
    return out


def gen_foreign(rng):
    """every foreign entry of the pool in the lock directory from the start: a process alone, and a holder with a
    rival, of all kinds"""
    out = []
    for cl in sorted(FOREIGN):
        for nm in FOREIGN[cl]:
            for hk, rk in ("ES", "SE", "SS", "EE"):
                a, b = gen_pids(rng, 2)
                u, v = gen_users(rng, 2)
                extra = [rng.choice(FOREIGN["no-parse"])] if rng.random() < 0.3 else []
                out.append(hold_then_rival({"pid": a, "kind": hk, "root": None, "ntry": 1, "user": u},
                                           {"pid": b, "kind": rk, "root": None, "ntry": 2, "user": v},
                                           junk=[nm] + [x for x in extra if x != nm]))
    return out


# ------------------------------------------------------------------ which command takes which lock

# independent statement of the two lists (coq/Model/Lock.v has the same ones; compared below): command ->
# an argument vector that selects it and is harmless on an empty scratch stack
MUTATING = {
    "declare": ["declare", "nosuch", "1.0", "-r", "none"],
    "undeclare": ["undeclare", "nosuch", "1.0"],
    "remove": ["remove", "nosuch", "1.0"],
    "admin buildCache": ["admin", "buildCache"],
    "admin clearCache": ["admin", "clearCache"],
    "admin clearServerCache": ["admin", "clearServerCache"],
    "distrib clean": ["distrib", "clean", "nosuch", "1.0"],
    "distrib create": ["distrib", "create", "nosuch", "1.0"],
    "distrib declare": ["distrib", "declare", "nosuch", "1.0"],
    "distrib install": ["distrib", "install", "nosuch", "1.0"],
    "tags --clone": ["tags", "--clone", "old", "new"],
    "tags --delete": ["tags", "--delete", "old"],
}
READERS = {
    "setup": None,
    "list": ["list"],
    "uses": ["uses", "nosuch"],
    "pkg-config": ["pkg-config", "nosuch"],
    "expandbuild": ["expandbuild", "nosuch.build"],
    "expandtable": ["expandtable", "nosuch.table"],
    "admin listCache": ["admin", "listCache"],
    "admin info": ["admin", "info", "nosuch"],
    "distrib list": ["distrib", "list"],
    "tags": ["tags"],
}


def spy_locks(jobs, scratch):
    """Runs in a forked child: dispatch every argv through the real EupsCmd.run / EupsSetup.run with
    lock.takeLocks replaced by a recorder that stops the command at the first real lock request.
    Also returns the registration table as the running module has it."""
    import io
    import sys
    common.import_eups()
    import eups.cmd as C
    import eups.setupcmd as SC
    from eups import lock
    names = {None: None, lock.LOCK_SH: "Sh", lock.LOCK_EX: "Ex"}

    class Stop(BaseException):
        pass
    calls = []

    def fake(cmdName, path, lockType, **kw):
        calls.append([cmdName, names.get(lockType, repr(lockType))])
        if lockType is not None:
            raise Stop()
        return []
    lock.takeLocks = fake
    out = []
    for name, argv in jobs:
        del calls[:]
        err = None
        so, se = sys.stdout, sys.stderr
        sys.stdout = sys.stderr = io.StringIO()
        try:
            try:
                if name == "setup":
                    SC.EupsSetup(args=["nosuch"], toolname="eups_setup").run()
                else:
                    C.EupsCmd(args=list(argv), toolname="eups").run()
            except Stop:
                pass
            except BaseException as e:  # noqa
                err = "%s: %s" % (type(e).__name__, str(e)[:200])
        finally:
            sys.stdout, sys.stderr = so, se
        out.append({"command": name, "argv": argv, "calls": [list(c) for c in calls], "error": err})
    table = {k: names.get(v[1], repr(v[1])) for k, v in C._cmdLookup.items()}
    return {"jobs": out, "table": table}


def check_registration(ctx, rows):
    generated = {name: lk for name, lk, _ in rows}
    scratch = common.scratch_dir("eups-verif-c09r.")
    try:
        os.makedirs(os.path.join(scratch, "stack", "ups_db"))
        os.makedirs(os.path.join(scratch, "ud", "ups_db"))
        env = common.scrubbed_environ({"EUPS_PATH": os.path.join(scratch, "stack"),
                                       "EUPS_USERDATA": os.path.join(scratch, "ud"), "EUPS_FLAVOR": "Linux64",
                                       "HOME": scratch})
        jobs = [[k, v] for k, v in MUTATING.items()] + [[k, v] for k, v in READERS.items()]
        r = common.in_child(spy_locks, jobs, scratch, environ=env, timeout=300)
    finally:
        shutil.rmtree(scratch, ignore_errors=True)
    if r[0] != "ok":
        raise RuntimeError("registration driver failed: %r" % (r,))
    res = r[1]
    # the generated table against the table of the running module (entries NAME --OPT are checked through the spy)
    static = {k: v for k, v in generated.items() if " --" not in k and k != "setup"}
    if static != res["table"]:
        ctx.disagree({"mode": "registration-table"}, static, res["table"], where="Generated/Locks.v vs cmd._cmdLookup")
    for j in res["jobs"]:
        name = j["command"]
        want = "Ex" if name in MUTATING else "Sh"
        real = [c for c in j["calls"] if c[1] is not None]
        got = real[0][1] if real else None
        case = {"mode": "registration", "command": name, "argv": j["argv"]}
        ctx.count(1, key="registration/" + want, nontrivial="registration:" + name)
        if generated.get(name, "absent") != got:
            ctx.disagree(case, generated.get(name, "absent"), got, where="lock type in Generated/Locks.v vs spied takeLocks")
        if got != want:
            ctx.fail("updater-not-exclusive" if want == "Ex" else "reader-not-shared", case, expected=want,
                     observed={"takeLocks_calls": j["calls"], "error": j["error"]},
                     what="eups %s takes %s lock" % (" ".join(j["argv"] or ["setup"]),
                                                     {"Sh": "a shared", "Ex": "an exclusive", None: "no"}[got]))
    return res


# ------------------------------------------------------------------ WHICH stacks a command locks
#
# The mutual exclusion of the protocol is per stack (theorem mutex): a command excludes the others exactly on the
# stacks it has locked.  So every command must take its locks on the stacks it is going to work on - the ones its
# Eups object ends up with (Eups.path) - however they were named: $EUPS_PATH of one or several stacks, -Z /
# --database / --with-eups before or after the command word, -z, or several of these at once.
# Three scratch stacks: alpha/stack0, alpha/stack1, beta/stack2 (so that -z alpha and -z beta select).

PATH_DIRS = ["alpha/stack0", "alpha/stack1", "beta/stack2"]

# variant -> (EUPS_PATH, options before the command word, options after the command line); an option is
# ("Z", [stacks]) or ("z", directory name)
PATH_VARIANTS = [
    ("env1", [0], [], []),
    ("env2", [0, 1], [], []),
    ("env3-dup", [1, 0, 1, 2], [], []),
    ("Z-before", [0], [("Z", [2])], []),
    ("Z-after", [0], [], [("Z", [2])]),
    ("Z2-after", [0, 1], [], [("Z", [2, 1])]),
    ("Z-before+Z-after", [0], [("Z", [1])], [("Z", [2])]),
    ("Z-after-subset", [0, 1, 2], [], [("Z", [1])]),
    ("z-before", [0, 1, 2], [("z", "alpha")], []),
    ("z-after", [0, 1, 2], [], [("z", "beta")]),
    ("Z-after+z-before", [0], [("z", "alpha")], [("Z", [0, 2])]),
    ("Z-before+z-after", [2], [("Z", [0, 1, 2])], [("z", "stack1")]),
]
Z_SPELLINGS = [lambda v: ["-Z", v], lambda v: ["--database", v], lambda v: ["--database=" + v],
               lambda v: ["--with-eups", v], lambda v: ["-Z" + v]]
z_SPELLINGS = [lambda v: ["-z", v], lambda v: ["--select-db", v], lambda v: ["--select-db=" + v]]


def expected_stacks(env, before, after):
    """independent statement of `the stacks the command will use` (indices into PATH_DIRS): the last -Z of the
    whole command line if there is one, else $EUPS_PATH; restricted by the last -z to the stacks that have a
    directory of that name in their path; each stack once, in order"""
    zs = [v for o, v in before + after if o == "Z"]
    sel = [v for o, v in before + after if o == "z"]
    path = list(zs[-1]) if zs else list(env)
    if sel:
        path = [k for k in path if sel[-1] in PATH_DIRS[k].split("/")]
    out = []
    for k in path:
        if k not in out:
            out.append(k)
    return out


def path_jobs(rng=None, commands=None):
    jobs = []
    table = dict(MUTATING)
    table.update(READERS)
    for name in (commands or list(MUTATING) + list(READERS)):
        for vname, env, before, after in PATH_VARIANTS:
            sp = [(rng.randrange(len(Z_SPELLINGS)) if rng else 0, rng.randrange(len(z_SPELLINGS)) if rng else 0)
                  for _ in before + after]
            jobs.append({"mode": "lockpath", "command": name, "variant": vname, "env": list(env),
                         "before": [list(x) for x in before], "after": [list(x) for x in after],
                         "spell": [list(x) for x in sp],
                         "base": ["nosuch"] if name == "setup" else list(table[name])})
    return jobs


def job_argv(job, stacks):
    def words(opts, spell):
        out = []
        for (o, v), (a, b) in zip(opts, spell):
            out += Z_SPELLINGS[a](":".join(stacks[k] for k in v)) if o == "Z" else z_SPELLINGS[b](v)
        return out
    nb = len(job["before"])
    return words(job["before"], job["spell"][:nb]) + list(job["base"]) + words(job["after"], job["spell"][nb:])


def spy_paths(jobs, stacks, userdata):
    """Runs in a forked child: every job's command line through the real EupsCmd.run / EupsSetup.run.
    lock.takeLocks is replaced by a recorder (type and PATH argument; nothing is locked) and the command is
    stopped as soon as its Eups object has been constructed: the stacks that object works on (Eups.path without
    the user's own data directory) are what the locks have to cover."""
    import io
    import sys
    common.import_eups()
    import eups
    import eups.cmd as C
    import eups.setupcmd as SC
    from eups import lock
    names = {None: None, lock.LOCK_SH: "Sh", lock.LOCK_EX: "Ex"}

    class Stop(BaseException):
        pass
    calls, used = [], []

    def fake(cmdName, path, lockType, **kw):
        calls.append([cmdName, names.get(lockType, repr(lockType)), [os.path.normpath(p) for p in path]])
        return []
    lock.takeLocks = fake
    real_init = eups.Eups.__init__

    def init(self, *a, **k):
        real_init(self, *a, **k)
        used.append([os.path.normpath(p) for p in self.path if os.path.normpath(p) != os.path.normpath(userdata)])
        raise Stop()
    eups.Eups.__init__ = init
    index = {os.path.normpath(s): k for k, s in enumerate(stacks)}

    def idx(paths):
        return None if paths is None else [index.get(p, p) for p in paths]
    env0 = dict(os.environ)
    out = []
    for job in jobs:
        del calls[:]
        del used[:]
        os.environ.clear()
        os.environ.update(env0)
        os.environ["EUPS_PATH"] = ":".join(stacks[k] for k in job["env"])
        sys.modules["eups.db.Database"]._databases.clear()
        argv = job_argv(job, stacks)
        err = None
        so, se = sys.stdout, sys.stderr
        sys.stdout = sys.stderr = io.StringIO()
        try:
            try:
                if job["command"] == "setup":
                    SC.EupsSetup(args=list(argv), toolname="eups_setup").run()
                else:
                    C.EupsCmd(args=list(argv), toolname="eups").run()
            except Stop:
                pass
            except BaseException as e:  # noqa
                err = "%s: %s" % (type(e).__name__, str(e)[:200])
        finally:
            sys.stdout, sys.stderr = so, se
        real = [c for c in calls if c[1] is not None]
        out.append({"command": job["command"], "variant": job["variant"], "argv": argv,
                    "type": real[0][1] if real else None, "locked": idx(real[0][2]) if real else None,
                    "used": idx(used[0]) if used else None, "ncalls": len(real), "error": err})
    return out


def check_lock_paths(ctx, jobs, key="lockpath"):
    scratch = common.scratch_dir("eups-verif-c09p.")
    try:
        stacks = [os.path.join(scratch, d) for d in PATH_DIRS]
        ud = os.path.join(scratch, "ud")
        for s in stacks + [ud]:
            os.makedirs(os.path.join(s, "ups_db"))
        env = common.scrubbed_environ({"EUPS_PATH": stacks[0], "EUPS_USERDATA": ud, "EUPS_FLAVOR": "Linux64",
                                       "HOME": scratch})
        r = common.in_child(spy_paths, jobs, stacks, ud, environ=env, timeout=300)
    finally:
        shutil.rmtree(scratch, ignore_errors=True)
    if r[0] != "ok":
        raise RuntimeError("lock path driver failed: %r" % (r,))
    for job, j in zip(jobs, r[1]):
        want = expected_stacks(job["env"], [tuple(x) for x in job["before"]], [tuple(x) for x in job["after"]])
        case = dict(job)
        case["argv"] = job_argv(job, PATH_DIRS)     # (with the stacks by their names relative to the scratch directory)
        kind = "Ex" if job["command"] in MUTATING else "Sh"
        if j["used"] is None:
            # the command never got as far as an Eups object (it has no stack to work on): nothing to cover
            ctx.count(1, key="%s/%s/%s/no-eups-object" % (key, kind, job["variant"]), nontrivial=None)
            continue
        ctx.count(1, key="%s/%s/%s" % (key, kind, job["variant"]),
                  nontrivial="lockpath:%s:%s" % (job["command"], job["variant"]))
        ctx.bump("lockpath-stacks-used/%d" % len(j["used"]))
        locked = j["locked"] if j["locked"] is not None else []
        # the property: the command holds its lock on every stack it works on
        missing = [k for k in j["used"] if k not in locked]
        if missing:
            ctx.fail("works-on-unlocked-stack", case, expected={"locked": j["used"]},
                     observed={"type": j["type"], "locked": j["locked"], "used": j["used"], "unlocked": missing,
                               "error": j["error"]},
                     what="eups %s locks the stacks %s but works on the stacks %s (indices into %s)"
                     % (" ".join(case["argv"]), j["locked"], j["used"], PATH_DIRS))
        # correspondence with the statement of what the command line means (Model/LockCmd.v: stacks_of)
        elif j["locked"] != want or j["used"] != want:
            ctx.disagree(case, {"locked": want, "used": want}, {"locked": j["locked"], "used": j["used"]},
                         where="stacks of the command line vs spied takeLocks path and Eups.path")
    return r[1]


def coq_lists():
    """the two command lists as written in coq/Model/Lock.v (to keep the harness copy honest)"""
    import re
    src = open(os.path.join(common.COQ, "Model", "Lock.v")).read()
    out = {}
    for nm in ("mutating_commands", "reader_commands"):
        m = re.search(r"Definition %s : list string :=\s*\[(.*?)\]%%string" % nm, src, re.S)
        out[nm] = re.findall(r'"([^"]*)"', m.group(1)) if m else None
    return out


# ------------------------------------------------------------------ matchers for findings (used only if listed open)

def m_k_windows(f):
    return f["kind"] == "mutex" and (f.get("observed") or {}).get("window") in ("K1", "K2", "K3", "K1-siblings")


def m_residue_after_failure(f):
    """a takeLocks that failed on a later stack of its path left its lock on an earlier one"""
    c = f["input"]
    o = f.get("observed") or {}
    if f["kind"] == "residue-after-end":
        return o.get("ended") in ("failed", "crashed") and len(paths_of(c["procs"])[o["process"]]) > 1
    return f["kind"] == "residue" and any(len(pa) > 1 for pa in paths_of(c["procs"]).values())


def m_tags_option_shared(f):
    return f["kind"] == "updater-not-exclusive" and f["input"].get("command") in ("tags --clone", "tags --delete")


# ------------------------------------------------------------------ entry points

def corpus_cases():
    d = os.path.join(common.ROOT, "corpus", "C09")
    out = []
    if os.path.isdir(d):
        for f in sorted(os.listdir(d)):
            if f.endswith(".json"):
                out.append(json.load(open(os.path.join(d, f)))["input"])
    return out


def setup_ctx(ctx):
    ctx.matchers["c09.k_windows"] = m_k_windows
    ctx.matchers["c09.tags_option_shared"] = m_tags_option_shared
    ctx.matchers["c09.residue_after_failure"] = m_residue_after_failure
    ctx.rule = ("lock protocol: every interleaving of the file-system calls of two processes on one stack (kinds SS SE "
                "ES EE, and the four parent/child combinations with the child inheriting EUPS_LOCK_PID; retry budget "
                "2), of two processes on two stacks (one locks both, the other the second only or both in the "
                "opposite order) and of three processes SEE with one attempt each, explored breadth-first and memoised "
                "on the model state (up to renaming of interchangeable processes), every transition replayed on the "
                "real lock.py; plus random burst schedules of three processes on 1-3 stacks (flat, child, siblings; "
                "budgets 1-3; paths in orders of their own; random directory order) run to completion.  File-name layer: "
                "every process has a login name of its own (classes word, dotted, dashed, realm, digit-tail, numeric, "
                "kind-like, punct, non-ascii; one to three different names per run; in the exhaustive configurations "
                "updaters are john.doe and readers www-data), pids of one to five digits, families in which one pid is "
                "a prefix of another (7 71 717), and in the random and directed streams foreign entries in the lock "
                "directories from the start (names that do not parse, hidden files, lock files of dead processes); "
                "the directory listings are compared name by name with Model/LockName.v; directed family `names`: "
                "every login name of the pool as holder against a rival of each kind, strangers and parent/child, "
                "and every foreign entry of the pool under every pair of kinds.  A schedule "
                "is non-trivial when at some point two processes are inside takeLocks/giveLocks at once; distinct = "
                "distinct (configuration, schedule).  Registration: every command of the two lists dispatched "
                "through the real EupsCmd.run with takeLocks spied.  Lock path: every command of the two lists "
                "under twelve ways of naming its stacks (EUPS_PATH of one, two, three stacks with a repetition; -Z / "
                "--database / --with-eups before the command word, after the command line, both; -z / --select-db "
                "before and after; -Z with -z) through the real EupsCmd.run / EupsSetup.run on three scratch stacks: "
                "the PATH argument of the spied takeLocks against the stacks of the Eups object the command then "
                "constructs (Eups.path without the user's data directory) and against the independent reading of "
                "the command line (expected_stacks; Model/LockCmd.v states the same function).  lockDirectoryBase: "
                "30% of the random schedules and the directed family `release-race` (the last holder releases while "
                "a second requester is parked at each of its first calls, a third arrives after the second has made "
                "one to four more calls; all kinds; with and without the option) run with "
                "hooks.config.site.lockDirectoryBase set: the look-up and creation of <base>/<stack> inside "
                "getLockPath(d, create=True) are steps of the schedule (dropped before the comparison with the "
                "model, which they do not change), os.removedirs - should the release use it - is a sequence of rmdir "
                "steps.")
    ctx.trusted_base = common.COMMON_TRUSTED + [
        "modelled, not verified: POSIX atomicity of mkdir, open(O_CREAT|O_EXCL), unlink, rmdir (fails on a non-empty "
        "directory); a directory listing returns the entries present at the instant of the call",
        "harness/c09_sched.py: the proxies that stand in for os, glob and time inside eups.lock (one scheduling point "
        "per file-system call; directory listings presented in creation order rotated by the choice)",
        "harness/c09_sched.py: utils.getUserName answers with the login name of the calling logical process; foreign "
        "entries are created before the first step; entries of the form <type>-<user>.<pid> are the ones rotated by the "
        "choice of listing order",
        "harness/translate_locks.py: python ast -> coq/Generated/Locks.v, fail-closed; cross-checked every run against "
        "the running cmd module and the spied takeLocks calls",
        "harness/c09.py spy_paths: eups.Eups.__init__ wrapped to read Eups.path and stop the command; lock.takeLocks "
        "replaced by a recorder",
        "harness/c09_sched.py: os.makedirs inside getLockPath is one step (the real call makes the components one by "
        "one); os.path.isabs is not a step",
    ]
    ctx.assumptions = [
        "one takeLocks (on a path of distinct stacks) followed by one giveLocks per process, ntry >= 1",
        "only EEXIST failures of mkdir are modelled (EACCES / read-only stacks, for which takeLocks deliberately "
        "proceeds unlocked, are outside the property)",
        "signals, atexit handlers, NFS and pid reuse are not modelled; hooks.config.site.lockDirectoryBase is not in "
        "the Coq model (the directories above the lock directory are not part of its state): the runs with the option "
        "are tied to the model by dropping the steps inside getLockPath, and judged by the oracle on the real run",
        "lock path: commands that never construct an Eups object (admin clearCache, distrib clean on the scratch "
        "stacks) are counted as no-eups-object and not judged; the user's data directory, which Eups appends to its "
        "path, is nobody's stack and is not expected to be locked; Model/LockCmd.v is not extracted - the harness "
        "carries the same function (expected_stacks)",
        "login names are not empty and hold no newline and no slash (users_ok); foreign entries are plain files, never "
        "sub-directories; pids above 32767 occur only as the pid field of stale lock files (the extracted model counts "
        "in unary); mutex_named is proved from empty lock directories - with foreign entries the name-level model is "
        "tied to the code by the step-by-step comparison and by foreign_entries_invisible only",
        "processes die only by the exceptions of the protocol itself, never between two calls (a killed process "
        "leaves its lock file; eups admin clearLocks is the remedy the code base provides)",
    ]


def run(ctx):
    import time
    setup_ctx(ctx)
    t0 = [time.time()]
    phases = ctx.extra.setdefault("phase_seconds", {})

    def lap(name):
        phases[name] = round(time.time() - t0[0], 1)
        t0[0] = time.time()
    # 1. regenerate the lock table, then re-check the theorems
    rows = None
    try:
        rows = translate_locks.generate()
        ctx.extra["lock_table"] = {name: lk for name, lk, _ in rows}
    except translate_locks.TranslationError as e:
        ctx.proof_problems.append({"theorem": "updaters_exclusive", "what": "translator refused cmd.py/setupcmd.py: %s" % e})
    ctx.check_theorems()
    if ctx.tier == "thorough":
        ctx.coqchk(["Eupsv.Props.C09"])
    lists = coq_lists()
    if lists["mutating_commands"] != list(MUTATING) or lists["reader_commands"] != list(READERS):
        ctx.proof_problems.append({"theorem": "updaters_exclusive",
                                   "what": "command lists of Model/Lock.v and harness/c09.py differ", "coq": lists})
    lap("theorems")
    # 2. registration
    if rows is not None:
        check_registration(ctx, rows)
    lap("registration")
    # 2b. which stacks each command locks against the stacks it works on
    pj = path_jobs(ctx.rng)
    ctx.sample(pj[4])
    check_lock_paths(ctx, pj)
    lap("lockpath")
    # 3. corpus
    corpus = [c for c in corpus_cases() if c.get("mode", "lock") == "lock"]
    if corpus:
        check_cases(ctx, corpus, "corpus")
        for c in corpus[:2]:
            ctx.sample(c)
    lap("corpus")
    # 3b. the file-name layer, directed: login names of every class, pids of every width, foreign entries
    named = gen_names(ctx.rng) + gen_foreign(ctx.rng)
    ctx.sample(named[5])
    check_cases(ctx, named, "names")
    lap("names")
    # 3c. the last holder releases while another requester is on its way in, with and without lockDirectoryBase
    race = gen_release_race(ctx.rng)
    ctx.sample(race[-1])
    check_cases(ctx, race, "release-race")
    lap("release-race")
    # 4. exhaustive two-process exploration
    cap = ctx.size(20000, 400000)
    configs = []
    for k1 in "SE":
        for k2 in "SE":
            configs.append((k1 + k2, procs2(k1, k2), 1))
            configs.append((k1 + k2 + "-child", procs2(k1, k2, child=True), 1))
    # two stacks: a process that locks both, in either order, against one that locks the second only or both in
    # the opposite order (takeLocks fails on its second stack after having locked its first)
    for label, k1, path1, k2, path2 in TWO_STACK_QUICK + (TWO_STACK_THOROUGH if ctx.tier == "thorough" else []):
        configs.append((label, [xproc(0, k1, path=path1), xproc(1, k2, path=path2)], 2))
    # three processes, one attempt each: the smallest setting in which a process can come and go while another
    # is parked between two of its calls (windows K2 and K3 need a third party)
    configs.append(("SEE-ntry1", [xproc(i, k, ntry=1) for i, k in enumerate("SEE")], 1))
    if ctx.tier == "thorough":
        for ks in ("SSE", "SSS", "EEE"):
            configs.append((ks + "-ntry1", [xproc(i, k, ntry=1) for i, k in enumerate(ks)], 1))
        configs.append(("E+siblings-ES-ntry1", [xproc(0, "E", ntry=1), xproc(1, "E", root=0, ntry=1),
                                                xproc(2, "S", root=0, ntry=1)], 1))
    complete = explore(ctx, configs, cap, deadline=(ctx.t0 + 42) if ctx.tier == "quick" else None)
    ctx.exhaustive = complete
    lap("exhaustive")
    # 5. random three-process schedules
    n = ctx.size(1600, 15000)
    cases = [gen_random(ctx.rng) for _ in range(n)]
    ctx.sample(cases[0])
    check_cases(ctx, cases, "random3")
    lap("random3")


def replay(ctx, path):
    setup_ctx(ctx)
    obj = json.load(open(path))
    c = obj["input"]
    if c.get("mode") in ("registration", "registration-table"):
        rows = translate_locks.generate()
        check_registration(ctx, rows)
        ctx.failures = [f for f in ctx.failures if f["input"].get("command") == c.get("command")]
    elif c.get("mode") == "lockpath":
        for j in check_lock_paths(ctx, [c], "replay"):
            print("  %s: lock %s on stacks %s, works on stacks %s" % (" ".join(j["argv"]), j["type"], j["locked"], j["used"]))
    else:
        check_cases(ctx, [c], "replay")
        for f in ctx.failures:
            print("  %s: %s  %s" % (f["kind"], f["what"], json.dumps(f["observed"])))
    bad = [f for f in ctx.failures if not ctx._known(f)] or ctx.disagreements
    for d in ctx.disagreements[:3]:
        print("  disagreement at %s: model %s, implementation %s" % (d["where"], d["model"], d["impl"]))
    print("replay %s: %s" % (path, "still fails" if bad else "passes"))
    return 1 if bad else 0
