"""C09 - exclusive database locks exclude every other holder under all interleavings.

Model: coq/Model/Lock.v   Proofs: coq/Proofs/Lock*.v   Theorems: coq/Props/C09.v
Generated: coq/Generated/Locks.v (harness/translate_locks.py, every run)
Implementation: the unmodified python/eups/lock.py, scheduled one file-system call at a time
(harness/c09_sched.py), and the command dispatch of cmd.py / setupcmd.py with lock.takeLocks spied.
"""
import json
import os
import shutil

import common
import c09_sched
import translate_locks

# ------------------------------------------------------------------ model <-> implementation vocabulary

# program counter of the model -> the file-system call the implementation is parked at
LOC_OP = {
    "LMkdir": "mkdir", "LListAll": "glob*", "LListAll2": "glob*", "LExists": "exists", "LScanX": "globx",
    "LScanX2": "globx", "LCreate": "open", "LHeld": "hold", "LHeldNoLock": "hold",
    "LGiveIsdir": "isdir", "LGiveExistsF": "existsf", "LGiveRemove": "remove", "LGiveCount": "walk",
    "LGiveRmdir": "rmdir", "LBackIsdir": "isdir", "LBackExistsF": "existsf", "LBackRemove": "remove",
    "LBackCount": "walk", "LBackRmdir": "rmdir", "LDone": "done", "LFailed": "failed", "LCrashed": "crashed",
}
TERMINAL = c09_sched.TERMINAL


def kinds_of(procs):
    return {p["pid"]: p["kind"] for p in procs}


def roots_of(procs):
    return {p["pid"]: p.get("root") for p in procs}


def model_line(fx, procs, sched):
    ps = ";".join("%d,%s,%s,%d" % (p["pid"], p["kind"], "-" if p.get("root") is None else p["root"],
                                   p.get("ntry", 2)) for p in procs)
    return "\t".join(["trace", "1" if fx else "0", ps, ",".join("%d:%d" % (a, b) for a, b in sched)])


def parse_model(line, procs):
    """-> list of (canonical state string comparable with the implementation, raw state string, oracle ok)"""
    f = line.split("\t")
    if f[0] != "ok":
        raise common.ModelError("model: " + line[:200])
    kinds = kinds_of(procs)
    out = []
    for st in f[1].split(";"):
        d, fs, ps, ok = st.split("|")
        files = sorted(int(x) for x in fs.split(",") if x)
        ops = []
        for e in ps.split(","):
            pid, loc, _i = e.split(":")
            op = LOC_OP[loc] if loc != "LValidate" else ("glob*" if kinds[int(pid)] == "E" else "globx")
            ops.append("%s:%s" % (pid, op))
        canon = "%s|%s|%s" % ("D" if d == "1" else "-", ",".join("%s%d" % (kinds[x], x) for x in files), ",".join(ops))
        out.append((canon, st, ok == "1"))
    return out


def loc_of(raw, pid):
    for e in raw.split("|")[2].split(","):
        f = e.split(":")
        if int(f[0]) == pid:
            return f[1]
    return None


def ops_of(canon):
    return {int(e.split(":")[0]): e.split(":")[1] for e in canon.split("|")[2].split(",")}


# ------------------------------------------------------------------ the property's own oracle (on the implementation)

def related(roots, p, q):
    return roots.get(p) == q or roots.get(q) == p


def mutex_violation(procs, canon):
    """the pair of unrelated simultaneous holders of which one is exclusive, or None"""
    kinds, roots = kinds_of(procs), roots_of(procs)
    holders = [p for p, op in sorted(ops_of(canon).items()) if op == "hold"]
    for i, p in enumerate(holders):
        for q in holders[i + 1:]:
            if not related(roots, p, q) and (kinds[p] == "E" or kinds[q] == "E"):
                return (p, q)
    return None


def residue(canon):
    d, files, _ = canon.split("|")
    return all(op in TERMINAL for op in ops_of(canon).values()) and (d == "D" or files != "")


def window(procs, sched, trace, k, pair):
    """which check-then-act window of takeLocks the violation at trace[k] went through (signature of D10)"""
    kinds = kinds_of(procs)
    p, q = pair
    files = trace[k].split("|")[1].split(",")
    for x in pair:
        if kinds[x] + str(x) not in files:
            return "K3"                 # holds without a lock file: the directory vanished before os.path.exists
    if kinds[p] == "E" and kinds[q] == "E":
        return "K1-siblings"            # both passed the listing of all lockers before either created its file
    try:
        return _window_shared(p if kinds[p] == "S" else q, sched, trace, k)
    except ValueError:
        return "unclassified"


def _window_shared(s, sched, trace, k):
    # the shared requester: when did it pass its scan, when did it create its file?
    t_open = max(j for j in range(1, k + 1) if sched[j - 1][0] == s and ops_of(trace[j - 1])[s] == "open")
    t_scan = max(j for j in range(1, t_open) if sched[j - 1][0] == s and ops_of(trace[j - 1])[s] == "globx")
    if any(trace[j].startswith("-") for j in range(t_scan, t_open)):
        return "K2"                     # the directory was removed (and made again) between scan and create
    return "K1"


# ------------------------------------------------------------------ running cases

def run_impl(cases, chunk=1500):
    out = []
    for i in range(0, len(cases), chunk):
        r = common.in_child(c09_sched.run_cases, cases[i:i + chunk], timeout=600)
        if r[0] != "ok":
            raise RuntimeError("implementation driver failed: %r" % (r,))
        out += r[1]
    return out


def check_cases(ctx, cases, key, validate=True):
    """run implementation and model on the cases, compare step by step, evaluate the oracle.  Returns the
    list of (effective schedule, model states) per case."""
    ires = run_impl(cases)
    lines = [model_line(True, c["procs"], [tuple(x) for x in r["schedule"]]) for c, r in zip(cases, ires)]
    mres = [parse_model(l, c["procs"]) for c, l in zip(cases, ctx.model(lines))]
    redo = []
    results = []
    for idx, (c, r, m) in enumerate(zip(cases, ires, mres)):
        sched = [tuple(x) for x in r["schedule"]]
        trace = r["trace"]
        busy = max(sum(1 for op in ops_of(t).values() if op not in TERMINAL and op != "mkdir") for t in trace)
        ctx.count(1, key=key + "/" + "".join(p["kind"] + ("c" if p.get("root") is not None else "")
                                            for p in c["procs"]),
                  nontrivial=lines[idx] if busy >= 2 else None)
        # which branches of the model this trace exercises (evidence: every arrow validated at least once)
        for k, (pid, _ch) in enumerate(sched):
            if k + 1 < len(m):
                a, b = loc_of(m[k][1], pid), loc_of(m[k + 1][1], pid)
                if a not in ("LDone", "LFailed", "LCrashed"):
                    ctx.bump("arrow/%s->%s" % (a, b))
        # correspondence
        bad = next((k for k in range(len(trace)) if k >= len(m) or m[k][0] != trace[k]), None)
        if bad is None:
            if validate:
                ctx.traces_validated += 1
        else:
            redo.append((idx, bad))
        # the model's own oracle must be true on the repaired model (it is a theorem)
        if any(not ok for _, _, ok in m):
            ctx.proof_problems.append({"theorem": "mutex_okb_reachable",
                                       "what": "extracted model violates its own oracle", "case": c})
        # the property's oracle on the implementation
        for k, t in enumerate(trace):
            pair = mutex_violation(c["procs"], t)
            if pair is not None:
                small = {"mode": "lock", "procs": c["procs"], "schedule": [list(x) for x in sched[:k]], "drain": False}
                w = window(c["procs"], sched, trace, k, pair)
                ctx.fail("mutex", small, expected="no two unrelated holders with an exclusive one",
                         observed={"state": t, "holders": list(pair), "window": w, "step": k},
                         what="processes %d and %d both hold the lock of the stack (window %s)" % (pair[0], pair[1], w))
                break
        if residue(trace[-1]):
            ctx.fail("residue", {"mode": "lock", "procs": c["procs"], "schedule": [list(x) for x in sched],
                                 "drain": False},
                     expected="no lock directory once every process has finished", observed={"state": trace[-1]},
                     what="lock directory left behind")
        results.append((sched, m))
    if redo:
        # does the implementation follow the pinned protocol instead?  (diagnosis only)
        plines = [model_line(False, cases[i]["procs"], [tuple(x) for x in ires[i]["schedule"]]) for i, _ in redo[:200]]
        pres = ctx.model(plines)
        for (i, bad), pl in zip(redo, pres + [None] * len(redo)):
            where = "state %d of the trace" % bad
            if pl is not None:
                pm = parse_model(pl, cases[i]["procs"])
                tr = ires[i]["trace"]
                if all(k < len(pm) and pm[k][0] == tr[k] for k in range(len(tr))):
                    where += "; the implementation agrees with the model of the PINNED protocol on this schedule"
            mm = mres[i][bad][0] if bad < len(mres[i]) else None
            ctx.disagree({"mode": "lock", "procs": cases[i]["procs"], "schedule": ires[i]["schedule"][:bad],
                          "drain": False}, mm, ires[i]["trace"][bad], where=where)
    return results


# ------------------------------------------------------------------ exhaustive exploration, memoised on the model state

def procs2(k1, k2, child=False, ntry=2):
    return [{"pid": 1, "kind": k1, "root": None, "ntry": ntry},
            {"pid": 2, "kind": k2, "root": 1 if child else None, "ntry": ntry}]


def sym_key(raw, procs):
    """state key up to renaming of interchangeable processes (same kind, root and budget, nobody's root): the
    protocol treats pids uniformly, so one representative per orbit is explored"""
    best = raw
    cls = {}
    rooted = {p.get("root") for p in procs}
    for p in procs:
        if p["pid"] not in rooted:
            cls.setdefault((p["kind"], p.get("root"), p.get("ntry", 2)), []).append(p["pid"])
    for group in cls.values():
        if len(group) == 2:
            a, b = group
            sw = {a: b, b: a}
            d, fs, ps, ok = raw.split("|")
            fs2 = ",".join(str(sw.get(int(x), int(x))) for x in fs.split(",") if x)
            ent = {}
            for e in ps.split(","):
                pid, loc, i = e.split(":")
                ent[sw.get(int(pid), int(pid))] = (loc, i)
            ps2 = ",".join("%d:%s:%s" % (pid, ent[pid][0], ent[pid][1]) for pid in sorted(ent))
            best = min(best, "|".join([d, fs2, ps2, ok]))
    return best


def explore(ctx, configs, max_states, deadline=None):
    """Breadth-first over the states of the model, all configurations (label, procs) in lock step; every
    transition found is replayed on the implementation (from the empty stack, along the representative
    schedule of its source state) and compared.  Returns True when every state space was exhausted."""
    inits = ctx.model([model_line(True, procs, []) for _, procs in configs])
    book = []
    for (label, procs), line in zip(configs, inits):
        init = parse_model(line, procs)[0]
        book.append({"label": label, "procs": procs, "frontier": [()], "seen": {sym_key(init[1], procs)}, "last": {(): init},
                     "ntrans": 0, "complete": True})
    import time
    while any(b["frontier"] for b in book):
        cand = []
        for b in book:
            if deadline is not None and time.time() > deadline and len(b["procs"]) > 2 and b["frontier"]:
                b["complete"] = False      # out of time: the three-process space is left to the thorough tier
                b["frontier"] = []
                ctx.notes.append("exhaustive exploration of %s cut short by the time budget" % b["label"])
                continue
            pids = [p["pid"] for p in b["procs"]]
            kinds = kinds_of(b["procs"])
            for pi in b["frontier"]:
                canon, raw, _ = b["last"][pi]
                ops = ops_of(canon)
                nex = sum(1 for x in raw.split("|")[1].split(",") if x and kinds[int(x)] == "E")
                for p in pids:
                    if ops[p] in TERMINAL:
                        continue
                    loc = [e.split(":")[1] for e in raw.split("|")[2].split(",") if int(e.split(":")[0]) == p][0]
                    for ch in (range(nex) if loc == "LScanX2" and nex >= 2 else [0]):
                        cand.append((b, pi + ((p, ch),)))
            b["frontier"] = []
        if not cand:
            break
        cases = [{"mode": "lock", "procs": b["procs"], "schedule": [list(x) for x in pi], "drain": False,
                  "label": b["label"]} for b, pi in cand]
        res = check_cases(ctx, cases, "exhaustive")
        for (b, pi), (sched, m) in zip(cand, res):
            b["ntrans"] += 1
            st = m[-1]
            key = sym_key(st[1], b["procs"])
            if key not in b["seen"]:
                if len(b["seen"]) >= max_states:
                    b["complete"] = False
                    continue
                b["seen"].add(key)
                b["last"][pi] = st
                b["frontier"].append(pi)
    for b in book:
        ctx.extra.setdefault("exhaustive_exploration", {})[b["label"]] = {
            "states": len(b["seen"]), "transitions": b["ntrans"], "complete": b["complete"]}
    return all(b["complete"] for b in book)


# ------------------------------------------------------------------ random schedules of three processes

def gen_random(rng):
    shape = rng.choice(["flat", "flat", "child", "siblings", "chain"])
    kinds = [rng.choice("SE") for _ in range(3)]
    if rng.random() < 0.5 and "E" not in kinds:
        kinds[rng.randrange(3)] = "E"
    roots = {"flat": [None, None, None], "child": [None, 1, None], "siblings": [None, 1, 1],
             "chain": [None, 1, 1]}[shape]
    procs = [{"pid": i + 1, "kind": kinds[i], "root": roots[i], "ntry": rng.choice([1, 2, 2, 3])} for i in range(3)]
    n = rng.choice([8, 14, 20, 30, 45])
    # bursts: a process tends to run a few calls in a row, as real processes do
    sched = []
    while len(sched) < n:
        p = rng.choice([1, 2, 3])
        for _ in range(rng.choice([1, 1, 2, 3, 5])):
            sched.append([p, rng.choice([0, 0, 0, 1, 2])])
    return {"mode": "lock", "procs": procs, "schedule": sched, "drain": True, "shape": shape}


# ------------------------------------------------------------------ which command takes which lock

# independent statement of the two lists (coq/Model/Lock.v has the same ones; compared below): command ->
# an argument vector that selects it and is harmless on an empty scratch stack
MUTATING = {
    "declare": ["declare", "nosuch", "1.0", "-r", "none"],
    "undeclare": ["undeclare", "nosuch", "1.0"],
    "remove": ["remove", "nosuch", "1.0"],
    "admin buildCache": ["admin", "buildCache"],
    "admin clearCache": ["admin", "clearCache"],
    "admin clearServerCache": ["admin", "clearServerCache"],
    "distrib clean": ["distrib", "clean", "nosuch", "1.0"],
    "distrib create": ["distrib", "create", "nosuch", "1.0"],
    "distrib declare": ["distrib", "declare", "nosuch", "1.0"],
    "distrib install": ["distrib", "install", "nosuch", "1.0"],
    "tags --clone": ["tags", "--clone", "old", "new"],
    "tags --delete": ["tags", "--delete", "old"],
}
READERS = {
    "setup": None,
    "list": ["list"],
    "uses": ["uses", "nosuch"],
    "pkg-config": ["pkg-config", "nosuch"],
    "expandbuild": ["expandbuild", "nosuch.build"],
    "expandtable": ["expandtable", "nosuch.table"],
    "admin listCache": ["admin", "listCache"],
    "admin info": ["admin", "info", "nosuch"],
    "distrib list": ["distrib", "list"],
    "tags": ["tags"],
}


def spy_locks(jobs, scratch):
    """Runs in a forked child: dispatch every argv through the real EupsCmd.run / EupsSetup.run with
    lock.takeLocks replaced by a recorder that stops the command at the first real lock request.
    Also returns the registration table as the running module has it."""
    import io
    import sys
    common.import_eups()
    import eups.cmd as C
    import eups.setupcmd as SC
    from eups import lock
    names = {None: None, lock.LOCK_SH: "Sh", lock.LOCK_EX: "Ex"}

    class Stop(BaseException):
        pass
    calls = []

    def fake(cmdName, path, lockType, **kw):
        calls.append([cmdName, names.get(lockType, repr(lockType))])
        if lockType is not None:
            raise Stop()
        return []
    lock.takeLocks = fake
    out = []
    for name, argv in jobs:
        del calls[:]
        err = None
        so, se = sys.stdout, sys.stderr
        sys.stdout = sys.stderr = io.StringIO()
        try:
            try:
                if name == "setup":
                    SC.EupsSetup(args=["nosuch"], toolname="eups_setup").run()
                else:
                    C.EupsCmd(args=list(argv), toolname="eups").run()
            except Stop:
                pass
            except BaseException as e:  # noqa
                err = "%s: %s" % (type(e).__name__, str(e)[:200])
        finally:
            sys.stdout, sys.stderr = so, se
        out.append({"command": name, "argv": argv, "calls": [list(c) for c in calls], "error": err})
    table = {k: names.get(v[1], repr(v[1])) for k, v in C._cmdLookup.items()}
    return {"jobs": out, "table": table}


def check_registration(ctx, rows):
    generated = {name: lk for name, lk, _ in rows}
    scratch = common.scratch_dir("eups-verif-c09r.")
    try:
        os.makedirs(os.path.join(scratch, "stack", "ups_db"))
        os.makedirs(os.path.join(scratch, "ud", "ups_db"))
        env = common.scrubbed_environ({"EUPS_PATH": os.path.join(scratch, "stack"),
                                       "EUPS_USERDATA": os.path.join(scratch, "ud"), "EUPS_FLAVOR": "Linux64",
                                       "HOME": scratch})
        jobs = [[k, v] for k, v in MUTATING.items()] + [[k, v] for k, v in READERS.items()]
        r = common.in_child(spy_locks, jobs, scratch, environ=env, timeout=300)
    finally:
        shutil.rmtree(scratch, ignore_errors=True)
    if r[0] != "ok":
        raise RuntimeError("registration driver failed: %r" % (r,))
    res = r[1]
    # the generated table against the table of the running module (entries NAME --OPT are checked through the spy)
    static = {k: v for k, v in generated.items() if " --" not in k and k != "setup"}
    if static != res["table"]:
        ctx.disagree({"mode": "registration-table"}, static, res["table"], where="Generated/Locks.v vs cmd._cmdLookup")
    for j in res["jobs"]:
        name = j["command"]
        want = "Ex" if name in MUTATING else "Sh"
        real = [c for c in j["calls"] if c[1] is not None]
        got = real[0][1] if real else None
        case = {"mode": "registration", "command": name, "argv": j["argv"]}
        ctx.count(1, key="registration/" + want, nontrivial="registration:" + name)
        if generated.get(name, "absent") != got:
            ctx.disagree(case, generated.get(name, "absent"), got, where="lock type in Generated/Locks.v vs spied takeLocks")
        if got != want:
            ctx.fail("updater-not-exclusive" if want == "Ex" else "reader-not-shared", case, expected=want,
                     observed={"takeLocks_calls": j["calls"], "error": j["error"]},
                     what="eups %s takes %s lock" % (" ".join(j["argv"] or ["setup"]),
                                                     {"Sh": "a shared", "Ex": "an exclusive", None: "no"}[got]))
    return res


def coq_lists():
    """the two command lists as written in coq/Model/Lock.v (to keep the harness copy honest)"""
    import re
    src = open(os.path.join(common.COQ, "Model", "Lock.v")).read()
    out = {}
    for nm in ("mutating_commands", "reader_commands"):
        m = re.search(r"Definition %s : list string :=\s*\[(.*?)\]%%string" % nm, src, re.S)
        out[nm] = re.findall(r'"([^"]*)"', m.group(1)) if m else None
    return out


# ------------------------------------------------------------------ matchers for findings (used only if listed open)

def m_k_windows(f):
    return f["kind"] == "mutex" and (f.get("observed") or {}).get("window") in ("K1", "K2", "K3", "K1-siblings")


def m_tags_option_shared(f):
    return f["kind"] == "updater-not-exclusive" and f["input"].get("command") in ("tags --clone", "tags --delete")


# ------------------------------------------------------------------ entry points

def corpus_cases():
    d = os.path.join(common.ROOT, "corpus", "C09")
    out = []
    if os.path.isdir(d):
        for f in sorted(os.listdir(d)):
            if f.endswith(".json"):
                out.append(json.load(open(os.path.join(d, f)))["input"])
    return out


def setup_ctx(ctx):
    ctx.matchers["c09.k_windows"] = m_k_windows
    ctx.matchers["c09.tags_option_shared"] = m_tags_option_shared
    ctx.rule = ("lock protocol: every interleaving of the file-system calls of two processes (kinds SS SE ES EE, and "
                "the four parent/child combinations with the child inheriting EUPS_LOCK_PID), retry budget 2, explored "
                "breadth-first and memoised on the model state, every transition replayed on the real lock.py; plus "
                "random burst schedules of three processes (flat, child, siblings; budgets 1-3; random directory "
                "order) run to completion.  A schedule is non-trivial when at some point two processes are inside "
                "takeLocks/giveLocks at once; distinct = distinct (configuration, schedule).  Registration: every "
                "command of the two lists dispatched through the real EupsCmd.run with takeLocks spied.")
    ctx.trusted_base = common.COMMON_TRUSTED + [
        "modelled, not verified: POSIX atomicity of mkdir, open(O_CREAT|O_EXCL), unlink, rmdir (fails on a non-empty "
        "directory); a directory listing returns the entries present at the instant of the call",
        "harness/c09_sched.py: the proxies that stand in for os, glob and time inside eups.lock (one scheduling point "
        "per file-system call; directory listings presented in creation order rotated by the choice)",
        "harness/translate_locks.py: python ast -> coq/Generated/Locks.v, fail-closed; cross-checked every run against "
        "the running cmd module and the spied takeLocks calls",
    ]
    ctx.assumptions = [
        "one stack, one takeLocks followed by one giveLocks per process, ntry >= 1",
        "only EEXIST failures of mkdir are modelled (EACCES / read-only stacks, for which takeLocks deliberately "
        "proceeds unlocked, are outside the property)",
        "signals, atexit handlers, hooks.config.site.lockDirectoryBase relocation, NFS and pid reuse are not modelled",
        "processes die only by the exceptions of the protocol itself, never between two calls (a killed process "
        "leaves its lock file; eups admin clearLocks is the remedy the code base provides)",
    ]


def run(ctx):
    import time
    setup_ctx(ctx)
    t0 = [time.time()]
    phases = ctx.extra.setdefault("phase_seconds", {})

    def lap(name):
        phases[name] = round(time.time() - t0[0], 1)
        t0[0] = time.time()
    # 1. regenerate the lock table, then re-check the theorems
    rows = None
    try:
        rows = translate_locks.generate()
        ctx.extra["lock_table"] = {name: lk for name, lk, _ in rows}
    except translate_locks.TranslationError as e:
        ctx.proof_problems.append({"theorem": "updaters_exclusive", "what": "translator refused cmd.py/setupcmd.py: %s" % e})
    ctx.check_theorems()
    if ctx.tier == "thorough":
        ctx.coqchk(["Eupsv.Props.C09"])
    lists = coq_lists()
    if lists["mutating_commands"] != list(MUTATING) or lists["reader_commands"] != list(READERS):
        ctx.proof_problems.append({"theorem": "updaters_exclusive",
                                   "what": "command lists of Model/Lock.v and harness/c09.py differ", "coq": lists})
    lap("theorems")
    # 2. registration
    if rows is not None:
        check_registration(ctx, rows)
    lap("registration")
    # 3. corpus
    corpus = [c for c in corpus_cases() if c.get("mode", "lock") == "lock"]
    if corpus:
        check_cases(ctx, corpus, "corpus")
        for c in corpus[:2]:
            ctx.sample(c)
    lap("corpus")
    # 4. exhaustive two-process exploration
    cap = ctx.size(20000, 400000)
    configs = []
    for k1 in "SE":
        for k2 in "SE":
            configs.append((k1 + k2, procs2(k1, k2)))
            configs.append((k1 + k2 + "-child", procs2(k1, k2, child=True)))
    # three processes, one attempt each: the smallest setting in which a process can come and go while another
    # is parked between two of its calls (windows K2 and K3 need a third party)
    configs.append(("SEE-ntry1", [{"pid": i + 1, "kind": k, "root": None, "ntry": 1} for i, k in enumerate("SEE")]))
    if ctx.tier == "thorough":
        for ks in ("SSE", "SSS", "EEE"):
            configs.append((ks + "-ntry1", [{"pid": i + 1, "kind": k, "root": None, "ntry": 1} for i, k in enumerate(ks)]))
        configs.append(("E+siblings-ES-ntry1",
                        [{"pid": 1, "kind": "E", "root": None, "ntry": 1}, {"pid": 2, "kind": "E", "root": 1, "ntry": 1},
                         {"pid": 3, "kind": "S", "root": 1, "ntry": 1}]))
    complete = explore(ctx, configs, cap, deadline=(ctx.t0 + 75) if ctx.tier == "quick" else None)
    ctx.exhaustive = complete
    lap("exhaustive")
    # 5. random three-process schedules
    n = ctx.size(2000, 15000)
    cases = [gen_random(ctx.rng) for _ in range(n)]
    ctx.sample(cases[0])
    check_cases(ctx, cases, "random3")
    lap("random3")


def replay(ctx, path):
    setup_ctx(ctx)
    obj = json.load(open(path))
    c = obj["input"]
    if c.get("mode") in ("registration", "registration-table"):
        rows = translate_locks.generate()
        check_registration(ctx, rows)
        ctx.failures = [f for f in ctx.failures if f["input"].get("command") == c.get("command")]
    else:
        check_cases(ctx, [c], "replay")
        for f in ctx.failures:
            print("  %s: %s  %s" % (f["kind"], f["what"], json.dumps(f["observed"])))
    bad = [f for f in ctx.failures if not ctx._known(f)] or ctx.disagreements
    for d in ctx.disagreements[:3]:
        print("  disagreement at %s: model %s, implementation %s" % (d["where"], d["model"], d["impl"]))
    print("replay %s: %s" % (path, "still fails" if bad else "passes"))
    return 1 if bad else 0
