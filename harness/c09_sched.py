"""C09 - deterministic scheduling of the real, unmodified eups/lock.py.

The module globals lock.os, lock.glob and lock.time are replaced by proxies.  Every file-system call that
lock.py makes (mkdir, glob, exists, isdir, open, remove, walk, rmdir) first parks the calling logical process
until the scheduler grants it one step, then is performed on a real scratch directory.  Logical processes are
threads with their own getpid() and environ; exactly one thread runs at a time, so a schedule is a list of
(pid, choice) and the run is deterministic.  `choice` fixes the (arbitrary) order in which the directory is
listed: glob results are presented in creation order, newest first, the entries that have the form of a lock-file
name rotated left by choice mod their number, the other entries after them.

Every logical process also has its own login name (utils.getUserName is replaced by a function that answers for
the calling logical process), and the lock directories may hold foreign entries before anybody runs.

Everything here runs inside a forked child (common.in_child): signal.signal and atexit.register are
neutralised globally there.
"""
import errno
import os
import re
import shutil
import threading

KIND_NAME = {"E": "exclusive", "S": "shared"}
DEFAULT_USER = "eups"
# the form of a lock-file name, as documented in lock.py: <type>-<user>.<pid>
NAME_RE = re.compile(r"^(exclusive|shared)-(.+)\.(\d+)$")


def lock_file_name(p):
    """the name of the lock file of a process given as a dict of the case"""
    return "%s-%s.%d" % (KIND_NAME[p["kind"]], p.get("user", DEFAULT_USER), p["pid"])
TERMINAL = ("done", "failed", "crashed")


class _Abort(BaseException):
    pass


class LProc(object):
    def __init__(self, world, pid, kind, root, ntry, path=(0,), user=DEFAULT_USER):
        self.world = world
        self.pid = pid
        self.user = user
        self.kind = kind
        self.root = root
        self.ntry = ntry
        self.path = list(path)       # indices of the stacks this process locks, in order (its EUPS_PATH)
        self.environ = {}
        if root is not None:
            self.environ["EUPS_LOCK_PID"] = "%d" % root
        self.go = threading.Lock()       # used as a binary semaphore: released by the scheduler, acquired here
        self.go.acquire()
        self.op = "start"            # next file-system call (or hold / done / failed / crashed)
        self.parked_stutter = False  # parked at a call of getLockPath (invisible: shown as the mkdir it precedes)
        self.completed_stutter = False
        self.detail = ""
        self.choice = 0
        self.thread = threading.Thread(target=self._main, daemon=True)
        self.thread.lproc = self

    # -- runs in the logical process
    def _main(self):
        w = self.world
        try:
            lt = w.lock.LOCK_EX if self.kind == "E" else w.lock.LOCK_SH
            locks = w.lock.takeLocks("verif", [w.stacks[k] for k in self.path], lt, ntry=self.ntry, verbose=0)
            self.park("hold")        # between the return of takeLocks and the call of giveLocks
            w.lock.giveLocks(locks, 0)
            self.op = "done"
            self.completed_stutter, self.parked_stutter = self.parked_stutter, False
        except _Abort:
            self.op = "aborted"
            w.back.release()
            return
        except RuntimeError as e:
            self.op, self.detail = "failed", str(e)[:200]
            self.completed_stutter, self.parked_stutter = self.parked_stutter, False
        except BaseException as e:  # noqa
            self.op, self.detail = "crashed", "%s: %s" % (type(e).__name__, str(e)[:200])
            self.completed_stutter, self.parked_stutter = self.parked_stutter, False
        w.handover(self, finished=True)

    def park(self, op, stutter=False):
        """announce the next call, pass the baton as the schedule says, return when it is our turn.
        stutter: the call belongs to getLockPath(d, create=True) (look at / make the directory the lock directory
        will be made in); it is a step of the schedule, but the process is shown as being at the mkdir that follows"""
        w = self.world
        if w.abort:                  # being torn down (giveLocks called while unwinding): do nothing more
            raise _Abort()
        self.op = op
        self.completed_stutter, self.parked_stutter = self.parked_stutter, stutter
        if w.running:
            w.handover(self)
        else:                        # start-up: run to the first call, then wait for the schedule to begin
            w.back.release()
            self.go.acquire()
            if w.abort:
                raise _Abort()


def _me():
    return threading.current_thread().lproc


class _PathProxy(object):
    def __init__(self, world):
        self._w = world
    join = staticmethod(os.path.join)
    split = staticmethod(os.path.split)
    isabs = staticmethod(os.path.isabs)

    def exists(self, p):
        if p in self._w.parents:     # getLockPath(d, create=True) under lockDirectoryBase: is <base>/<stack> there?
            _me().park("mkdir" + self._w.at(p), stutter=True)
        else:
            _me().park(("exists" if p in self._w.lockdirs else "existsf") + self._w.at(p))
        return os.path.exists(p)

    def isdir(self, p):
        _me().park("isdir" + self._w.at(p))
        return os.path.isdir(p)


class _OsProxy(object):
    """stands in for the module `os` inside eups.lock; anything not listed here is an error (fail closed)"""
    O_EXCL, O_RDWR, O_CREAT = os.O_EXCL, os.O_RDWR, os.O_CREAT

    def __init__(self, world):
        self._w = world
        self.path = _PathProxy(world)

    def __getattr__(self, name):
        raise AttributeError("eups.lock uses os.%s, which the C09 scheduler does not model" % name)

    @property
    def environ(self):
        return _me().environ

    def getpid(self):
        return _me().pid

    def putenv(self, k, v):
        pass

    def close(self, fd):
        os.close(fd)

    def mkdir(self, p):
        _me().park("mkdir" + self._w.at(p))
        os.mkdir(p)

    def open(self, p, flags):
        _me().park("open" + self._w.at(p))
        fd = os.open(p, flags)
        self._w.seq += 1
        self._w.created[p] = self._w.seq
        return fd

    def remove(self, p):
        _me().park("remove" + self._w.at(p))
        os.remove(p)

    def rmdir(self, p):
        _me().park("rmdir" + self._w.at(p))
        os.rmdir(p)

    def makedirs(self, p, mode=0o777, exist_ok=False):
        # (one step; the real call makes the missing components one by one)
        _me().park("mkdir" + self._w.at(p), stutter=True)
        os.makedirs(p, mode, exist_ok)

    def removedirs(self, p):
        # as os.removedirs: remove the directory, then its parents, leaf first, up to the first that will not go;
        # one scheduling point per rmdir
        self.rmdir(p)
        head, tail = os.path.split(p)
        if not tail:
            head, tail = os.path.split(head)
        while head and tail:
            _me().park("rmdir-parent" + self._w.at(head))
            try:
                os.rmdir(head)
            except OSError:
                break
            head, tail = os.path.split(head)

    def walk(self, p):
        _me().park("walk" + self._w.at(p))
        return os.walk(p)


class _GlobProxy(object):
    def __init__(self, world):
        self._w = world

    def glob(self, pattern):
        import glob as real
        me = _me()
        base = os.path.basename(pattern)
        me.park(("glob*" if base == "*" else "globx" if base == "exclusive*" else "glob?" + base) + self._w.at(pattern))
        res = real.glob(pattern)
        res.sort(key=lambda f: (-self._w.created.get(f, 0), f))  # creation order, newest first
        good = [f for f in res if NAME_RE.match(os.path.basename(f))]
        rest = [f for f in res if not NAME_RE.match(os.path.basename(f))]
        if good:
            k = me.choice % len(good)
            good = good[k:] + good[:k]
        return good + rest


class _TimeProxy(object):
    def sleep(self, dt):
        pass


class World(object):
    """one scratch stack and the logical processes contending for its lock"""

    def __init__(self, lockmod, base):
        self.lock = lockmod
        self.hooks = lockmod.hooks
        self.base = base
        self.lockbase = os.path.join(base, "locks")      # hooks.config.site.lockDirectoryBase of the `based` cases
        self.set_stacks(1)
        self.back = threading.Lock()     # binary semaphore the other way round (hand-offs strictly alternate)
        self.back.acquire()
        self.abort = False
        self.running = False
        self.seq = 0
        self.created = {}
        self.procs = {}

    def set_stacks(self, n, based=False):
        self.stacks = [os.path.join(self.base, "stack" if k == 0 else "stack%d" % k) for k in range(n)]
        if based:
            # the site keeps its locks under a directory of their own: <base>/<path of the stack>/.lockDir
            self.hooks.config.site.lockDirectoryBase = self.lockbase
            self.parents = [os.path.join(self.lockbase, d[1:]) for d in self.stacks]
        else:
            self.hooks.config.site.lockDirectoryBase = self.hooks._defaultLockDirectoryBase
            self.parents = []
        self.lockdirs = [os.path.join(d, self.lock._lockDir) for d in (self.parents or self.stacks)]

    def at(self, path):
        """suffix naming the stack a path lies in: nothing for stack 0, @k for stack k"""
        for k, d in enumerate(self.lockdirs):
            if path == d or path.startswith(d + os.sep):
                return "" if k == 0 else "@%d" % k
        for k, d in enumerate(self.parents):     # <lockDirectoryBase>/<stack> or a directory above it
            if (d == path or d.startswith(path + os.sep)) and (path + os.sep).startswith(self.base + os.sep):
                return "" if k == 0 else "@%d" % k
        raise AssertionError("eups.lock touches %s, outside every lock directory" % path)

    def install(self):
        self.lock.os = _OsProxy(self)
        self.lock.glob = _GlobProxy(self)
        self.lock.time = _TimeProxy()

    def reset(self, procs, nstacks=1, junk=(), based=False):
        if os.path.isdir(self.lockbase):
            shutil.rmtree(self.lockbase)
        self.set_stacks(nstacks, based)
        for d, ld in zip(self.stacks, self.lockdirs):
            if os.path.isdir(ld):
                shutil.rmtree(ld)
            if not os.path.isdir(d):
                os.makedirs(d)
        self.abort = False
        self.running = False
        self.seq = 0
        self.created = {}
        self.procs = {}
        # foreign entries that lie in the lock directories before anybody runs (older than every lock file, in
        # the order given)
        for k, names in enumerate(junk):
            if names and k < len(self.lockdirs):
                os.makedirs(self.lockdirs[k])
                for i, nm in enumerate(names):
                    f = os.path.join(self.lockdirs[k], nm)
                    open(f, "w").close()
                    self.created[f] = -i
        for p in procs:
            lp = LProc(self, p["pid"], p["kind"], p.get("root"), p.get("ntry", 2), p.get("path") or [0],
                       p.get("user", DEFAULT_USER))
            self.procs[lp.pid] = lp
        for pid in sorted(self.procs):
            self.procs[pid].thread.start()
            self.back.acquire()         # runs until its first file-system call

    # -- the baton: exactly one thread runs at any time.  The thread that has just finished a step records the
    # state, looks up who is next in the schedule and wakes it directly (one thread switch per change of process,
    # none when the same process goes on); the main thread sleeps until the schedule is exhausted.
    def run_schedule(self, sched, drain=False, drain_limit=400):
        self.sched = [tuple(x) for x in sched]
        self.k = 0
        self.eff = []
        self.stut = []
        self.trace = [self.observe()]
        self.drain = drain
        self.ndrain = 0
        self.drain_limit = drain_limit
        self.rr = -1
        self.order = sorted(self.procs)
        self.running = True
        self.handover(None)
        self.running = False
        return self.eff, self.trace

    def _next(self):
        while True:
            if self.k < len(self.sched):
                pid, ch = self.sched[self.k]
                self.k += 1
            elif self.drain and self.ndrain < self.drain_limit:
                # round robin over the processes that have not finished, in pid order
                live = [i for i, pid in enumerate(self.order) if self.procs[pid].op not in TERMINAL]
                if not live:
                    return None
                later = [i for i in live if i > self.rr]
                self.rr = later[0] if later else live[0]
                pid, ch = self.order[self.rr], 0
                self.ndrain += 1
            else:
                return None
            self.eff.append([pid, ch])
            lp = self.procs[pid]
            if lp.op in TERMINAL:
                self.trace.append(self.trace[-1])        # a finished process does nothing
                self.stut.append(False)
                continue
            return lp, ch

    def handover(self, me, finished=False):
        if me is not None:
            self.trace.append(self.observe())            # the step of `me` is complete
            self.stut.append(bool(me.completed_stutter))
        nx = self._next()
        if nx is None:
            if me is None:
                return
            self.back.release()                          # end of the schedule: wake the main thread
        else:
            lp, ch = nx
            lp.choice = ch
            if lp is me:
                return
            lp.go.release()
            if me is None:
                self.back.acquire()                      # main thread: sleep until the end of the schedule
                return
        if finished:
            return
        me.go.acquire()
        if self.abort:
            raise _Abort()

    def observe(self):
        """D or - per stack | names in the lock directory per stack, percent-encoded and sorted (stacks separated
        by /) | pid:next call (with @k for stack k > 0)"""
        import common
        ds, fl = [], []
        for ld in self.lockdirs:
            files = []
            d = os.path.isdir(ld)
            if d:
                files = sorted(common.enc(os.fsencode(f)) for f in os.listdir(ld))
            ds.append("D" if d else "-")
            fl.append(",".join(files))
        return "%s|%s|%s" % ("".join(ds), "/".join(fl),
                             ",".join("%d:%s" % (pid, self.procs[pid].op) for pid in sorted(self.procs)))

    def finished(self):
        return all(lp.op in TERMINAL for lp in self.procs.values())

    def teardown(self):
        self.abort = True
        for lp in self.procs.values():
            if lp.op not in TERMINAL:
                lp.go.release()
                self.back.acquire()
        for lp in self.procs.values():
            lp.thread.join(5)


def norm_schedule(sched):
    return [(x, 0) if isinstance(x, int) else (int(x[0]), int(x[1])) for x in sched]


def run_cases(cases, drain_limit=400):
    """Runs in a forked child.  For every case {"procs": [...], "schedule": [...], "drain": bool} returns
    {"schedule": effective schedule (with the drain steps), "trace": [state before the first step, state after
    each step], "detail": {pid: message of the exception that ended it}}."""
    import atexit
    import signal
    import common
    common.import_eups()
    from eups import lock, utils
    atexit.register = lambda *a, **k: None
    signal.signal = lambda *a, **k: None
    devnull = open(os.devnull, "w")
    utils.stdinfo = utils.stdwarn = utils.stderr = devnull
    utils.getUserName = lambda full=False: _me().user      # what getpwuid would tell the calling logical process
    base = common.scratch_dir("eups-verif-c09.")
    out = []
    try:
        w = World(lock, base)
        w.install()
        for c in cases:
            w.reset(c["procs"], int(c.get("stacks", 1)), c.get("junk") or (), bool(c.get("based")))
            eff, trace = w.run_schedule(norm_schedule(c["schedule"]), bool(c.get("drain")), drain_limit)
            detail = {str(pid): lp.detail for pid, lp in w.procs.items() if lp.detail}
            w.teardown()
            out.append({"schedule": eff, "trace": trace, "detail": detail, "stutter": list(w.stut)})
    finally:
        shutil.rmtree(base, ignore_errors=True)
    return out
