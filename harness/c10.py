"""C10 - version names are ordered consistently.

Model: coq/Model/VersionCompare.v (code) + coq/Model/VersionKey.v (recogniser, key, key order)
Theorems: coq/Props/C10.v
Implementation: hooks.version_cmp(a, b), hooks.version_cmp(a, b, False), Eups.version_match,
Eups._selectPreferredProduct(products, ["latest"]) and a plain sort with the comparator; the tag latest over
real stacks on EUPS_PATH (Eups._findLatestProduct and its public entrances, see harness/c10stacks.py; model
coq/Model/VersionStacks.v).

Streams
  small   every pair of a small conventional grammar (660 names), both modes: correspondence, the
          key-order oracle on every pair, and transitivity/totality/antisymmetry of the whole matrix
          (checked through a ranking, which is equivalent to checking every triple)
  big     sampled pairs and triples of the design's bounded grammar (28 260 names)
  random  pairs of arbitrary strings over [A-Za-z0-9._+-] biased to the branches of _splitVersion
  match   relational expressions over conventional names (and a malformed share)
  latest  lists of conventional names
  stacks  real stacks on EUPS_PATH (1-4 stacks, versions spread over them, the maximum in any of them, with and
          without a minimum version), the tag latest asked through every entrance, with the product cache and
          from the database files (harness/c10stacks.py, model coq/Model/VersionStacks.v)
"""
import functools
import json
import os
import re

import common
import c10stacks
from common import enc

# ------------------------------------------------------------------ the property's own statement

_PART = r"([A-Za-z]*)(\d+(?:[._]\d+)*)"
_CONV = re.compile(r"%s(?:-%s)?(?:\+%s)?" % (_PART, _PART, _PART))
_ALPHA = re.compile(r"[A-Za-z0-9._+-]*")
_THREE = re.compile(r"[A-Za-z0-9._]+(-[A-Za-z0-9._]+)?(\+[A-Za-z0-9._]+)?")


def pykey(v):
    """order key of a conventional name, None for any other text: (letters, numbers), then the
    pre-release part (present sorts before absent), then the post-release part (absent sorts first)"""
    m = _CONV.fullmatch(v)
    if not m:
        return None
    l, b, sl, sb, tl, tb = m.groups()
    for x in (l, sl, tl):
        if x and x[-1] in "mp":          # 1.2m1 / 1.2p1 is the other spelling of 1.2-1 / 1.2+1
            return None

    def pk(letters, body):
        return (letters, [int(x) for x in re.split(r"[._]", body)])
    return (pk(l, b), (0, pk(sl, sb)) if sb is not None else (1,), (1, pk(tl, tb)) if tb is not None else (0,))


def sign(x):
    return (x > 0) - (x < 0)


def keycmp(a, b):
    ka, kb = pykey(a), pykey(b)
    return (ka > kb) - (ka < kb)


def prefix(v):
    return pykey(v)[0][0]


def wellformed(v):
    """names on which the comparison must not crash: over the alphabet, not starting with a sign, and
    either free of plus signs or of the three-part shape"""
    if not _ALPHA.fullmatch(v) or v[:1] in ("-", "+"):
        return False
    return "+" not in v or bool(_THREE.fullmatch(v))


REL = {"<": lambda c: c < 0, "<=": lambda c: c <= 0, "==": lambda c: c == 0,
       ">=": lambda c: c >= 0, ">": lambda c: c > 0, None: lambda c: c == 0}

# ------------------------------------------------------------------ generators


def comps_names(values, maxn, seps):
    out = []

    def rec(cur, n):
        out.append(cur)
        if n < maxn:
            for s in seps:
                for v in values:
                    rec(cur + s + v, n + 1)
    for v in values:
        rec(v, 1)
    return out


def grammar(values, maxn, prefixes, secs, ters):
    bodies = comps_names(values, maxn, "._")
    return [p + b + (("-" + s) if s else "") + (("+" + t) if t else "")
            for p in prefixes for b in bodies for s in secs for t in ters]


def small_grammar():
    return grammar(["0", "1", "2", "10", "01"], 2, ["", "v"], ["", "rc1", "1"], ["", "1"])


def big_grammar():
    return grammar(["0", "1", "2", "9", "10", "01"], 3, ["", "v"], ["", "rc1", "rc2", "1", "1.1"], ["", "1", "a1"])


_RAND_ALPHA = "abmpvrcAZ0123901._+-"
_RAND_TAILS = ["", "1", "m2", "p3", "-1", "+a", "_0", ".0", "0", "-rc1", "+1", "m", "p", "-", "+", "-1-2", ".", "a"]


def gen_random_pair(rng):
    def s():
        return "".join(rng.choice(_RAND_ALPHA) for _ in range(rng.choice([0, 1, 2, 3, 3, 4, 5, 6, 8])))
    a = s()
    r = rng.random()
    if r < 0.35:
        b = a[:rng.randint(0, len(a))] + rng.choice(_RAND_TAILS)
    elif r < 0.45:
        b = a.replace(".", "_") if "." in a else a.replace("_", ".")
    else:
        b = s()
    if rng.random() < 0.5:
        a, b = b, a
    return a, b


def gen_expr(rng, names, byprefix):
    v = rng.choice(names)
    same = byprefix[prefix(v)]
    k = rng.choice([1, 1, 2, 2, 3])
    alts = []
    for _ in range(k):
        w = rng.choice(same) if rng.random() < 0.9 else rng.choice(names)
        alts.append((rng.choice([None, "<", "<=", "==", ">=", ">", ">=", "<"]), w))
    r = rng.random()
    shape = "plain"
    if r < 0.55:
        text = " || ".join((op + " " + w) if op else w for op, w in alts)
    elif r < 0.85:
        shape = "spacing"
        parts = []
        for op, w in alts:
            sp = rng.choice(["", " ", "  "])
            parts.append((rng.choice(["", " "]) + op + sp + w) if op else w)
        text = rng.choice(["||", " || ", " ||", "|| "]).join(parts) + rng.choice(["", " "])
    else:
        shape = "malformed"
        toks = []
        for op, w in alts:
            toks += ([op] if op else []) + [w]
            toks.append(rng.choice(["||", "or", "&&", "and", "", "=", "|", "||"]))
        if rng.random() < 0.5:
            toks.pop()
        if rng.random() < 0.2:
            toks.append(rng.choice(["<", ">=", "=="]))
        text = " ".join(t for t in toks if t != "")
        alts = None
    return {"kind": "match", "v": v, "expr": text, "alts": alts, "shape": shape}


# ------------------------------------------------------------------ implementation (runs in a forked child)

def _code(f):
    try:
        return sign(f())
    except ValueError:
        return "U"
    except Exception:  # noqa
        return "C"


def impl_batch(job):
    import io
    eups = common.import_eups()
    from eups import hooks, utils, tags
    cmpf = hooks.version_cmp
    out = {}
    if "matrix" in job:
        names = job["matrix"]
        out["matrix_int"] = [[_code(lambda: cmpf(a, b)) for b in names] for a in names]
        out["matrix_strict"] = [[_code(lambda: cmpf(a, b, False)) for b in names] for a in names]
    if "pairs" in job:
        res = []
        for a, b in job["pairs"]:
            res.append([_code(lambda: cmpf(a, b)), _code(lambda: cmpf(a, b, False)),
                        _code(lambda: cmpf(b, a)), _code(lambda: cmpf(b, a, False)),
                        _code(lambda: cmpf(a, a)), _code(lambda: cmpf(a, a, False))])
        out["pairs"] = res

    class Stub(eups.Eups):
        def __init__(self):
            self.version_cmp = hooks.version_cmp
            self.verbose = 0
            self.tags = tags.Tags()
            self.tags.registerTag("latest")

    class Prod(object):
        def __init__(self, v):
            self.name = "p"
            self.version = v
    stub = Stub()
    if "matches" in job:
        res = []
        utils.stdwarn = io.StringIO()
        for v, e in job["matches"]:
            try:
                r = stub.version_match(v, e)
                res.append(1 if (r is not None and r is not False) else 0)
            except Exception:  # noqa
                res.append("C")
        out["matches"] = res
    if "latests" in job:
        res = []
        for names in job["latests"]:
            try:
                p = eups.Eups._selectPreferredProduct(stub, [Prod(v) for v in names], ["latest"])
                s = sorted(names, key=functools.cmp_to_key(cmpf))
                res.append([p.version if p is not None else None, s[-1] if s else None])
            except Exception as e:  # noqa
                res.append(["C:" + type(e).__name__, None])
        out["latests"] = res
    return out


def run_impl(job):
    r = common.in_child(impl_batch, job, timeout=3000)
    if r[0] != "ok":
        raise RuntimeError("implementation driver failed: %r" % (r,))
    return r[1]


# ------------------------------------------------------------------ model

_M = {"lt": -1, "eq": 0, "gt": 1, "err:Unsortable": "U", "err:Crash": "C", "err:Undefined": "?", "err:OutOfFuel": "F"}


def model_cmp(ctx, pairs, op="cmp"):
    """[(int-mode code, strict code, branch)] with the codes of the implementation side; '?' = not modelled"""
    lines = ["%s\t%s\t%s" % (op, enc(a), enc(b)) for a, b in pairs]
    out = []
    for ln in ctx.model(lines):
        f = ln.replace("Model.", "").split("\t")
        out.append((_M.get(f[0], f[0]), _M.get(f[1], f[1]), f[2] if len(f) > 2 else "?"))
    return out


def model_keys(ctx, names):
    """name -> parsed key from the Coq side (None when conv is false)"""
    res = {}
    for v, ln in zip(names, ctx.model(["key\t" + enc(v) for v in names])):
        f = ln.split("\t")
        if f[0] != "conv":
            res[v] = None
            continue

        def pk(s):
            l, _, ns = s.partition(":")
            return (common.dec(l), [int(x) for x in ns.split(".")])
        res[v] = (pk(f[1]), (0, pk(f[2])) if f[2] != "-" else (1,), (1, pk(f[3])) if f[3] != "-" else (0,))
    return res


# ------------------------------------------------------------------ checks

def check_keys(ctx, names):
    """the harness's key and recogniser against the Coq definitions (keeps the oracle and the theorems in step)"""
    mk = model_keys(ctx, names)
    for v in names:
        if mk[v] != pykey(v):
            ctx.disagree({"kind": "key", "v": v}, mk[v], pykey(v), where="spec: key/conv of the Coq side vs the harness")


def check_accepts(ctx, names):
    """the harness's well-formed names must lie inside the domain `accepts` of the theorems"""
    for v, ln in zip(names, ctx.model(["accepts\t" + enc(v) for v in names])):
        if wellformed(v) and ln != "1":
            ctx.disagree({"kind": "accepts", "v": v}, ln, "wellformed", where="spec: wellformed name outside accepts")
        ctx.bump("name/" + ("wellformed" if wellformed(v) else "accepted-only" if ln == "1" else "outside-accepts"))


def check_pair(ctx, a, b, m_ab, m_ba, i, stream):
    """i = [int ab, strict ab, int ba, strict ba, int aa, strict aa] from the implementation"""
    case = {"kind": "pair", "a": a, "b": b}
    ctx.count(1, key="%s/%s" % (stream, m_ab[2]), nontrivial=(a + "|" + b) if a != b else None)
    # correspondence
    if "?" in (m_ab[0], m_ab[1]):
        ctx.bump("not-modelled")
    elif (m_ab[0], m_ab[1]) != (i[0], i[1]):
        ctx.disagree(case, list(m_ab[:2]), i[:2], where="version_cmp / strict")
    if m_ba is not None:
        if "?" in (m_ba[0], m_ba[1]):
            ctx.bump("not-modelled")
        elif (m_ba[0], m_ba[1]) != (i[2], i[3]):
            ctx.disagree({"kind": "pair", "a": b, "b": a}, list(m_ba[:2]), i[2:4], where="version_cmp / strict")
    # the property on the implementation's outputs
    if wellformed(a) and wellformed(b):
        if "C" in i[:6]:
            ctx.fail("crash-on-wellformed", case, expected="a comparison result", observed=i,
                     what="comparing two well-formed names raised an exception other than ValueError")
            return
        if i[4] != 0 or i[5] != 0:
            ctx.fail("reflexivity", {"kind": "pair", "a": a, "b": a}, expected=[0, 0], observed=i[4:6],
                     what="%r does not compare equal to itself" % a)
        if i[0] == "U" or i[2] == "U" or i[0] != -i[2]:
            ctx.fail("antisymmetry", case, expected="cmp(b,a) = -cmp(a,b)", observed=[i[0], i[2]],
                     what="sorting mode: cmp(%r,%r)=%s but cmp(%r,%r)=%s" % (a, b, i[0], b, a, i[2]))
        if (i[1] == "U") != (i[3] == "U") or (i[1] != "U" and i[1] != -i[3]):
            ctx.fail("antisymmetry", case, expected="strict cmp(b,a) = -cmp(a,b), unsortable both ways or neither",
                     observed=[i[1], i[3]], what="strict mode is not antisymmetric on %r, %r" % (a, b))
    ka, kb = pykey(a), pykey(b)
    if ka is not None and kb is not None:
        exp = (ka > kb) - (ka < kb)
        if i[0] != exp:
            ctx.fail("key-order", case, expected=exp, observed=i[0],
                     what="conventional names %r, %r: cmp gives %s, the order of the keys %r, %r gives %s" %
                     (a, b, i[0], ka, kb, exp))
        if ka[0][0] == kb[0][0] and i[1] != exp:
            ctx.fail("key-order", case, expected=exp, observed=i[1],
                     what="conventional names %r, %r with a common prefix: strict cmp gives %s, the key order %s" %
                     (a, b, i[1], exp))


def check_triple(ctx, names, c):
    """c[(x,y)] = sorting-mode code from the implementation for the six ordered pairs"""
    a, b, d = names
    case = {"kind": "triple", "names": list(names)}
    for x, y, z in ((a, b, d), (a, d, b), (b, a, d), (b, d, a), (d, a, b), (d, b, a)):
        xy, yz, xz = c[(x, y)], c[(y, z)], c[(x, z)]
        if "C" in (xy, yz, xz) or "U" in (xy, yz, xz):
            ctx.fail("totality", case, expected="three results", observed=[xy, yz, xz],
                     what="conventional names that do not compare")
            return
        if xy <= 0 and yz <= 0 and not xz <= 0:
            ctx.fail("transitivity", case, expected="%r <= %r" % (x, z), observed={"%s?%s" % (x, y): xy,
                     "%s?%s" % (y, z): yz, "%s?%s" % (x, z): xz},
                     what="%r <= %r <= %r but cmp(%r,%r) = %s" % (x, y, z, x, z, xz))
            return
        if xy == 0 and yz == 0 and xz != 0:
            ctx.fail("transitivity", case, expected=0, observed=xz, what="equality is not transitive")
            return


def check_matrix(ctx, names, mi, ms):
    """all pairs of the small grammar.  Total pre-order <=> some ranking r has M[i][j] = sign(r_i - r_j); with
    r_i = number of elements below i this is decided in n^2 steps and covers every triple."""
    n = len(names)
    rank = [sum(1 for x in row if x == 1) for row in mi]
    bad = None
    for i in range(n):
        ri, row = rank[i], mi[i]
        for j in range(n):
            if row[j] != sign(ri - rank[j]):
                bad = (i, j)
                break
        if bad:
            break
    ctx.extra["small_grammar_names"] = n
    ctx.extra["small_grammar_total_preorder"] = bad is None
    if bad:
        i, j = bad
        found = False
        for k in range(n):
            trip = (names[i], names[j], names[k])
            before = len(ctx.failures)
            check_triple(ctx, trip, {(names[x], names[y]): mi[x][y] for x in (i, j, k) for y in (i, j, k)})
            if len(ctx.failures) > before:
                found = True
                break
        if not found:
            ctx.fail("transitivity", {"kind": "pair", "a": names[i], "b": names[j]}, expected=sign(rank[i] - rank[j]),
                     observed=mi[i][j], what="the comparison matrix of the small grammar is not a total pre-order")


def check_match(ctx, c, m, i):
    ctx.count(1, key="match/" + c["shape"], nontrivial=c["v"] + "|" + c["expr"])
    mm = {"1": 1, "0": 0}.get(m, _M.get(m.replace("Model.", ""), m))
    if mm == "?":
        ctx.bump("not-modelled")
    elif mm != i:
        ctx.disagree({"kind": "match", "v": c["v"], "expr": c["expr"]}, mm, i, where="version_match")
    alts = c.get("alts")
    if alts and pykey(c["v"]) is not None and all(pykey(w) is not None and prefix(w) == prefix(c["v"]) for _, w in alts):
        exp = 1 if any(REL[op](keycmp(c["v"], w)) for op, w in alts) else 0
        if i != exp:
            ctx.fail("relational", {"kind": "match", "v": c["v"], "expr": c["expr"], "alts": alts}, expected=exp, observed=i,
                     what="version_match(%r, %r) is %s; the key order puts %s" % (c["v"], c["expr"], i, exp))


def check_latest(ctx, names, m, i):
    ctx.count(1, key="latest/%d" % len(names), nontrivial="|".join(names) if len(names) > 1 else None)
    f = m.replace("Model.", "").split("\t")
    mv = common.dec(f[1]) if f[0] == "some" else None if f[0] == "none" else f[0]
    case = {"kind": "latest", "names": names}
    if mv != i[0] or mv != i[1]:
        ctx.disagree(case, mv, i, where="latest: _selectPreferredProduct / sorted()[-1]")
    if not names:
        if i[0] is not None:
            ctx.fail("latest", case, expected=None, observed=i[0], what="a latest version of nothing")
        return
    if i[0] not in names:
        ctx.fail("latest", case, expected="an element of the list", observed=i[0], what="latest is not one of the versions")
        return
    km = pykey(i[0])
    worse = [x for x in names if pykey(x) > km]
    if worse:
        ctx.fail("latest", case, expected=max(names, key=pykey), observed=i[0],
                 what="latest of %r is %r but %r is greater in the key order" % (names, i[0], worse[0]))


# ------------------------------------------------------------------ drivers

def run_pairs(ctx, pairs, stream):
    if not pairs:
        return
    mab = model_cmp(ctx, pairs)
    mba = model_cmp(ctx, [(b, a) for a, b in pairs])
    ires = run_impl({"pairs": pairs})["pairs"]
    for (a, b), x, y, i in zip(pairs, mab, mba, ires):
        check_pair(ctx, a, b, x, y, i, stream)


def run_triples(ctx, triples):
    if not triples:
        return
    pairs = sorted({(x, y) for t in triples for x in t for y in t})
    ires = run_impl({"pairs": pairs})["pairs"]
    mres = model_cmp(ctx, pairs)
    code = {}
    for p, m, i in zip(pairs, mres, ires):
        code[p] = i[0]
        if "?" not in m[:2] and (m[0], m[1]) != (i[0], i[1]):
            ctx.disagree({"kind": "pair", "a": p[0], "b": p[1]}, list(m[:2]), i[:2], where="version_cmp / strict")
    for t in triples:
        conventional = all(pykey(x) is not None for x in t)
        ctx.count(1, key="triple" if conventional else "triple-nonconventional",
                  nontrivial="|".join(t) if len(set(t)) == 3 else None)
        if conventional:            # transitivity and totality are claimed for conventional names only
            check_triple(ctx, t, code)


def run_matches(ctx, cases):
    if not cases:
        return
    mres = ctx.model(["match\t%s\t%s" % (enc(c["v"]), enc(c["expr"])) for c in cases])
    ires = run_impl({"matches": [(c["v"], c["expr"]) for c in cases]})["matches"]
    for c, m, i in zip(cases, mres, ires):
        check_match(ctx, c, m, i)


def run_latests(ctx, lists):
    if not lists:
        return
    mres = ctx.model(["latest\t" + common.enc_list(",", l) for l in lists])
    ires = run_impl({"latests": lists})["latests"]
    for l, m, i in zip(lists, mres, ires):
        check_latest(ctx, l, m, i)


def run_cases(ctx, cases, stream):
    """cases in the corpus / replay format"""
    triples = [tuple(c["names"]) for c in cases if c["kind"] == "triple"]
    run_pairs(ctx, [(c["a"], c["b"]) for c in cases if c["kind"] == "pair"] +
              [(x, y) for t in triples for x, y in ((t[0], t[1]), (t[1], t[2]), (t[0], t[2]))], stream)
    run_triples(ctx, triples)
    ms = []
    for c in cases:
        if c["kind"] == "match":
            c = dict(c)
            c.setdefault("shape", "corpus")
            if c.get("alts"):
                c["alts"] = [tuple(a) for a in c["alts"]]
            ms.append(c)
    run_matches(ctx, ms)
    run_latests(ctx, [c["names"] for c in cases if c["kind"] == "latest"])
    c10stacks.check_cases(ctx, [dict(c, flavor=c.get("flavor", "Linux64")) for c in cases if c["kind"] == "stacks"],
                          pykey, stream)


def corpus_cases():
    d = os.path.join(common.ROOT, "corpus", "C10")
    out = []
    if os.path.isdir(d):
        for f in sorted(os.listdir(d)):
            if f.endswith(".json"):
                out.append(json.load(open(os.path.join(d, f)))["input"])
    return out


def setup(ctx):
    ctx.rule = ("(small) every ordered pair of a 660-name conventional grammar (components 0 1 2 10 01, at most two, "
                "separators . and _, prefix none/v, pre-release none/rc1/1, post-release none/1), both comparison modes, "
                "plus the all-triples total-pre-order test of the whole matrix; (big) sampled pairs and triples of the "
                "28 260-name grammar of the design; (random) pairs of strings of length <= 8 over [abmpvrcAZ0-39._+-] "
                "biased towards prefixes, respellings and the m<d>/p<d>/hyphen/plus branches; (match) relational "
                "expressions of 1-3 alternatives with spacing variants and a malformed share; (latest) lists of 0-8 "
                "conventional names; (stacks) real stacks on EUPS_PATH: 1-4 stacks declaring 0-7 conventional versions "
                "of one product spread over them (a version may be in two stacks, a stack may declare none), plus directed "
                "families placing the maximum in every position of every order of 2-3 stacks with the decisive "
                "difference a number, a longer name, a pre- or a post-release part; half with a minimum version; the "
                "tag latest asked through findProduct(Tag(latest)), findTaggedProduct, a VRO of -t latest, "
                "_findLatestProduct with/without noCache and minimum, findProducts(tags=[latest]) and the text of eups "
                "list -t latest -d, each with the cache just built, the cache read back, and readCache=False; the "
                "histogram key of a stacks case is <number of stacks>/<stacks declaring the product>/<where the "
                "maximum lies>[/min].  A pair is non-trivial when its two names differ; distinct = distinct input text; "
                "the histogram key of a pair is the arm of stdCompare the model took")
    ctx.trusted_base = common.COMMON_TRUSTED + [
        "modelled, not verified: python re on the fixed patterns of VersionCompare.py and version_match, int() on "
        "ASCII digit strings (below the 4300-digit limit), str comparison by code point, sorted() stability",
        "modelled, not verified (stacks stream): the order in which a stack lists its versions (product cache: "
        "ProductStack.getVersions, database files: Database.findProducts) is read from the real stack and given to "
        "the model - it only matters between versions that compare equal; checked to be a rearrangement of the "
        "versions declared",
        "not modelled: interpolation of a component prefix holding a regular-expression metacharacter (a plus sign "
        "left in the primary part) into a pattern - the model answers Undefined there and such pairs are only run "
        "through the oracle"]
    ctx.assumptions = ["names are over the alphabet [A-Za-z0-9._+-]; expressions add blanks and the characters < > = | &",
                       "conventional: letters digits ((.|_) digits)* for each of the three parts, letters not ending in m or p "
                       "(DESIGN section 7.1); relational matching is claimed for operands sharing the letter prefix of the "
                       "version (strict mode refuses to sort across different prefixes)"]


def run(ctx):
    setup(ctx)
    ctx.check_theorems()
    if ctx.tier == "thorough":
        ctx.coqchk(["Eupsv.Props.C10"])
    rng = ctx.rng
    # corpus first
    run_cases(ctx, corpus_cases(), "corpus")

    # small grammar, exhaustively
    small = small_grammar()
    check_keys(ctx, small + ["1.2m3", "vm1", "1.2-m1", "1a", "a", "", "1.", ".1", "1-2-3", "1+2+3", "v1.0-rc1+a1", "V01_2"])
    job = run_impl({"matrix": small})
    mi, ms = job["matrix_int"], job["matrix_strict"]
    allpairs = [(a, b) for a in small for b in small]
    mres = model_cmp(ctx, allpairs)
    n = len(small)
    for i, a in enumerate(small):
        for j, b in enumerate(small):
            check_pair(ctx, a, b, mres[i * n + j], None,
                       [mi[i][j], ms[i][j], mi[j][i], ms[j][i], mi[i][i], ms[i][i]], "small")
    check_matrix(ctx, small, mi, ms)
    ctx.exhaustive = True
    ctx.traces_validated += 0

    # the design's bounded grammar, sampled (all names appear in the thorough tier's pair stream)
    big = big_grammar()
    check_keys(ctx, rng.sample(big, ctx.size(2000, len(big))))
    npairs = ctx.size(20000, 400000)
    def neighbour(a):
        body = re.split(r"[-+]", a)[0]
        body = rng.choice([body, body.replace(".", "_"), body.replace("_", "."), body.replace(".", "_", 1)])
        return body + rng.choice(["", "", "-rc1", "-rc2", "-1", "-1.1"]) + rng.choice(["", "", "+1", "+a1"])
    pairs = []
    for _ in range(npairs):
        a = rng.choice(big)
        pairs.append((a, neighbour(a) if rng.random() < 0.5 else rng.choice(big)))
    for k in range(0, len(pairs), 50000):
        run_pairs(ctx, pairs[k:k + 50000], "big")
    byprefix = {}
    for v in big:
        byprefix.setdefault(prefix(v), []).append(v)
    triples = []
    for _ in range(ctx.size(5000, 100000)):
        r = rng.random()
        pool = big if r < 0.3 else byprefix[rng.choice(["", "v"])]
        a = rng.choice(pool)
        if r > 0.6:
            # neighbours: same numbers, different spelling or parts
            body = re.split(r"[-+]", a)[0]
            near = [body.replace(".", "_"), body.replace("_", "."), body + "-rc1", body + "+1", body + "-1", body + ".0"]
            b, d = rng.choice(near), rng.choice(near + [rng.choice(pool)])
        else:
            b, d = rng.choice(pool), rng.choice(pool)
        triples.append((a, b, d))
    run_triples(ctx, triples)

    # arbitrary strings
    rp = [gen_random_pair(rng) for _ in range(ctx.size(30000, 600000))]
    check_accepts(ctx, sorted({x for p in rp for x in p}))
    for k in range(0, len(rp), 50000):
        run_pairs(ctx, rp[k:k + 50000], "random")

    # relational expressions and latest
    exprs = [gen_expr(rng, big, byprefix) for _ in range(ctx.size(12000, 200000))]
    for c in exprs[:2]:
        ctx.sample({"kind": "match", "v": c["v"], "expr": c["expr"]})
    run_matches(ctx, exprs)
    lists = []
    for _ in range(ctx.size(4000, 60000)):
        pool = big if rng.random() < 0.4 else small
        a = rng.choice(pool)
        body = re.split(r"[-+]", a)[0]
        near = [body.replace(".", "_"), body.replace("_", "."), body + "-rc1", body + "+1", a]
        k = rng.choice([0, 1, 2, 3, 4, 5, 8])
        lists.append([rng.choice(near) if rng.random() < 0.4 else rng.choice(pool) for _ in range(k)])
    run_latests(ctx, lists)
    ctx.sample({"kind": "triple", "names": list(triples[0])})

    # the tag latest over real stacks
    scases = c10stacks.generate(ctx, rng, small + rng.sample(big, 660))
    ctx.sample(scases[0])
    c10stacks.check_cases(ctx, scases, pykey)


def replay(ctx, path):
    setup(ctx)
    obj = json.load(open(path))
    c = obj["input"]
    if obj.get("kind") in ("proof-broken", "correspondence-broken") or c is None:
        ctx.check_theorems()
        c = (obj.get("first_disagreement") or {}).get("case")
        if c is None:
            bad = bool(ctx.proof_problems)
            print("replay %s: %s" % (path, "still fails" if bad else "passes"))
            return 1 if bad else 0
    run_cases(ctx, [c], "replay")
    bad = [f for f in ctx.failures if not ctx._known(f)] or ctx.disagreements or ctx.proof_problems
    print("replay %s: %s" % (path, "still fails" if bad else "passes"))
    return 1 if bad else 0
