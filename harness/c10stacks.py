"""C10, 'latest is the maximum' over the stacks of EUPS_PATH.

Model: coq/Model/VersionStacks.v (latest_over_stacks, latest_listing); theorems latest_over_stacks_is_max,
latest_over_stacks_none, latest_over_stacks_none_with_minimum, latest_listing_per_stack in coq/Props/C10.v.

A case is {"kind": "stacks", "stacks": [[version, ...], ...], "minver": name or None, "flavor": flavor}:
real stacks are written under a scratch directory (one ups_db per stack, the product declared with the
listed versions, a second product declared beside it), EUPS_PATH lists them in the order given, and the
product behind the tag latest is asked for
  * with the product cache (Eups(readCache=True), first built from the database files, then read back from
    the cache files by a second instance) and without it (Eups(readCache=False): database files),
  * through findProduct(name, Tag("latest")), findTaggedProduct(name, "latest"), a request under a VRO made
    by selectVRO(["latest"]) (what -t latest does), _findLatestProduct itself with and without noCache and
    with the minimum version, findProducts(name, tags=["latest"]) and the listing eups list -t latest -d.
"""
import contextlib
import io
import itertools
import os
import shutil
import sys

import common
from common import enc

PRODUCT = "prod"
OTHER = "other"
FLAVORS = ["Linux64", "generic"]
NPROC = 12

# the single-answer entrances (the answer is (stack position, version) or None)
ENTRANCES = ["findProduct", "findTaggedProduct", "vro-latest", "_findLatestProduct", "_findLatestProduct/noCache"]
MIN_ENTRANCES = ["_findLatestProduct+min", "_findLatestProduct+min/noCache"]
MODES = ["cache-built", "cache-read", "db"]


# ------------------------------------------------------------------ implementation (runs in forked children)

def _found(roots, p):
    if p is None:
        return None
    root = p.stackRoot() if p.db else None
    return [roots.index(root) if root in roots else -1, p.version]


def _ask(f):
    try:
        return f()
    except Exception as ex:  # noqa
        return {"err": type(ex).__name__, "text": str(ex)[:200]}


def impl_one(eups, base, c):
    import eups.db as edb
    from eups import app
    k = len(c["stacks"])
    roots = [os.path.join(base, "s%d" % i) for i in range(k)]
    flavor = c["flavor"]
    os.environ["EUPS_PATH"] = ":".join(roots)
    os.environ["EUPS_USERDATA"] = os.path.join(base, "ud")
    os.environ["EUPS_FLAVOR"] = flavor
    os.makedirs(os.path.join(base, "ud", "ups_db"))
    sys.modules["eups.db.Database"]._databases.clear()
    for root, vs in zip(roots, c["stacks"]):
        os.makedirs(os.path.join(root, "ups_db"))
        dbo = edb.Database(os.path.join(root, "ups_db"))
        dbo.declare(eups.Product(OTHER, "1.0", flavor, os.path.join(root, OTHER, "1.0"), "none"))
        for v in vs:
            dbo.declare(eups.Product(PRODUCT, v, flavor, os.path.join(root, PRODUCT, v), "none"))
    minver = c.get("minver")
    res = {}
    for mode in MODES:
        sys.modules["eups.db.Database"]._databases.clear()
        rc = mode != "db"

        def mk(tags=None):
            e = eups.Eups(readCache=rc, quiet=1, setupType=None)
            e.selectVRO(tags, None, None, None)
            return e
        r = {}
        e = _ask(mk)
        if isinstance(e, dict):
            res[mode] = {"construct": e}
            continue
        path = list(e.path)
        # the order in which every stack lists the versions (ties of the comparison go to the one listed last)
        if rc:
            r["order/cache"] = _ask(lambda: [list(e.versions[root].getVersions(PRODUCT, flavor)) for root in roots])
        r["order/db"] = _ask(lambda: [[p.version for p in e._databaseFor(root).findProducts(PRODUCT, flavors=flavor)]
                                      for root in roots])
        r["findProduct"] = _ask(lambda: _found(roots, e.findProduct(PRODUCT, eups.Tag("latest"))))
        r["findTaggedProduct"] = _ask(lambda: _found(roots, e.findTaggedProduct(PRODUCT, "latest")))
        r["_findLatestProduct"] = _ask(lambda: _found(roots, e._findLatestProduct(PRODUCT, path, flavor)))
        r["_findLatestProduct/noCache"] = _ask(lambda: _found(roots, e._findLatestProduct(PRODUCT, path, flavor,
                                                                                           noCache=True)))
        if minver is not None:
            r["_findLatestProduct+min"] = _ask(lambda: _found(roots, e._findLatestProduct(PRODUCT, path, flavor, minver)))
            r["_findLatestProduct+min/noCache"] = _ask(lambda: _found(roots, e._findLatestProduct(PRODUCT, path, flavor,
                                                                                                   minver, noCache=True)))
        # the listing: Eups.findProducts, and the text of eups list -t latest -d (one directory per line)
        if rc:      # findProducts reads the cache only
            r["findProducts"] = _ask(lambda: sorted(_found(roots, p) for p in e.findProducts(PRODUCT, tags=["latest"])))

            def listing():
                buf = io.StringIO()
                with contextlib.redirect_stdout(buf):
                    try:
                        app.printProducts(buf, PRODUCT, tags="latest", eupsenv=e, directory=True)
                    except eups.ProductNotFound:
                        return []
                out = []
                for ln in buf.getvalue().splitlines():
                    d = ln.strip()
                    if not d:
                        continue
                    root = os.path.dirname(os.path.dirname(d))
                    out.append([roots.index(root) if root in roots else -1, os.path.basename(d)])
                return sorted(out)
            r["list -t latest"] = _ask(listing)
        e2 = _ask(lambda: mk(["latest"]))
        if isinstance(e2, dict):
            r["vro-latest"] = e2
        else:
            r["vro-latest"] = _ask(lambda: _found(roots, e2.findProductFromVRO(PRODUCT)[0]))
        res[mode] = r
    return res


def impl_cases(cases):
    devnull = os.open(os.devnull, os.O_WRONLY)
    os.dup2(devnull, 2)
    sys.stderr = open(os.devnull, "w")
    os.environ.clear()
    os.environ.update(common.scrubbed_environ())
    eups = common.import_eups()
    out = []
    for c in cases:
        base = common.scratch_dir()
        cwd = os.getcwd()
        try:
            os.chdir(base)
            out.append(impl_one(eups, base, c))
        finally:
            os.chdir(cwd)
            shutil.rmtree(base, ignore_errors=True)
    return out


def run_impl(cases, nproc=NPROC):
    if not cases:
        return []
    nproc = max(1, min(nproc, len(cases), (os.cpu_count() or 4)))
    slices = [cases[i::nproc] for i in range(nproc)]
    outs = common.par_map(impl_cases, [(sl,) for sl in slices], nproc=nproc, timeout=900)
    merged = [None] * len(cases)
    for k, r in enumerate(outs):
        if r[0] != "ok":
            raise RuntimeError("implementation child failed: %r" % (str(r)[-1500:],))
        for j, x in enumerate(r[1]):
            merged[k + j * nproc] = x
    return merged


# ------------------------------------------------------------------ model

def model_line(stacks, minver):
    return "lstacks\t%s\t%s" % ("=" if minver is None else "v" + enc(minver),
                                "\t".join(common.enc_list(",", vs) if vs else "=" for vs in stacks))


def model_parse(line):
    """-> (answer, listing): answer (position, version) / None / 'err:...', listing [(position, version)]"""
    f = (line.replace("Model.", "").split("\t") + ["", "", "", ""])[:4]
    if f[0] == "some":
        ans = [int(f[1]), common.dec(f[2])]
    elif f[0] == "none":
        ans = None
    else:
        ans = f[0]
    if f[3].startswith("err:"):
        lst = f[3]
    else:
        lst = sorted([int(x.split(":")[0]), common.dec(x.split(":", 1)[1])] for x in (f[3].split(",") if f[3] else []))
    return ans, lst


# ------------------------------------------------------------------ the property, on the implementation's answers

def where_is_max(stacks, pykey):
    """histogram label: in which of the stacks that declare the product the maximum lies"""
    have = [i for i, vs in enumerate(stacks) if vs]
    if not have:
        return "absent"
    top = max(pykey(x) for vs in stacks for x in vs)
    at = [i for i in have if any(pykey(x) == top for x in stacks[i])]
    if len(have) == 1:
        return "only-stack"
    if len(at) > 1:
        return "max-in-several"
    return "max-in-first" if at[0] == have[0] else "max-in-last" if at[0] == have[-1] else "max-in-middle"


def oracle_single(ctx, case, mode, entrance, ans, minver, pykey):
    """'latest' is the maximum: the answer is a version declared in the stack it names, no declared version of any
    stack is greater in the key order, it is not below the minimum asked for, and there is no answer only when
    nothing is declared (or, with a minimum, when everything declared is below it)"""
    stacks = case["stacks"]
    union = [x for vs in stacks for x in vs]
    c = dict(case, observed_through="%s, %s" % (entrance, mode))
    if isinstance(ans, dict):
        ctx.fail("latest-stacks", c, expected="an answer", observed=ans,
                 what="asking for the latest version of conventionally named versions raised %s" % ans.get("err"))
        return
    eligible = union if minver is None else [x for x in union if pykey(x) >= pykey(minver)]
    if ans is None:
        if eligible:
            ctx.fail("latest-stacks", c, expected=max(eligible, key=pykey), observed=None,
                     what="no latest version although %r is declared" % max(eligible, key=pykey))
        return
    i, v = ans
    if not (0 <= i < len(stacks)) or v not in stacks[i]:
        ctx.fail("latest-stacks", c, expected="a declared version", observed=ans,
                 what="latest is %r of stack %s, where it is not declared" % (v, i))
        return
    worse = [x for x in union if pykey(x) > pykey(v)]
    if worse:
        top = max(union, key=pykey)
        ctx.fail("latest-stacks", c, expected=top, observed=ans,
                 what="latest over stacks %r is %r (stack %d) but %r, declared in stack %d, is greater in the key order" %
                 (stacks, v, i, top, [j for j, vs in enumerate(stacks) if top in vs][0]))
        return
    if minver is not None and pykey(v) < pykey(minver):
        ctx.fail("latest-stacks", c, expected=None, observed=ans,
                 what="latest %r is below the minimum version %r" % (v, minver))


def oracle_listing(ctx, case, mode, entrance, lst, pykey):
    """the listing by the tag latest asks every stack on its own: each entry is a maximum of its stack, and a maximum
    of every stack that declares the product is among the version names listed (the listing shows equal entries of
    different stacks once, which is not this property's business)"""
    stacks = case["stacks"]
    c = dict(case, observed_through="%s, %s" % (entrance, mode))
    if isinstance(lst, dict):
        ctx.fail("latest-stacks", c, expected="a listing", observed=lst, what="the listing raised %s" % lst.get("err"))
        return
    for i, v in lst:
        if not (0 <= i < len(stacks)) or v not in stacks[i]:
            ctx.fail("latest-stacks", c, expected="declared versions", observed=lst,
                     what="the listing holds %r for stack %s, where it is not declared" % (v, i))
            return
        worse = [x for x in stacks[i] if pykey(x) > pykey(v)]
        if worse:
            ctx.fail("latest-stacks", c, expected=max(stacks[i], key=pykey), observed=lst,
                     what="listed as latest of stack %d: %r, but %r is greater in the key order" % (i, v, worse[0]))
            return
    listed = [v for _, v in lst]
    for i, vs in enumerate(stacks):
        if vs and not any(v in vs and all(pykey(x) <= pykey(v) for x in vs) for v in listed):
            ctx.fail("latest-stacks", c, expected="the latest version of every stack declaring the product", observed=lst,
                     what="no maximum of stack %d (%r) among the versions listed" % (i, vs))
            return


def _uses_db(mode, ent):
    return mode == "db" or ent.endswith("/noCache")


def check_cases(ctx, cases, pykey, stream="stacks"):
    """the model is given, for every stack, the versions in the order the real stack lists them (the product cache
    and the database files each have their own; the comparison's ties go to the version listed last), which the
    driver reports; the listing order must be a rearrangement of the versions declared"""
    if not cases:
        return
    ires = run_impl(cases)
    lines, index = [], {}

    def want(n, stacks, minver):
        k = (n, repr(stacks), minver)
        if k not in index:
            index[k] = len(lines)
            lines.append(model_line(stacks, minver))
        return k
    plan = []
    for n, (c, r) in enumerate(zip(cases, ires)):
        for mode in MODES:
            rm = r.get(mode, {})
            if "construct" in rm:
                plan.append((n, mode, None, None, None, None))
                continue
            for ent in ENTRANCES + (MIN_ENTRANCES if c.get("minver") is not None else []) + ["findProducts", "list -t latest"]:
                if ent not in rm:
                    continue
                order = rm.get("order/db" if _uses_db(mode, ent) else "order/cache")
                ok = isinstance(order, list) and [sorted(x) for x in order] == [sorted(x) for x in c["stacks"]]
                mv = c.get("minver") if ent in MIN_ENTRANCES else None
                plan.append((n, mode, ent, order, ok, want(n, order, mv) if ok else None))
    mres = ctx.model(lines)
    counted = set()
    for n, mode, ent, order, ok, k in plan:
        c, r = cases[n], ires[n]
        case = {"kind": "stacks", "stacks": c["stacks"], "minver": c.get("minver"), "flavor": c["flavor"]}
        stacks = c["stacks"]
        if n not in counted:
            counted.add(n)
            nd = sum(1 for vs in stacks if vs)
            ctx.count(1, key="%s/%d-stacks/%d-declaring/%s%s" % (stream, len(stacks), nd, where_is_max(stacks, pykey),
                                                                 "/min" if c.get("minver") is not None else ""),
                      nontrivial=repr((stacks, c.get("minver"), c["flavor"])) if nd > 1 else None)
        rm = r.get(mode, {})
        if ent is None:
            ctx.fail("latest-stacks", dict(case, observed_through=mode), expected="an Eups instance",
                     observed=rm["construct"], what="constructing Eups over the stacks raised")
            continue
        through = dict(case, observed_through="%s, %s" % (ent, mode))
        ctx.bump("stacks-entrance/%s/%s" % (mode, ent))
        if not ok:
            ctx.disagree(through, [sorted(x) for x in stacks], order,
                         where="the stacks do not list the versions that were declared (%s)" % mode)
        ans = rm[ent]
        if ent in ("findProducts", "list -t latest"):
            if ok:
                m_list = model_parse(mres[index[k]])[1]
                if ans != m_list:
                    ctx.disagree(dict(through, listed_as=order), m_list, ans,
                                 where="latest per stack: %s (%s)" % (ent, mode))
            oracle_listing(ctx, case, mode, ent, ans, pykey)
        else:
            if ok:
                m_ans = model_parse(mres[index[k]])[0]
                if ans != m_ans:
                    ctx.disagree(dict(through, listed_as=order), m_ans, ans,
                                 where="latest over stacks: %s (%s)" % (ent, mode))
            oracle_single(ctx, case, mode, ent, ans, c.get("minver") if ent in MIN_ENTRANCES else None, pykey)


# ------------------------------------------------------------------ generators

def _respell(rng, v):
    body, sep, rest = v, "", ""
    for s in "-+":
        if s in body:
            body, sep, rest = body.partition(s)
            break
    alt = body.replace(".", "_") if "." in body else body.replace("_", ".")
    return alt + sep + rest


def gen_random(rng, pool):
    """1-4 stacks, 0-7 versions of a pool spread over them (a version may be declared in two stacks, a stack may
    declare none), half of the cases with a minimum version taken near the declared ones"""
    k = rng.choice([1, 2, 2, 2, 3, 3, 3, 4])
    n = rng.choice([0, 1, 2, 3, 3, 4, 4, 5, 6, 7])
    base = rng.choice(pool)
    body = base.split("-")[0].split("+")[0]
    near = [body, body + "-rc1", body + "+1", body + ".1", body + "-1", _respell(rng, body), body + "_0"]
    names = []
    for _ in range(n):
        v = rng.choice(near) if rng.random() < 0.35 else rng.choice(pool)
        if v not in names:
            names.append(v)
    stacks = [[] for _ in range(k)]
    for v in names:
        i = rng.randrange(k)
        stacks[i].append(v)
        if k > 1 and rng.random() < 0.15:
            j = rng.randrange(k)
            if j != i:
                stacks[j].append(v)
    minver = None
    if rng.random() < 0.5:
        r = rng.random()
        minver = rng.choice(names) if names and r < 0.45 else rng.choice(near) if r < 0.75 else rng.choice(pool)
    return {"kind": "stacks", "stacks": stacks, "minver": minver, "flavor": rng.choice(FLAVORS)}


def gen_directed(rng, pool):
    """the maximum placed in turn in every stack of a 2- or 3-stack path (every order of the same stacks), with the
    decisive difference being a number, a longer name, a pre-release or a post-release part"""
    out = []
    for _ in range(2):
        lo = sorted(rng.sample([1, 2, 3, 5, 9, 10, 11, 20], 4))
        pre = rng.choice(["", "v"])
        sep = rng.choice([".", "_"])
        a, b, c_, d = ["%s%d%s%d" % (pre, x, sep, rng.choice([0, 1, 10])) for x in lo]
        kind = rng.choice(["number", "longer", "pre", "post"])
        low = a + sep + "0"                  # a longer name: above a, below b
        if kind == "number":
            top, second = d, c_
        elif kind == "longer":
            top, second = d + sep + "1", d
        elif kind == "pre":
            top, second = d, d + "-rc1"
        else:
            top, second = d + "+1", d
        contents = [[a, top], [b, second], [low, c_] if c_ != second else [low]]
        k = rng.choice([2, 3])
        extra_empty = rng.random() < 0.3
        for order in itertools.permutations(range(k)):
            stacks = [list(contents[i]) for i in order]
            if extra_empty:
                stacks.insert(rng.randrange(len(stacks) + 1), [])
            for s in stacks:
                rng.shuffle(s)
            out.append({"kind": "stacks", "stacks": stacks, "minver": rng.choice([None, None, b, top, second]),
                        "flavor": rng.choice(FLAVORS)})
    return out


def generate(ctx, rng, pool):
    cases = []
    for _ in range(ctx.size(15, 100)):
        cases += gen_directed(rng, pool)
    for _ in range(ctx.size(200, 2500)):
        cases.append(gen_random(rng, pool))
    return cases
