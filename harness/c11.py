"""C11 - table files mean what they say: block selection, conditions and arguments.

Models: coq/Model/Cond.v (VersionParser), Blocks.v (Table._read / Table.actions), Args.v (argument
splitting, command normalisation), Legacy.v (Table._rewrite), LegacySpec.v (the legacy grammar as an AST, its printer,
the corresponding if blocks).   Theorems: coq/Props/C11.v
Implementation: eups.table.Table(file, topProduct=stub, addDefaultProduct=False).actions(flavor, types)
and eups.VersionParser.VersionParser(text).eval().

Streams:
  table      items ASTs of the documented grammar with a random layout, printed to real files; model and
             implementation compared on [(cmd, args, extra)]; the ORACLE (denotation of the AST, computed
             here independently) is evaluated on the implementation's output
  legacy     files of the whole old grammar (Group:/Common:/End:, Flavor=, Qualifiers=, Action=, File=, Product=, blank and
             comment lines in every slot the rewriter's state machine has); ORACLE: a group applies iff the flavor is
             listed, ignorable lines mean nothing; model and implementation compared as for tables
  malformed  mutated tables (stray braces, bad arity, unknown commands, legacy lines, odd spellings):
             accept/raise and, when both accept, the actions and the parsed block structure are compared
  cond       token soups through VersionParser.eval: the python value is compared
  argtext    texts between the parentheses of a command (argument lists printed from the documented grammar,
             escaped quotes included, and soups of quotes, escaped quotes, backslashes, blanks, commas):
             classify_argtext says whether the text is inside the documented argument grammar and, if so, which
             arguments it denotes (the ORACLE for those); model and implementation are compared on all of them
"""
import json
import os

import common
from common import enc, dec, enc_list

FLAVORS = ["Linux64", "DarwinX86", "Linux"]
OTHER_FLAVOR = "SunOS"
TYPES = ["build", "exact"]
OTHER_TYPE = "opt"
TOP = "foo"
# which code the MODEL follows: 2 = the repaired code including the block reader with the repair of D6
# (proposed_fixes/C11-empty-branch; what the theorems are about), 1 = the same without that last repair (the tree
# before the fix is committed: the matcher c11.empty_branch then absorbs the oracle failures), 0 = the pinned code
# (1 and 0 only for studying the defects by hand; the oracle is unaffected)
FX = os.environ.get("C11_MODEL_FX", "2")

# ------------------------------------------------------------------ the documented grammar (spec side)

# kind as written -> (canonical command of the action, extra flags); an independent statement of what the
# documentation says each command means.  envUnset is only meaningful for PRODUCT_DIR.
KINDS = {
    "envPrepend": ("envPrepend", {"append": False}),
    "envAppend": ("envPrepend", {"append": True}),
    "pathPrepend": ("envPrepend", {"append": False}),
    "pathAppend": ("envPrepend", {"append": True}),
    "envSet": ("envSet", {}),
    "setenv": ("envSet", {}),
    "pathSet": ("envSet", {}),
    "setupRequired": ("setupRequired", {"optional": False}),
    "setupOptional": ("setupRequired", {"optional": True}),
    "unsetupRequired": ("unsetupRequired", {"optional": False}),
    "unsetupOptional": ("unsetupRequired", {"optional": True}),
    "addAlias": ("addAlias", {}),
    "declareOptions": ("declareOptions", {}),
    "print": ("print", {}),
    "prodDir": ("prodDir", {}),
    "setupEnv": ("setupEnv", {}),
    "envUnset": ("envUnset", {}),
}

VARS = ["PATH", "LD_LIBRARY_PATH", "PYTHONPATH", "FOO_OPTS", "X"]
WORDS = ["/opt/x/bin", "${PRODUCT_DIR}/bin", "lib", "a.b+c", "1.2", "v1_0", "-O2", "${HOME}/x:y", "(p)", "k=v"]
SPACEY = ["two words", "a, b", "x,y", " lead", "trail ", "a  b", "-I/x -I/y", "c, d e", "a, ", "x,", " "]
# values containing the double quote (written backslash-quote in the table): at both ends of a bare word, at one
# end, in the middle, next to a comma or blank inside a quoted value, alone
QWORDS = ['"$@"', '"hello"', '-DNAME="x"', '"-Wall"', '"x', 'y"', '"', '""', 'a"b', '"$@"`;', '"${HOME}/x"']
QSPACEY = ['say "hi" twice', 'ls -l "$@"', '"a b"', 'x ", " y', '" "', '"a", "b"', 'echo "a,b" c', '" lead', 'trail "',
           '", "', 'a ", b', '"a b" "c d"']
PRODUCTS = ["bar", "baz", "numpy", "afw"]
# the example of the manual: addAlias(foo, source `${PRODUCT_DIR}/bin/eups_setup setup \"$@\"`;);
MANUAL_ALIAS = ["foo", "source", "`${PRODUCT_DIR}/bin/eups_setup", "setup", '"$@"`;']


def esc(a):
    """how a value is written: its double quotes escaped"""
    return a.replace('"', '\\"')


def den_cond(c, fl, ty):
    if c[0] == "atom":
        _, var, op, lit, _lay = c
        hit = (lit == fl) if var == "FLAVOR" else (lit in ty)
        return hit if op == "==" else not hit
    if c[0] == "paren":
        return den_cond(c[1], fl, ty)
    _, op, l, r, _lay = c
    a, b = den_cond(l, fl, ty), den_cond(r, fl, ty)
    return (a or b) if op == "||" else (a and b)


def den_cmd(c):
    cmd, extra = KINDS[c["kind"]]
    args = list(c["args"])
    if c["kind"] == "envUnset":
        args = [TOP.upper() + "_DIR"]
    return [cmd, args, dict(extra)]


def den_items(items, fl, ty):
    out = []
    for it in items:
        if it[0] == "cmd":
            out.append(den_cmd(it[1]))
            continue
        for br in it[1]:
            if den_cond(br["cond"], fl, ty):
                out += [den_cmd(c) for c in br["body"]]
                break
        else:
            if it[2] is not None:
                out += [den_cmd(c) for c in it[2]["body"]]
    return out


def has_empty_branch(items):
    for it in items:
        if it[0] == "chain":
            if any(not br["body"] for br in it[1]) or (it[2] is not None and not it[2]["body"]):
                return True
    return False


def has_else_trailing(items):
    """an else / else if line with blanks (or a comment) after its left brace"""
    for it in items:
        if it[0] == "chain":
            if any(br["lay"]["after"] for br in it[1][1:]) or (it[2] is not None and it[2]["lay"]["after"]):
                return True
    return False


def cond_ops(c):
    if c[0] == "atom":
        return 0
    if c[0] == "paren":
        return cond_ops(c[1])
    return 1 + cond_ops(c[2]) + cond_ops(c[3])


def max_ops(items):
    return max([cond_ops(br["cond"]) for it in items if it[0] == "chain" for br in it[1]] or [0])


# ------------------------------------------------------------------ printers

def pr_cond(c):
    if c[0] == "atom":
        _, var, op, lit, lay = c
        return lay["sp"] + " " * lay["s1"] + op + " " * lay["s2"] + lay["q"] + lit + lay["q"]
    if c[0] == "paren":
        return "(" + " " * c[2]["s1"] + pr_cond(c[1]) + " " * c[2]["s2"] + ")"
    _, op, l, r, lay = c
    rs = pr_cond(r)
    if r[0] == "bin":
        rs = "(" + rs + ")"
    return pr_cond(l) + " " * lay["s1"] + op + " " * lay["s2"] + rs


def pr_args(c):
    out = c["lay"]["lead"]
    for i, a in enumerate(c["pargs"]):
        if i:
            out += c["lay"]["seps"][i - 1]
        out += '"' + a + '"' if c["lay"]["q"][i] else a
    return out + c["lay"]["trail"]


def pr_cmd(c):
    lay = c["lay"]
    return lay["indent"] + lay["spell"] + lay["sp"] + "(" + pr_args(c) + ")" + lay["semi"] + lay["after"]


def pr_items(items):
    lines = []
    for it in items:
        if it[0] == "cmd":
            lines += it[1]["lay"]["junk"] + [pr_cmd(it[1])]
            continue
        for i, br in enumerate(it[1]):
            lay = br["lay"]
            head = "if" if i == 0 else "}" + lay["s0"] + "else" + lay["s00"] + "if"
            lines += lay["junk"] + [lay["indent"] + head + lay["s1"] + "(" + pr_cond(br["cond"]) + ")" +
                                    lay["s2"] + "{" + lay["after"]]
            for c in br["body"]:
                lines += c["lay"]["junk"] + [pr_cmd(c)]
        if it[2] is not None:
            lay = it[2]["lay"]
            lines += lay["junk"] + [lay["indent"] + "}" + lay["s0"] + "else" + lay["s2"] + "{" + lay["after"]]
            for c in it[2]["body"]:
                lines += c["lay"]["junk"] + [pr_cmd(c)]
        lay = it[3]
        lines += lay["junk"] + [lay["indent"] + "}" + lay["after"]]
    return "\n".join(lines) + "\n"


# ------------------------------------------------------------------ generators

def g_sp(rng, zero=0.4):
    return 0 if rng.random() < zero else rng.choice([1, 1, 1, 2, 3])


def g_case(rng, s):
    return "".join(ch.upper() if rng.random() < 0.5 else ch.lower() for ch in s)


def g_after(rng, p=0.25):
    r = rng.random()
    if r > p:
        return ""
    return rng.choice([" ", "   ", "\t", " # a comment", "  # if (x) {", "#c"])


def g_junk(rng):
    out = []
    while rng.random() < 0.15:
        out.append(rng.choice(["", "   ", "# comment", "   # envSet(A, b)", "\t", "#}"]))
    return out


def g_cond(rng, depth, flavors, types):
    r = rng.random()
    if depth <= 0 or r < 0.3:
        var = "FLAVOR" if rng.random() < 0.65 or not types else "TYPE"
        lit = rng.choice(flavors if var == "FLAVOR" else types)
        sp = rng.choice([var, var.lower(), var.capitalize(), g_case(rng, var)])
        return ["atom", var, rng.choice(["==", "==", "!="]), lit,
                {"sp": sp, "q": rng.choice(["", "", '"', "'"]), "s1": g_sp(rng, 0.2), "s2": g_sp(rng, 0.2)}]
    if r < 0.42:
        return ["paren", g_cond(rng, depth - 1, flavors, types), {"s1": g_sp(rng, 0.6), "s2": g_sp(rng, 0.6)}]
    return ["bin", rng.choice(["||", "&&"]), g_cond(rng, depth - 1, flavors, types),
            g_cond(rng, depth - 1, flavors, types), {"s1": g_sp(rng, 0.15), "s2": g_sp(rng, 0.15)}]


def g_value(rng):
    r = rng.random()
    if r < 0.5:
        return rng.choice(WORDS)
    if r < 0.78:
        return rng.choice(SPACEY)
    return rng.choice(QWORDS) if r < 0.9 else rng.choice(QSPACEY)


def g_cmd(rng):
    kind = rng.choice(list(KINDS))
    if kind in ("envPrepend", "envAppend", "pathPrepend", "pathAppend"):
        args = [rng.choice(VARS), g_value(rng)] + ([rng.choice([":", ";", "-"])] if rng.random() < 0.3 else [])
    elif kind in ("envSet", "setenv", "pathSet"):
        args = [rng.choice(VARS), g_value(rng)]
    elif kind in ("setupRequired", "setupOptional", "unsetupRequired", "unsetupOptional"):
        args = [rng.choice(PRODUCTS)] + rng.choice([[], ["1.2"], [">=", "1.0"], ["-j", "v2"], ["1.0", "[>= 1.0]"]])
    elif kind == "addAlias":
        args = rng.choice([[rng.choice(["ll", "go"]), rng.choice(["ls -l", "cd ${PRODUCT_DIR}", "x"])],
                           ["runit", "run", '"$@"'], ["ll", 'ls -l "$@"'], list(MANUAL_ALIAS), ["q", '"$@"'],
                           [rng.choice(["ll", "go"]), g_value(rng)]])
    elif kind == "declareOptions":
        args = [rng.choice(["flavor=NULL", "name=x"])]
    elif kind == "print":
        args = [rng.choice(["hello", "msg"])] + rng.choice([[], ["hello, world"], ["a b"], ['"quoted"'], ['say "hi"', '"'],
                                                            [g_value(rng), g_value(rng)]])
    elif kind == "envUnset":
        args = ["PRODUCT_DIR"]
    else:
        args = []
    pargs = [esc(a) for a in args]
    q = []
    for i, a in enumerate(args):
        must = (" " in a) or ("," in a) or a == ""
        q.append(bool(i > 0 and (must or rng.random() < 0.3)))
    if args and not q[0] and ((" " in args[0]) or ("," in args[0])):
        raise AssertionError("first argument must be an identifier")
    seps = [rng.choice([", ", ",", " ", " , ", ",  ", "  "]) for _ in args[1:]]
    lay = {"spell": rng.choice([kind, kind, kind.lower(), kind.upper(), g_case(rng, kind)]),
           "indent": rng.choice(["", "", "  ", "    ", "\t"]), "sp": rng.choice(["", "", " "]),
           "lead": rng.choice(["", "", " "]) if args else rng.choice(["", " "]),
           "trail": rng.choice(["", "", " "]) if args else "",
           "q": q, "seps": seps, "semi": rng.choice(["", "", "", ";", " ;"]), "after": g_after(rng),
           "junk": g_junk(rng)}
    den_args = list(args)
    return {"kind": kind, "args": den_args, "pargs": pargs, "lay": lay}


def g_body(rng, allow_empty):
    if allow_empty and rng.random() < 0.5:
        return []
    return [g_cmd(rng) for _ in range(rng.choice([1, 1, 1, 2, 3]))]


def g_brace_lay(rng):
    return {"indent": rng.choice(["", "", "  ", "\t"]), "s0": rng.choice(["", " ", " ", "  "]),
            "s00": rng.choice([" ", " ", "  "]), "s1": rng.choice(["", " ", " ", "  "]),
            "s2": rng.choice(["", " ", " ", "  "]), "after": g_after(rng, 0.2), "junk": g_junk(rng)}


def g_items(rng, empties=False):
    flavors = FLAVORS[:rng.choice([1, 2, 3])]
    types = TYPES[:rng.choice([0, 1, 2])]
    items = []
    for _ in range(rng.choice([1, 2, 2, 3, 4, 5])):
        if rng.random() < 0.45:
            items.append(["cmd", g_cmd(rng)])
            continue
        n = rng.choice([1, 1, 2, 2, 3, 4, 5])
        brs = [{"cond": g_cond(rng, rng.choice([0, 1, 2, 3]), flavors, types),
                "body": g_body(rng, empties), "lay": g_brace_lay(rng)} for _ in range(n)]
        els = {"body": g_body(rng, empties), "lay": g_brace_lay(rng)} if rng.random() < 0.55 else None
        items.append(["chain", brs, els, g_brace_lay(rng)])
    return items


def envs_for(rng, items):
    """every mentioned flavor x every mentioned type (and no type), one unmentioned flavor / type"""
    fls, tys = set(), set()

    def walk(c):
        if c[0] == "atom":
            (fls if c[1] == "FLAVOR" else tys).add(c[3])
        elif c[0] == "paren":
            walk(c[1])
        else:
            walk(c[2])
            walk(c[3])
    for it in items:
        if it[0] == "chain":
            for br in it[1]:
                walk(br["cond"])
    fl = sorted(fls) + [OTHER_FLAVOR]
    ty = [[]] + [[t] for t in sorted(tys)] + [[OTHER_TYPE]]
    if len(tys) > 1:
        ty.append(sorted(tys))
    out = [[f, t] for f in fl for t in ty]
    if len(out) > 8:
        out = rng.sample(out, 8)
    return out


def canonical_layout(items):
    """the same items printed in the plainest layout (used by the shrinker)"""
    def ccond(c):
        if c[0] == "atom":
            return ["atom", c[1], c[2], c[3], {"sp": c[1], "q": "", "s1": 1, "s2": 1}]
        if c[0] == "paren":
            return ["paren", ccond(c[1]), {"s1": 0, "s2": 0}]
        return ["bin", c[1], ccond(c[2]), ccond(c[3]), {"s1": 1, "s2": 1}]

    def ccmd(c):
        q = [bool(i > 0 and ((" " in a) or ("," in a) or a == "")) for i, a in enumerate(c["args"])]
        return {"kind": c["kind"], "args": c["args"], "pargs": c["pargs"],
                "lay": {"spell": c["kind"], "indent": "", "sp": "", "lead": "", "trail": "", "q": q,
                        "seps": [", "] * max(0, len(c["pargs"]) - 1), "semi": "", "after": "", "junk": []}}
    bl = {"indent": "", "s0": " ", "s00": " ", "s1": " ", "s2": " ", "after": "", "junk": []}
    out = []
    for it in items:
        if it[0] == "cmd":
            out.append(["cmd", ccmd(it[1])])
        else:
            out.append(["chain", [{"cond": ccond(b["cond"]), "body": [ccmd(c) for c in b["body"]], "lay": dict(bl)}
                                  for b in it[1]],
                        None if it[2] is None else {"body": [ccmd(c) for c in it[2]["body"]], "lay": dict(bl)},
                        dict(bl)])
    return out


# ---- legacy files: every line kind Table._rewrite recognises, in every position its state machine allows
#
# The grammar (what a legacy table file is, independently of the rewriter):
#   file      := top* newgroup* ign*
#   top       := ign* (command | if-chain | oldgroup)
#   oldgroup  := "Group:" (ign* "Flavor = F")+ ign* "Common:" (ign* command)* ign* "End:"
#   newgroup  := (ign* "Flavor = F")+ (ign* command)+            up to the next Flavor= line or the end of the file
#   ign       := blank / comment | "Action = setup" | "Qualifiers = \"\"" | "File = Table"
#              | "Product = P"  (once a File= line has been seen)
# with any letter case of the key words, any blanks around = and a trailing comment.  The lines called ign carry
# no meaning (the documentation of the old format: they "are always the same"); a group applies exactly when the
# flavor is one of those its Flavor= lines list (old form: Flavor = ANY lists every flavor).
# An if-chain cannot stand inside a group (blocks do not nest), so chains and old groups come before the first
# new-style group, whose body runs to the next Flavor= line.

LEG_FLAVORS = FLAVORS + ["Darwin", "Linux+2", "sun4.x"]


def g_ign(rng, st, classic=None):
    """one ignorable line; st["old"] says whether a File= line has been printed before"""
    ind = rng.choice(["", "", "  ", "   ", "\t"])
    aft = g_after(rng, 0.15)
    r = rng.random()
    if classic is not None:
        return ind + classic
    if r < 0.33:
        core = rng.choice(['Qualifiers = ""', 'Qualifiers=""', 'QUALIFIERS = ""', 'qualifiers  =  ""', 'Qualifiers =""'])
    elif r < 0.63:
        core = rng.choice(["Action = setup", "Action=setup", "ACTION = SETUP", "action =Setup", "Action= setup"])
    elif r < 0.73:
        core = rng.choice(["File = Table", "FILE=TABLE", "file = table", "File=Table"])
        st["old"] = True
    elif r < 0.83 and st["old"]:
        core = rng.choice(["Product = foo", "PRODUCT=foo", "product = foo", "Product =bar_2"])
    else:
        return rng.choice(["", "   ", "# comment", "   # Flavor = Linux", "\t", "# Common:"])
    return ind + core + aft


def g_igns(rng, st, p, classic=None):
    out = []
    if classic is not None:
        return [g_ign(rng, st, classic)]
    while rng.random() < p:
        out.append(g_ign(rng, st))
    return out


def g_kw(rng, word):
    return (rng.choice(["", "", "  ", "\t"]) + rng.choice([word, word, word.upper(), word.lower(), g_case(rng, word)]) +
            g_after(rng, 0.15))


def g_flavor_line(rng, f):
    return (rng.choice(["", "", "  ", "\t"]) +
            rng.choice(["Flavor=%s", "Flavor = %s", "FLAVOR=%s", "flavor =%s", "Flavor= %s", "FLAVOR  =  %s"]) % f +
            g_after(rng, 0.15))


def g_plain_cmd(rng):
    """a command whose own layout carries no junk line (the slots of the legacy grammar provide those)"""
    c = g_cmd(rng)
    c["lay"]["junk"] = []
    return c


def g_legacy(rng):
    st = {"old": False}
    classic = rng.random() < 0.25        # the customary layout: Qualifiers = "" after every Flavor=, Action = setup
    p = rng.choice([0.0, 0.25, 0.45])    # how often an ignorable line is put into a slot
    mode = rng.choice(["new", "new", "old", "mixed", "mixed"])
    header = rng.random() < 0.35
    top, groups = [], []
    first_pre = []
    if header:
        first_pre = [rng.choice(["File = Table", "FILE = Table", "File=table"])]
        st["old"] = True
        if rng.random() < 0.7:
            first_pre.append(rng.choice(["Product = foo", "PRODUCT=foo", "  Product = foo # the name"]))

    def flavors(n, old_form):
        names = rng.sample(LEG_FLAVORS, n)
        if old_form and rng.random() < 0.06:
            names[rng.randrange(n)] = rng.choice(["ANY", "any", "Any"])
        out = []
        for k, f in enumerate(names):
            # slot before a Flavor= line: for k > 0 it lies between two Flavor= lines of one group
            if classic and k > 0:
                pre = g_igns(rng, st, p, 'Qualifiers = ""')
            else:
                pre = g_igns(rng, st, p)
            out.append({"pre": pre, "spell": g_flavor_line(rng, f), "name": f})
        return out

    def body(nmin):
        out = []
        for k in range(rng.choice([nmin, 1, 1, 2, 3])):
            if classic and k == 0:
                pre = g_igns(rng, st, p, 'Qualifiers = ""') + g_igns(rng, st, p, "Action = setup")
            else:
                pre = g_igns(rng, st, p)
            out.append({"pre": pre, "cmd": g_plain_cmd(rng)})
        return out

    ntop = rng.choice([0, 1, 2]) if mode == "new" else rng.choice([1, 2, 3, 4])
    for _ in range(ntop):
        r = rng.random()
        pre = g_igns(rng, st, p)
        if mode == "new" or r < 0.35:
            top.append({"k": "cmd", "pre": pre, "cmd": g_plain_cmd(rng)})
        elif r < 0.5:
            it = [i for i in g_items(rng) if i[0] == "chain"][:1]
            if it:
                top.append({"k": "chain", "pre": pre, "item": it[0]})
            else:
                top.append({"k": "cmd", "pre": pre, "cmd": g_plain_cmd(rng)})
        else:
            g = {"k": "old", "pre": pre, "group": g_kw(rng, "Group:")}
            g["flavors"] = flavors(rng.choice([1, 2, 2, 3]), True)
            g["pre_common"] = g_igns(rng, st, p, 'Qualifiers = ""' if classic else None)
            g["common"] = g_kw(rng, "Common:")
            g["body"] = body(0)
            g["pre_end"] = g_igns(rng, st, p)
            g["end"] = g_kw(rng, "End:")
            top.append(g)
    if mode != "old":
        for _ in range(rng.choice([1, 1, 2, 3])):
            g = {"flavors": flavors(rng.choice([1, 2, 2, 3]), False)}
            g["body"] = body(1)
            groups.append(g)
    tail = g_igns(rng, st, p)
    a = {"v": 2, "top": top, "groups": groups, "tail": tail}
    slots = leg_first_slot(a)
    slots[0:0] = first_pre
    return a


def leg_first_slot(a):
    """the list of ignorable lines that is printed first"""
    if a["top"]:
        return a["top"][0]["pre"]
    if a["groups"]:
        return a["groups"][0]["flavors"][0]["pre"]
    return a["tail"]


def pr_legacy(a):
    if "style" in a:
        return pr_legacy_v1(a)
    L = []

    def cmdl(c):
        return c["lay"]["junk"] + [pr_cmd(c)]
    for e in a["top"]:
        L += e["pre"]
        if e["k"] == "cmd":
            L += cmdl(e["cmd"])
        elif e["k"] == "chain":
            L += pr_items([e["item"]]).split("\n")[:-1]
        else:
            L.append(e["group"])
            for f in e["flavors"]:
                L += f["pre"] + [f["spell"]]
            L += e["pre_common"] + [e["common"]]
            for b in e["body"]:
                L += b["pre"] + cmdl(b["cmd"])
            L += e["pre_end"] + [e["end"]]
    for g in a["groups"]:
        for f in g["flavors"]:
            L += f["pre"] + [f["spell"]]
        for b in g["body"]:
            L += b["pre"] + cmdl(b["cmd"])
    L += a["tail"]
    return "\n".join(L) + "\n"


def den_legacy(a, fl, ty):
    """unconditional commands and chains as in any table; a group applies exactly when the flavor is one of those it
    lists (old form: or it lists ANY); the ignorable lines mean nothing"""
    if "style" in a:
        return den_legacy_v1(a, fl, ty)
    out = []
    for e in a["top"]:
        if e["k"] == "cmd":
            out.append(den_cmd(e["cmd"]))
        elif e["k"] == "chain":
            out += den_items([e["item"]], fl, ty)
        else:
            names = [f["name"] for f in e["flavors"]]
            if fl in names or any(n.lower() == "any" for n in names):
                out += [den_cmd(b["cmd"]) for b in e["body"]]
    for g in a["groups"]:
        if fl in [f["name"] for f in g["flavors"]]:
            out += [den_cmd(b["cmd"]) for b in g["body"]]
    return out


def leg_envs(a):
    """every flavor mentioned and one that is not, with and without a setup type"""
    fls = []
    for g in [e for e in a.get("top", []) if e["k"] == "old"] + a.get("groups", []):
        fls += [f["name"] for f in g["flavors"] if f["name"].lower() != "any"]
    for e in a.get("top", []):
        if e["k"] == "chain":
            fls += FLAVORS
    fls = sorted(set(fls)) + [OTHER_FLAVOR]
    return [[f, t] for k, f in enumerate(fls) for t in (([], ["build"]) if len(fls) <= 4 else ([[], ["build"]][k % 2],))]


def leg_shape(a):
    """histogram key: which group forms occur and where ignorable / archaic lines stand"""
    if "style" in a:
        return "legacy/v1/%s/groups=%d" % (a["style"], len(a["groups"]))
    olds = [e for e in a["top"] if e["k"] == "old"]
    tags = set()

    def kinds(pre, where):
        for l in pre:
            t = l.strip().lower()
            if not t or t.startswith("#"):
                continue
            tags.add(t.split("=")[0].strip()[:4] + "@" + where)
    for e in a["top"]:
        kinds(e["pre"], "top")
        if e["k"] == "old":
            for k, f in enumerate(e["flavors"]):
                kinds(f["pre"], "Group" if k == 0 else "Group-flavors")
                if f["name"].lower() == "any":
                    tags.add("ANY")
            kinds(e["pre_common"], "Group-flavors")
            for b in e["body"]:
                kinds(b["pre"], "Common")
            kinds(e["pre_end"], "Common")
    for n, g in enumerate(a["groups"]):
        for k, f in enumerate(g["flavors"]):
            kinds(f["pre"], ("top" if n == 0 else "body") if k == 0 else "between-flavors")
        for k, b in enumerate(g["body"]):
            kinds(b["pre"], "after-flavors" if k == 0 else "body")
    kinds(a["tail"], "end")
    form = ("mixed" if olds and a["groups"] else "old" if olds else "new" if a["groups"] else "plain")
    nfl = max([len(g["flavors"]) for g in olds + a["groups"]] or [0])
    where = sorted(set(t.split("@")[1] for t in tags if "@" in t))
    return "legacy/%s/flavors<=%d/ign:%s%s" % (form, nfl, "+".join(where) or "none", "/ANY" if "ANY" in tags else "")


def leg_line_kinds(a):
    """finer counters: (line kind, position) pairs present in the file"""
    out = set()

    def kinds(pre, where):
        for l in pre:
            t = l.strip().lower()
            if not t or t.startswith("#"):
                out.add("junk@" + where)
            else:
                out.add(t.split("=")[0].strip() + "@" + where)
    if "style" in a:
        return out
    for e in a["top"]:
        kinds(e["pre"], "top")
        if e["k"] == "old":
            for k, f in enumerate(e["flavors"]):
                kinds(f["pre"], "after-Group:" if k == 0 else "between-Group-flavors")
            kinds(e["pre_common"], "before-Common:")
            for b in e["body"]:
                kinds(b["pre"], "after-Common:")
            kinds(e["pre_end"], "after-Common:")
    for n, g in enumerate(a["groups"]):
        for k, f in enumerate(g["flavors"]):
            kinds(f["pre"], ("top" if n == 0 else "group-body") if k == 0 else "between-flavors")
        for k, b in enumerate(g["body"]):
            kinds(b["pre"], "after-flavors" if k == 0 else "group-body")
    kinds(a["tail"], "end")
    return out


def leg_has_any(a):
    return "style" not in a and any(f["name"].lower() == "any" for e in a["top"] if e["k"] == "old" for f in e["flavors"])


def leg_plain(a):
    """the same file with every command and key word in the plainest layout (used by the shrinker)"""
    import copy
    a = copy.deepcopy(a)

    def pc(c):
        return canonical_layout([["cmd", c]])[0][1]
    for e in a["top"]:
        if e["k"] == "cmd":
            e["cmd"] = pc(e["cmd"])
        elif e["k"] == "chain":
            e["item"] = canonical_layout([e["item"]])[0]
        else:
            e["group"], e["common"], e["end"] = "Group:", "Common:", "End:"
            for f in e["flavors"]:
                f["spell"] = "Flavor = " + f["name"]
            for b in e["body"]:
                b["cmd"] = pc(b["cmd"])
    for g in a["groups"]:
        for f in g["flavors"]:
            f["spell"] = "Flavor = " + f["name"]
        for b in g["body"]:
            b["cmd"] = pc(b["cmd"])
    return a


def leg_shrink_candidates(a):
    import copy

    def slots(x):
        for e in x["top"]:
            yield e["pre"]
            if e["k"] == "old":
                for f in e["flavors"]:
                    yield f["pre"]
                yield e["pre_common"]
                for b in e["body"]:
                    yield b["pre"]
                yield e["pre_end"]
        for g in x["groups"]:
            for f in g["flavors"]:
                yield f["pre"]
            for b in g["body"]:
                yield b["pre"]
        yield x["tail"]
    # whole elements (their ignorable lines with them)
    for i in range(len(a["top"])):
        n = copy.deepcopy(a)
        del n["top"][i]
        yield n
    for i in range(len(a["groups"])):
        n = copy.deepcopy(a)
        del n["groups"][i]
        yield n
    # every ignorable line at once, then slot by slot, then line by line (a Product= line needs its File= line:
    # candidates that are no longer in the grammar are refused by leg_in_grammar)
    if sum(1 for s in slots(a) if s) > 1:
        n = copy.deepcopy(a)
        for s in slots(n):
            del s[:]
        yield n
    for k, s in enumerate(slots(a)):
        if s:
            n = copy.deepcopy(a)
            del list(slots(n))[k][:]
            yield n
    for k, s in enumerate(slots(a)):
        for j in range(len(s)):
            if len(s) > 1:
                n = copy.deepcopy(a)
                del list(slots(n))[k][j]
                yield n
    for i, e in enumerate(a["top"]):
        if e["k"] == "chain":
            for cand in _shrink_candidates([e["item"]]):
                if len(cand) == 1:
                    n = copy.deepcopy(a)
                    n["top"][i]["item"] = cand[0]
                    yield n
    # flavors and body commands
    gs = [("top", i) for i, e in enumerate(a["top"]) if e["k"] == "old"] + [("groups", i) for i in range(len(a["groups"]))]
    for where, i in gs:
        g = a[where][i]
        for j in range(len(g["flavors"])):
            if len(g["flavors"]) > 1:
                n = copy.deepcopy(a)
                fl = n[where][i]["flavors"]
                if j + 1 < len(fl):
                    fl[j + 1]["pre"] = fl[j]["pre"] + fl[j + 1]["pre"]
                del fl[j]
                yield n
        for j in range(len(g["body"])):
            if len(g["body"]) > (1 if where == "groups" else 0):
                n = copy.deepcopy(a)
                bd = n[where][i]["body"]
                if j + 1 < len(bd):
                    bd[j + 1]["pre"] = bd[j]["pre"] + bd[j + 1]["pre"]
                del bd[j]
                yield n


def leg_in_grammar(a):
    """Product= lines only after a File= line; every new-style group has a command"""
    old = False
    for l in pr_legacy(a).split("\n"):
        t = l.strip().lower()
        if t.startswith("file"):
            old = True
        if t.startswith("product") and not old:
            return False
    return all(g["body"] for g in a["groups"])


# the first form of the legacy stream (kept so that older replay files still run)

def pr_legacy_v1(a):
    lines = []
    for c in a["pre"]:
        lines += c["lay"]["junk"] + [pr_cmd(c)]
    for g in a["groups"]:
        if a["style"] == "old":
            lines.append("Group:")
        lines += g["spell"]
        if a["style"] == "old":
            lines.append("Common:")
        for c in g["body"]:
            lines += c["lay"]["junk"] + [pr_cmd(c)]
        if a["style"] == "old":
            lines.append("End:")
            for c in g["between"]:
                lines += c["lay"]["junk"] + [pr_cmd(c)]
    return "\n".join(lines) + "\n"


def den_legacy_v1(a, fl, ty):
    out = [den_cmd(c) for c in a["pre"]]
    for g in a["groups"]:
        if fl in g["flavors"]:
            out += [den_cmd(c) for c in g["body"]]
        out += [den_cmd(c) for c in g["between"]]
    return out


# ---- malformed stream

MAL_LINES = ["}", "} else {", "} else if (FLAVOR == Linux64) {", "if (FLAVOR == Linux) {", "envSet(A)", "envSet()",
             "envPrepend(PATH)", "envAppend(P, a, b, c)", "envUnset(A, B)", "envUnset()", "fooBar(x)", "setupRequired",
             "envSet", "print", "prodDir", "hello world", "} ELSE {", "}elseif(TYPE==build){", "} else { # c",
             "} else {  ", "envUnset(FOO)", "envUnset(FOO_DIR)", "sourceRequired(x)", "setupRequired(bar -f Linux 1.0)",
             "envSet(A, \"\")", "envSet(A, \"\" , \"a b\")", "print(a \\\"b c\\\" d)", "print(\"a b\", \" \", c)",
             "print(\"whole string, quoted\")", "envSet(A, b) ; ", "envSet(A, b) x", "if (FLAVOR == Linux64) { envSet(A, b) }",
             "Flavor = Linux64", "Flavor=Linux", "Group:", "Common:", "End:", "Flavor = ANY", "File = Table",
             "File = Version", "Product = foo", "Action = setup", "Action = current", "Qualifiers = \"\"",
             "Qualifiers = \"x\"", "envSet(D, ${PROD_DIR}/x${UPS_DB})", "if (FLAVOR == Linux64 {", "if FLAVOR == Linux64 {",
             "if (TYPE) {", "if (FLAVOR TYPE) {", "if ((FLAVOR == Linux64) {", "if (FLAVOR == Linux64)) {", "if () {",
             "if (True) {", "if (False || FLAVOR != Linux) {", "if (!(FLAVOR == Linux64)) {", "if (not FLAVOR == Linux64) {",
             "if (FLAVOR == Linux64 or TYPE == build) {", "if (FLAVOR == Linux64 and TYPE == build) {",
             "if (1 == 01 && FLAVOR == Linux64) {", "if (FLAVOR == Linux64 TYPE) {", "IF (flavor == Linux64) {",
             "print(x\ty)", "envSet(A,\tb)", "   ", "print(a)) ;", "print((a)", "envSet(A, 'b c')",
             # escaped and unescaped quotes, inside and outside the documented grammar
             "envSet(G, \\\"hello\\\")", "addAlias(runit, run \\\"$@\\\")", "envSet(A, \\\"b c\\\")",
             "print(\\\"a\\\", \\\"b\\\")", "print(\"\\\"\", \\\")", "print(a\"b c\"d)", "print(\"a\" \"b\")",
             "print(\"a\\\")", "print(a\\\\\"b)", "print(\"a\"b)", "print(\\\"a b\", c)", "print(\"a b\\\", c\")",
             "print(\"\\\"a, b\\\"\")", "envAppend(C, \\\"-Wall\\\", \" \")", "print(\\\"\\\")", "print(\\a\\)",
             "print(\"\\\"x\\\"\")", "addAlias(foo, source `${PRODUCT_DIR}/bin/eups_setup setup \\\"$@\\\"`;);"]


def g_malformed(rng):
    items = g_items(rng, empties=rng.random() < 0.3)
    lines = pr_items(items).split("\n")[:-1]
    for _ in range(rng.choice([1, 1, 2, 3])):
        r = rng.random()
        if r < 0.55 or not lines:
            lines.insert(rng.randrange(len(lines) + 1), rng.choice(MAL_LINES))
        elif r < 0.8:
            del lines[rng.randrange(len(lines))]
        else:
            i = rng.randrange(len(lines))
            lines.insert(i, lines[i])
    if rng.random() < 0.1:
        lines = [rng.choice(MAL_LINES) for _ in range(rng.choice([1, 2, 3, 4]))]
    text = "\n".join(lines) + ("\n" if rng.random() < 0.9 else "")
    envs = [[f, t] for f in FLAVORS[:2] + [OTHER_FLAVOR] for t in ([], ["build"])]
    return {"stream": "malformed", "text": text, "envs": rng.sample(envs, 3)}


COND_TOKS = ["FLAVOR", "flavor", "TYPE", "Type", "==", "!=", "||", "&&", "(", ")", "Linux64", "build", "True", "False",
             "1", "01", "1_0", "+1", "!", "not", "or", "and", "'x'", '"y z"', "EOF", "Darwin", "x.y+z", "|", "&", "===", "-"]


def g_condcase(rng):
    r = rng.random()
    if r < 0.5:
        text = pr_cond(g_cond(rng, rng.choice([1, 2, 3]), FLAVORS, TYPES))
        if rng.random() < 0.4:        # damage it
            i = rng.randrange(len(text) + 1)
            text = text[:i] + rng.choice(COND_TOKS + [" "]) + text[i + rng.choice([0, 0, 1, 3]):]
    else:
        text = "".join(rng.choice(COND_TOKS) + rng.choice(["", " ", " ", "  "]) for _ in range(rng.choice([1, 2, 3, 4, 5, 7, 9])))
    return {"stream": "cond", "text": text, "flavor": rng.choice(FLAVORS + [OTHER_FLAVOR]),
            "types": rng.choice([[], ["build"], ["build", "exact"], [OTHER_TYPE]])}


# ---- argument texts

ARG_BAD = set("#\\\n\r\x01\x02\x03")
PYSPACE = set(" \t\n\r\x0b\x0c\x1c\x1d\x1e\x1f")


def classify_argtext(t):
    """The documented argument grammar, stated independently of eups and of the model:

        text   := blanks [ bare ( sep value )* ] blanks          blanks = spaces
        value  := bare | quote qchar+ quote                      the first value is bare
        bare   := bchar+
        sep    := spaces with at most one comma, not empty
        bchar  := backslash quote (denotes a quote) | any character but blank, comma, quote, BAD
        qchar  := backslash quote (denotes a quote) | space | comma | any character but other blanks, quote, BAD
        BAD    := hash, backslash, line ends, the characters 1-3, anything not ASCII

    Returns ("inside", values) with the values the text denotes, or ("outside", reason): nothing is claimed
    about such a text (the model and eups are still compared on it)."""
    n = len(t)
    if any(ord(ch) > 126 for ch in t):
        return ("outside", "not-ascii")
    i = 0
    while i < n and t[i] == " ":
        i += 1
    if i == n:
        return ("inside", [])
    vals = []
    while True:
        v = ""
        if t[i] == '"':
            if not vals:
                return ("outside", "quoted-first-value")
            i += 1
            while True:
                if i >= n:
                    return ("outside", "unbalanced-quote")
                ch = t[i]
                if ch == '"':
                    i += 1
                    break
                if ch == "\\":
                    if t[i + 1:i + 2] == '"':
                        v += '"'
                        i += 2
                        continue
                    return ("outside", "backslash")
                if ch in ARG_BAD or (ch in PYSPACE and ch != " "):
                    return ("outside", "character")
                v += ch
                i += 1
            if v == "":
                return ("outside", "empty-quoted-value")
            if i < n and t[i] not in " ,":
                return ("outside", "text-after-closing-quote")
        else:
            while i < n and t[i] not in " ,":
                ch = t[i]
                if ch == '"':
                    return ("outside", "unescaped-quote-in-word")
                if ch == "\\":
                    if t[i + 1:i + 2] == '"':
                        v += '"'
                        i += 2
                        continue
                    return ("outside", "backslash")
                if ch in ARG_BAD or ch in PYSPACE:
                    return ("outside", "character")
                v += ch
                i += 1
            if v == "":
                return ("outside", "empty-value")
        vals.append(v)
        j, commas = i, 0
        while j < n and t[j] in " ,":
            commas += t[j] == ","
            j += 1
        if j == n:
            return ("outside", "trailing-comma") if commas else ("inside", vals)
        if commas > 1:
            return ("outside", "empty-value")
        i = j


ARG_CHARS = ["a", "b", "x", "$@", "-D", "=", "/", ".", "`", ";", "(", ")", "'", "{", "}", "1"]
ARG_SOUP = ['\\"', '\\"', '\\"', '"', '"', " ", " ", ",", ", ", "\\", "\\\\", "\t", "a", "b c", "$@", "x", "-D=", ";", ")", "(",
            "`", "''", '""', '" "', "\x01"]
ARG_CMDS = ["print", "addAlias", "declareOptions"]


def g_argvalue(rng, quoted):
    n = rng.choice([1, 1, 2, 2, 3, 4])
    out = ""
    for _ in range(n):
        r = rng.random()
        if r < 0.4:
            out += '"'
        elif quoted and r < 0.6:
            out += rng.choice([" ", " ", ",", ", "])
        else:
            out += rng.choice(ARG_CHARS)
    return out


def g_argtext(rng):
    """half: an argument list of the grammar, printed (quotes at the ends of words, alone, next to separators);
    half: a soup"""
    cmd = rng.choice(ARG_CMDS)
    if rng.random() < 0.55:
        vals = [rng.choice(["A", "name", g_argvalue(rng, False)])]
        t = rng.choice(["", "", " "]) + esc(vals[0])
        for _ in range(rng.choice([0, 1, 1, 2, 3])):
            q = rng.random() < 0.45
            v = g_argvalue(rng, q)
            vals.append(v)
            t += rng.choice([", ", ",", " ", " , ", "  "]) + ('"' + esc(v) + '"' if q else esc(v))
        t += rng.choice(["", "", " "])
    else:
        t = "".join(rng.choice(ARG_SOUP) for _ in range(rng.choice([1, 2, 3, 4, 5, 6, 8])))
    return argtext_case(cmd, t)


def argtext_case(cmd, t):
    return {"stream": "argtext", "cmd": cmd, "arg": t, "text": "%s(%s)\n" % (cmd, t), "envs": [["Linux64", []]]}


def arg_shape(vals, t):
    """where the quotes of the values stand (for the evidence histogram)"""
    tags = set()
    for k, v in enumerate(vals):
        if '"' not in v:
            continue
        quoted = ('"' + esc(v) + '"') in t and k > 0 and ((" " in v) or ("," in v))
        if quoted:
            tags.add("dq-in-quoted")
        elif len(v) > 1 and v[0] == '"' and v[-1] == '"':
            tags.add("dq-both-ends")
        elif v[0] == '"' or v[-1] == '"':
            tags.add("dq-one-end")
        else:
            tags.add("dq-middle")
    return "+".join(sorted(tags)) or "no-dq"


# ------------------------------------------------------------------ model side

def table_lines(c):
    return ["\t".join(["table", FX, enc(c.get("top", TOP)), enc(fl), enc_list(",", ty), enc(c["text"])])
            for fl, ty in c["envs"]]


def parse_actions(s):
    out = []
    if s == "":
        return out
    for a in s.split("|"):
        cmd, args, extra = a.split(":")
        ex = {}
        for kv in common.dec_list(",", extra, lambda x: x):
            k, _, v = kv.partition("=")
            ex[dec(k)] = (v == "1")
        out.append([dec(cmd), common.dec_list(",", args), ex])
    return out


def model_table_result(line):
    f = line.split("\t")
    if f[0] == "ok":
        return {"actions": parse_actions(f[1] if len(f) > 1 else "")}
    if f[0] == "err":
        return {"err": f[1]}
    return {"err": "DRIVER:" + line}


def model_blocks_result(line):
    f = line.split("\t")
    if f[0] == "err":
        return {"err": f[1]}
    if f[0] != "ok":
        return {"err": "DRIVER:" + line}
    out = []
    s = f[1] if len(f) > 1 else ""
    for l in (s.split("&") if s else []):
        row = []
        for e in l.split(";"):
            row.append(["L", dec(e[1:])] if e[0] == "L" else ["B", parse_actions(e[1:])])
        out.append(row)
    return {"blocks": out}


def model_value(line):
    f = line.split("\t")
    if f[0] == "err":
        return {"err": f[1]}
    if f[0] != "ok":
        return {"err": "DRIVER:" + line}
    t, _, v = f[1].partition(":")
    if t == "S":
        return {"v": ["S", dec(v)]}
    if t == "I":
        return {"v": ["I", int(v)]}
    if t == "B":
        return {"v": ["B", v == "1"]}
    return {"v": ["L", common.dec_list(",", v)]}


# ------------------------------------------------------------------ implementation side (runs in a child)

def _errclass(e):
    n = type(e).__name__
    if n in ("BadTableContent",):
        return "BadTable"
    if n == "RuntimeError":
        return "Undefined" if str(e).startswith("Environment variable") else "Refused"
    return "Crash"


def _impl_setup():
    common.import_eups()
    import eups.utils as U
    null = open(os.devnull, "w")
    U.stderr = U.stdwarn = U.stdinfo = U.stdok = null


def _impl_table(text, top, envs, d, want_blocks=False):
    import types as _t
    from eups.table import Table
    path = os.path.join(d, "t.table")
    with open(path, "w", newline="") as f:
        f.write(text)
    res = {"per_env": []}
    try:
        t = Table(path, topProduct=_t.SimpleNamespace(name=top), addDefaultProduct=False)
    except Exception as e:  # noqa
        res["read_err"] = _errclass(e)
        res["per_env"] = [{"err": res["read_err"]} for _ in envs]
        if want_blocks:
            res["blocks"] = {"err": res["read_err"]}
        return res
    if want_blocks:
        res["blocks"] = {"blocks": [[["L", x] if isinstance(x, str) else
                                     ["B", [[a.cmd, list(a.args), dict(a.extra)] for a in x]] for x in l]
                                    for l in t._actions]}
    for fl, ty in envs:
        try:
            acts = t.actions(fl, list(ty))
            res["per_env"].append({"actions": [[a.cmd, list(a.args), dict(a.extra)] for a in acts]})
        except Exception as e:  # noqa
            res["per_env"].append({"err": _errclass(e)})
    return res


def impl_batch(cases):
    _impl_setup()
    from eups.VersionParser import VersionParser
    d = common.scratch_dir()
    out = []
    try:
        for c in cases:
            if c["stream"] == "cond":
                try:
                    p = VersionParser(c["text"])
                    p.define("flavor", c["flavor"])
                    if c["types"]:
                        p.define("type", list(c["types"]))
                    v = p.eval()
                    if isinstance(v, bool):
                        out.append({"v": ["B", v]})
                    elif isinstance(v, int):
                        out.append({"v": ["I", v]})
                    elif isinstance(v, str):
                        out.append({"v": ["S", v]})
                    elif isinstance(v, list):
                        out.append({"v": ["L", list(v)]})
                    else:
                        out.append({"v": ["?", repr(v)]})
                except Exception as e:  # noqa
                    out.append({"err": _errclass(e)})
            else:
                out.append(_impl_table(c["text"], c.get("top", TOP), c["envs"], d, c["stream"] == "malformed"))
    finally:
        import shutil
        shutil.rmtree(d, ignore_errors=True)
    return out


# ------------------------------------------------------------------ oracle and shrinking

def oracle_table(c, impl):
    """list of (kind, env, expected, observed, what) where the property is false on the implementation"""
    bad = []
    for (fl, ty), r in zip(c["envs"], impl["per_env"]):
        exp = den_legacy(c["ast"], fl, ty) if c["stream"] == "legacy" else den_items(c["ast"], fl, ty)
        if r.get("actions") != exp:
            what = ("flavor %s type %s: the text denotes %s, eups gives %s" %
                    (fl, ",".join(ty) or "-", json.dumps(exp), json.dumps(r.get("actions", r))))
            if "actions" not in r:
                kind = "raised"                 # a well-formed table makes eups raise
            elif [a[0] for a in r["actions"]] == [a[0] for a in exp] and \
                    [a[2] for a in r["actions"]] == [a[2] for a in exp]:
                kind = "wrong-arguments"        # the right commands, not the arguments written
            else:
                kind = "wrong-branch"           # not the commands of the branches the text designates
            bad.append((kind, [fl, ty], exp, r, what))
    return bad


def _fails_like(items, envs, d, pred):
    """does the implementation violate the oracle on these items (in a way accepted by pred)?"""
    text = pr_items(items)
    impl = _impl_table(text, TOP, envs, d)
    c = {"ast": items, "envs": envs, "text": text}
    return any(pred(items) for _ in oracle_table(c, impl)[:1])


def shrink_in_child(arg):
    """greedy structural shrink of a failing table, keeping the class of the failure (empty branch or not)"""
    items, envs = arg
    _impl_setup()
    d = common.scratch_dir()
    try:
        cls = (has_empty_branch(items), has_else_trailing(items))
        pred = lambda its: (has_empty_branch(its), has_else_trailing(its)) == cls  # noqa
        if not _fails_like(items, envs, d, pred):
            return items, envs
        plain = canonical_layout(items)
        if _fails_like(plain, envs, d, pred):
            items = plain
        for fl_ty in envs:                      # one environment is enough
            if _fails_like(items, [fl_ty], d, pred):
                envs = [fl_ty]
                break
        changed = True
        while changed:
            changed = False
            for cand in _shrink_candidates(items):
                if _fails_like(cand, envs, d, pred):
                    items = cand
                    changed = True
                    break
        return items, envs
    finally:
        import shutil
        shutil.rmtree(d, ignore_errors=True)


def shrink_legacy_in_child(arg):
    """greedy structural shrink of a failing legacy file, keeping the kind of the failure"""
    a, envs, kind = arg
    _impl_setup()
    d = common.scratch_dir()

    def fails(x, ev):
        if not leg_in_grammar(x):
            return False
        text = pr_legacy(x)
        impl = _impl_table(text, TOP, ev, d)
        bad = oracle_table({"stream": "legacy", "ast": x, "envs": ev, "text": text}, impl)
        return bool(bad) and bad[0][0] == kind
    try:
        if not fails(a, envs):
            return a, envs
        for fl_ty in envs:
            if fails(a, [fl_ty]):
                envs = [fl_ty]
                break
        plain = leg_plain(a)
        if fails(plain, envs):
            a = plain
        changed, rounds = True, 0
        while changed and rounds < 400:         # every candidate is strictly smaller; the bound is a safety net
            changed = False
            rounds += 1
            for cand in leg_shrink_candidates(a):
                if fails(cand, envs):
                    a = cand
                    changed = True
                    break
        return a, envs
    finally:
        import shutil
        shutil.rmtree(d, ignore_errors=True)


def _shrink_candidates(items):
    import copy
    for i in range(len(items)):
        yield items[:i] + items[i + 1:]
    for i, it in enumerate(items):
        if it[0] != "chain":
            continue
        for j in range(len(it[1])):
            if len(it[1]) > 1:
                n = copy.deepcopy(items)
                del n[i][1][j]
                yield n
            for k in range(len(it[1][j]["body"])):
                n = copy.deepcopy(items)
                del n[i][1][j]["body"][k]
                yield n
            c = it[1][j]["cond"]
            for sub in ([c[1]] if c[0] == "paren" else [c[2], c[3]] if c[0] == "bin" else []):
                n = copy.deepcopy(items)
                n[i][1][j]["cond"] = sub
                yield n
            if c[0] == "bin":
                for side in (2, 3):
                    s = c[side]
                    for sub in ([s[1]] if s[0] == "paren" else [s[2], s[3]] if s[0] == "bin" else []):
                        n = copy.deepcopy(items)
                        n[i][1][j]["cond"][side] = sub
                        yield n
        if it[2] is not None:
            n = copy.deepcopy(items)
            n[i][2] = None
            yield n
            for k in range(len(it[2]["body"])):
                n = copy.deepcopy(items)
                del n[i][2]["body"][k]
                yield n


# ------------------------------------------------------------------ known-finding matcher

def m_empty_branch(f):
    """D6: some branch of a chain contains no executable command (repaired by proposed_fixes/C11-empty-branch; the
    matcher only matters on a tree without that repair, and only while the finding is recorded as open)"""
    c = f["input"]
    return (f["kind"] in ("wrong-branch", "wrong-arguments") and c.get("stream") == "table"
            and has_empty_branch(c["ast"]))


# ------------------------------------------------------------------ driver

def compare(ctx, cases, shrink=True):
    lines, idx = [], []
    for n, c in enumerate(cases):
        if c["stream"] == "cond":
            lines.append("\t".join(["cond", FX, enc(c["flavor"]), enc_list(",", c["types"]), enc(c["text"])]))
            idx.append((n, "cond"))
        else:
            for l in table_lines(c):
                lines.append(l)
                idx.append((n, "env"))
            if c["stream"] == "malformed":
                lines.append("\t".join(["blocks", FX, enc(c.get("top", TOP)), enc(c["text"])]))
                idx.append((n, "blocks"))
            if c["stream"] == "argtext":
                lines.append("\t".join(["aclass", enc(c["arg"])]))
                idx.append((n, "aclass"))
    mout = ctx.model(lines)
    r = common.in_child(impl_batch, cases, timeout=600, environ=common.scrubbed_environ())
    if r[0] != "ok":
        raise RuntimeError("implementation driver failed: %r" % (r,))
    ires = r[1]
    per = {}
    for (n, what), l in zip(idx, mout):
        per.setdefault(n, {"env": [], "blocks": None, "cond": None, "aclass": None})
        if what == "aclass":
            f = l.split("\t")
            per[n]["aclass"] = (["inside", common.dec_list(",", f[1]) if len(f) > 1 else []] if f[0] == "in" else
                                ["outside"] if f[0] == "out" else ["DRIVER:" + l])
        elif what == "env":
            per[n]["env"].append(model_table_result(l))
        elif what == "blocks":
            per[n]["blocks"] = model_blocks_result(l)
        else:
            per[n]["cond"] = model_value(l)
    to_shrink = {}
    leg_to_shrink = {}
    for n, (c, i) in enumerate(zip(cases, ires)):
        m = per[n]
        if c["stream"] == "cond":
            ctx.count(1, key="cond/" + ("err" if "err" in i else i["v"][0]),
                      nontrivial=("cond", c["text"], c["flavor"], tuple(c["types"])) if len(c["text"]) > 8 else None)
            if m["cond"] != i:
                ctx.disagree(c, m["cond"], i, "VersionParser.eval")
            continue
        for k, (mm, ii) in enumerate(zip(m["env"], i["per_env"])):
            if c.get("nomodel"):                # Flavor = ANY: the operator =~ is outside the model; oracle only
                break
            if mm != ii:
                ctx.disagree({"stream": c["stream"], "text": c["text"], "env": c["envs"][k]}, mm, ii, "Table.actions")
        if c["stream"] == "malformed":
            ctx.count(len(c["envs"]), key="malformed/" + ("raise" if "read_err" in i else "accept"),
                      nontrivial=("mal", c["text"]))
            if m["blocks"] != i.get("blocks"):
                ctx.disagree({"stream": c["stream"], "text": c["text"]}, m["blocks"], i.get("blocks"), "Table._actions")
            else:
                ctx.traces_validated += 1
            continue
        if c["stream"] == "argtext":
            cls, val = classify_argtext(c["arg"])
            # the recogniser of the specification (args_class, Props/C11.v args_text_sound) and the one stated here
            # must agree on what is inside the grammar and on the values denoted
            if m["aclass"] != (["inside", val] if cls == "inside" else ["outside"]):
                ctx.disagree({"stream": "argtext", "arg": c["arg"]}, m["aclass"], [cls, val],
                             "args_class (Coq) vs classify_argtext (harness)")
            if cls == "outside":
                ctx.count(1, key="argtext/outside/" + val, nontrivial=("arg", c["text"]))
                continue
            ctx.count(1, key="argtext/inside/%s/n=%d" % (arg_shape(val, c["arg"]), min(len(val), 4)),
                      nontrivial=("arg", c["text"]) if val else None)
            exp = [[KINDS[c["cmd"]][0], list(val), dict(KINDS[c["cmd"]][1])]]
            obs = i["per_env"][0]
            if obs.get("actions") != exp:
                ctx.fail("wrong-arguments" if "actions" in obs else "raised",
                         {"stream": "argtext", "cmd": c["cmd"], "arg": c["arg"], "text": c["text"], "envs": c["envs"]},
                         expected=exp, observed=obs,
                         what="%s(%s): the text denotes the arguments %s, eups gives %s" %
                              (c["cmd"], c["arg"], json.dumps(val), json.dumps(obs.get("actions", obs))))
            continue
        if c["stream"] == "legacy":
            ctx.count(len(c["envs"]), key=leg_shape(c["ast"]), nontrivial=("leg", c["text"]))
            for t in leg_line_kinds(c["ast"]):
                ctx.bump("legacy-line/" + t)
            bad = oracle_table(c, i)
            if bad and shrink and ("legacy", bad[0][0]) not in leg_to_shrink and "style" not in c["ast"]:
                leg_to_shrink[("legacy", bad[0][0])] = (c, bad)
            for kind, env, exp, obs, what in bad[:1]:
                ctx.fail("legacy-" + kind, {"stream": "legacy", "text": c["text"], "envs": [env], "ast": c["ast"]},
                         expected=exp, observed=obs, what=what)
            continue
        nchain = sum(1 for it in c["ast"] if it[0] == "chain")
        shape = "table/items=%d/chains=%d/ops<=%d%s" % (len(c["ast"]), nchain, max_ops(c["ast"]),
                                                       "/empty-branch" if has_empty_branch(c["ast"]) else "")
        ctx.count(len(c["envs"]), key=shape, nontrivial=("tab", c["text"]) if nchain else None)
        bad = oracle_table(c, i)
        if bad:
            cls = (has_empty_branch(c["ast"]), has_else_trailing(c["ast"]), max_ops(c["ast"]) > 1)
            if shrink and cls not in to_shrink:
                to_shrink[cls] = (c, bad)
            for kind, env, exp, obs, what in bad[:1]:
                ctx.fail(kind, {"stream": "table", "text": c["text"], "envs": [env], "ast": c["ast"]},
                         expected=exp, observed=obs, what=what)
    # a small, readable witness per class of failure
    for cls, (c, bad) in to_shrink.items():
        rr = common.in_child(shrink_in_child, (c["ast"], [b[1] for b in bad][:2]), timeout=300,
                             environ=common.scrubbed_environ())
        if rr[0] != "ok":
            continue
        items, envs = rr[1]
        small = {"stream": "table", "text": pr_items(items), "envs": envs, "ast": items}
        rr2 = common.in_child(impl_batch, [small], environ=common.scrubbed_environ())
        if rr2[0] == "ok":
            for kind, env, exp, obs, what in oracle_table(small, rr2[1][0])[:1]:
                ctx.fail(kind, {"stream": "table", "text": small["text"], "envs": [env], "ast": items},
                         expected=exp, observed=obs, what="(shrunk) " + what)
    for cls, (c, bad) in leg_to_shrink.items():
        rr = common.in_child(shrink_legacy_in_child, (c["ast"], [b[1] for b in bad][:2], bad[0][0]), timeout=300,
                             environ=common.scrubbed_environ())
        if rr[0] != "ok":
            continue
        a, envs = rr[1]
        small = {"stream": "legacy", "text": pr_legacy(a), "envs": envs, "ast": a}
        rr2 = common.in_child(impl_batch, [small], environ=common.scrubbed_environ())
        if rr2[0] == "ok":
            for kind, env, exp, obs, what in oracle_table(small, rr2[1][0])[:1]:
                ctx.fail("legacy-" + kind, {"stream": "legacy", "text": small["text"], "envs": [env], "ast": a},
                         expected=exp, observed=obs, what="(shrunk) " + what)
    return ires


def corpus_cases():
    d = os.path.join(common.ROOT, "corpus", "C11")
    out = []
    if os.path.isdir(d):
        for f in sorted(os.listdir(d)):
            if f.endswith(".json"):
                out.append(json.load(open(os.path.join(d, f)))["input"])
    return out


def exhaustive_small(limit=None):
    """every chain of <= 3 branches (with and without else) whose conditions have <= 2 operators over two
    flavor atoms and one type atom, plainest layout"""
    def atom(v, l):
        return ["atom", v, "==", l, {"sp": v, "q": "", "s1": 1, "s2": 1}]
    atoms = [atom("FLAVOR", "Linux64"), atom("FLAVOR", "Linux"), atom("TYPE", "build")]
    lay = {"s1": 1, "s2": 1}
    conds = list(atoms)
    for o in ("||", "&&"):
        for a in atoms:
            for b in atoms:
                conds.append(["bin", o, a, b, lay])
    two = []
    for o1 in ("||", "&&"):
        for o2 in ("||", "&&"):
            for a in atoms:
                for b in atoms:
                    for c in atoms[:2]:
                        two.append(["bin", o2, ["bin", o1, a, b, lay], c, lay])
                        two.append(["bin", o2, a, ["bin", o1, b, c, lay], lay])
                        two.append(["bin", o2, ["paren", ["bin", o1, a, b, lay], {"s1": 0, "s2": 0}], c, lay])
    conds += two

    def cmd(v):
        return {"kind": "envSet", "args": ["V", v], "pargs": ["V", v],
                "lay": {"spell": "envSet", "indent": "", "sp": "", "lead": "", "trail": "", "q": [False, False],
                        "seps": [", "], "semi": "", "after": "", "junk": []}}
    bl = {"indent": "", "s0": " ", "s00": " ", "s1": " ", "s2": " ", "after": "", "junk": []}
    envs = [[f, t] for f in ("Linux64", "Linux", OTHER_FLAVOR) for t in ([], ["build"])]
    n = 0
    for c1 in conds:
        for rest in ([], [atoms[1]], [atoms[2], atoms[0]]):
            for els in (False, True):
                brs = [{"cond": c, "body": [cmd("b%d" % k)], "lay": dict(bl)} for k, c in enumerate([c1] + rest)]
                items = [["cmd", cmd("u")],
                         ["chain", brs, {"body": [cmd("e")], "lay": dict(bl)} if els else None, dict(bl)],
                         ["cmd", cmd("w")]]
                yield {"stream": "table", "ast": items, "text": pr_items(items), "envs": envs}
                n += 1
                if limit and n >= limit:
                    return


def setup(ctx):
    ctx.matchers["c11.empty_branch"] = m_empty_branch
    ctx.rule = ("items ASTs (command sequences of the 17 documented command spellings with valid arities; if / else if / "
                "else chains of 1-5 branches; conditions of depth <= 3 over 3 flavors and 2 types with ==, !=, ||, &&, "
                "parentheses) under a random layout (indentation, blank and comment lines, trailing comments, letter case "
                "of command names and of FLAVOR/TYPE, quoting of values and literals, separators, optional semicolon), "
                "each evaluated for every mentioned flavor x type plus one unmentioned flavor and type; plus a small-scope sweep "
                "in plain layout (chains of 1-3 branches, with and without else, whose first condition ranges over every "
                "condition with <= 2 operators over three atoms, all parenthesisations); plus legacy files of the whole old grammar "
                "(file := ign* top* newgroup* ign*; top := ign* (command | if-chain | Group: (ign* Flavor=F)+ ign* Common: "
                "(ign* command)* ign* End:); newgroup := (ign* Flavor=F)+ (ign* command)+; ign := blank/comment | Action = setup | "
                "Qualifiers = \"\" | File = Table | Product = P after a File= line; key words in any letter case, blanks around "
                "=, trailing comments; 1-3 of 6 flavor names per group, rarely Flavor = ANY in an old group; a quarter of the files "
                "in the customary layout: Qualifiers after every Flavor=, Action = setup before the body), every flavor "
                "listed and one that is not, with and without a type; oracle: commands and chains as in any table, the body of a "
                "group iff the flavor is listed (old form: or ANY is), ignorable lines mean nothing; histogram keys "
                "legacy/<form>/flavors<=n/ign:<slots> and legacy-line/<line kind>@<slot>; failing files are shrunk; "
                "plus a malformed stream (accept/raise, "
                "actions and parsed block structure) and a condition token-soup stream (python value of eval); "
                "values include the double quote, written backslash-quote: at both ends of a bare word, at one end, in the "
                "middle, inside quoted values next to blanks and commas, alone, and the addAlias example of the manual; "
                "plus an argument-text stream (argument lists of the grammar with quotes in every position, and soups of "
                "quotes, escaped quotes, backslashes, blanks, commas) classified inside / outside the documented argument "
                "grammar by classify_argtext: inside, the oracle is the list of values the text denotes; outside (counted "
                "under argtext/outside/<reason>), model and implementation are compared and nothing is claimed. "
                "A table case is non-trivial when it has at least one chain; distinct = distinct text")
    ctx.trusted_base = common.COMMON_TRUSTED + [
        "modelled, not verified: python re (the eight patterns of VersionParser.__init__, Table._read and Table._rewrite, "
        "on ASCII text), str.lower/upper/replace, int(), list +=, open() universal newlines",
        "harness/c11.py: printers of the AST, the python denotation den_items/den_cond/den_cmd used as oracle, "
        "classify_argtext (the argument grammar as a recogniser, oracle of the argtext stream)"]
    ctx.assumptions = [
        "table text is ASCII; no carriage returns; values contain no backslash, hash or control characters 1-3; a double "
        "quote of a value is written backslash-quote",
        "outside the argument grammar (classified, counted, compared, not claimed): a backslash that does not escape a "
        "quote, an unescaped quote inside a word or text glued to a closing quote, an unbalanced quote, the empty quoted "
        "value, a quoted first value, two commas in one separator or a trailing comma, blanks other than the space",
        "the first argument of a command is an unquoted identifier (a quoted first argument is read by eups as a quoted "
        "whole-argument string)",
        "unquoted arguments contain no blank or comma; quoted arguments are non-empty",
        "flavor names start with a letter and are not True/False/EOF/or/and/not/flavor/type; condition literals likewise",
        "operands ${VAR}, the operators =~ !~ < <= > >= (hence the old-style wildcard Flavor=ANY: oracle only, no model "
        "comparison) and expandEupsVariables are not modelled",
        "legacy files: a new-style group has at least one command; if-chains and Group: blocks stand before the first new-style "
        "group (blocks do not nest); Qualifiers = with a non-empty text, Action = other than setup, File = other than Table, "
        "Product = before any File= and the old synonyms ${PROD_DIR}... are compared with the model in the malformed stream, "
        "not claimed by the oracle",
        "the table is read with a topProduct (envUnset(PRODUCT_DIR) names its directory variable)",
        "theorems cover the operator spellings || and &&; the word forms or / and / not / ! are modelled and compared "
        "(malformed and condition streams) but not part of the proved grammar"]


def run(ctx):
    setup(ctx)
    ctx.check_theorems()
    if ctx.tier == "thorough":
        ctx.coqchk(["Eupsv.Props.C11"])
    cases = corpus_cases()
    n_tab = ctx.size(400, 20000)
    for k in range(n_tab):
        items = g_items(ctx.rng, empties=(k % 12 == 0))
        cases.append({"stream": "table", "ast": items, "text": pr_items(items), "envs": envs_for(ctx.rng, items)})
    cases += list(exhaustive_small(ctx.size(600, None)))
    for _ in range(ctx.size(700, 12000)):
        a = g_legacy(ctx.rng)
        c = {"stream": "legacy", "ast": a, "text": pr_legacy(a), "envs": leg_envs(a)}
        if leg_has_any(a):
            c["nomodel"] = True
        cases.append(c)
    for _ in range(ctx.size(400, 20000)):
        cases.append(g_malformed(ctx.rng))
    for _ in range(ctx.size(1500, 60000)):
        cases.append(g_condcase(ctx.rng))
    for _ in range(ctx.size(1500, 60000)):
        cases.append(g_argtext(ctx.rng))
    for c in cases[:3]:
        ctx.sample({"text": c["text"], "envs": c.get("envs")})
    ctx.exhaustive = False
    for i in range(0, len(cases), 5000):
        compare(ctx, cases[i:i + 5000], shrink=(i == 0))


def replay(ctx, path):
    setup(ctx)
    obj = json.load(open(path))
    c = obj["input"]
    if "ast" in c and c.get("stream") == "table":
        c = dict(c)
        c["text"] = c.get("text") or pr_items(c["ast"])
    compare(ctx, [c], shrink=False)
    bad = [f for f in ctx.failures if not ctx._known(f)] or ctx.disagreements
    print("replay %s: %s" % (path, "still fails" if bad else "passes"))
    return 1 if bad else 0
