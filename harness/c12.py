"""C12 - path-variable commands obey list algebra.

Model: coq/Model/PathAlg.v   Theorems: coq/Props/C12.v
Implementation: eups.table.Action.execute (envPrepend/envAppend/envSet/envUnset) with the real
Eups.setEnv/unsetEnv bound to a stub.
"""
import json
import os
import re

import common
from common import enc, enc_env, dec_env

DELIMS = [":", ";", ",", " ", "-"]
POOL = ["/a/bin", "/b/lib", "x", "/opt/p 1/bin", "a.b", "/u/c+d", "/a/bin/sub", "y", "/a"]
VARS = ["PATH", "MANPATH", "LD_LIBRARY_PATH", "FOO"]


# ------------------------------------------------------------------ generators

REF_PIECES = ["${OTHER}", "${HOME}", "${UNDEF}", "$?{OTHER}", "$?{UNDEF}", "${UNDEF-/dflt}", "${OTHER-/dflt}",
              "$?{UNDEF-/d2}", "/lit", "/x y", "+", "${UNDEF2}", "$?{UNDEF2}",
              "${EMPTY}", "$?{EMPTY}", "${EMPTY-/dflt}"]     # EMPTY is defined with the empty string as its value


def gen_ref_value(rng):
    """a value made of 1-3 pieces, references to defined / undefined / guarded / defaulted variables among them"""
    return "".join(rng.choice(REF_PIECES) for _ in range(rng.choice([1, 2, 2, 3])))


def gen_old(rng, d, pool):
    if rng.random() < 0.12:
        return None                     # variable not set
    n = rng.choice([0, 0, 1, 2, 3, 3, 4, 5, 8])
    els = [rng.choice(pool) for _ in range(n)]
    out = ""
    if rng.random() < 0.2:
        out += d
    for i, e in enumerate(els):
        out += e
        if i + 1 < len(els):
            out += d * (2 if rng.random() < 0.15 else 1)
    if rng.random() < 0.2:
        out += d
    return out


def gen_prepend(rng):
    d = rng.choice(DELIMS)
    pool = [p for p in POOL if d not in p] or ["x"]
    var = rng.choice(VARS)
    old = gen_old(rng, d, pool)
    env = {"HOME": "/root", "OTHER": "/o/ther", "EMPTY": ""}
    if old is not None:
        env[var] = old
    r = rng.random()
    shape = "plain"
    if r < 0.70:
        v = rng.choice(pool)
    elif r < 0.78:
        v = rng.choice(pool) + d + rng.choice(pool)     # a value holding two elements
        shape = "multi"
    elif r < 0.94:
        form = rng.choice(["${OTHER}/bin", "${UNDEF}/bin", "$?{UNDEF}/bin", "$?{OTHER}/lib",
                           "${UNDEF-/dflt}/x", "${OTHER-/dflt}/x", "$?{UNDEF-/d2}", "${UNDEF-}",
                           "$OTHER/x", "${OTHER", "$?x{OTHER}", "${HOME}/${OTHER}/z",
                           "${EMPTY}/bin", "$?{EMPTY}/e", "${EMPTY-/dflt}/x"])
        v = form if rng.random() < 0.4 else gen_ref_value(rng)
        shape = "dollar"
    else:
        v = rng.choice(["", d, d + d])
        shape = "degenerate"
    if shape != "degenerate":
        r2 = rng.random()
        if r2 < 0.12:
            v = d + v
            shape += "+lead"
        elif r2 < 0.24:
            v = v + d
            shape += "+trail"
        elif r2 < 0.28:
            v = d + v + d
            shape += "+both"
    append = rng.random() < 0.5
    fwd = rng.random() < 0.6
    return {"op": "prepend", "append": append, "fwd": fwd, "var": var, "value": v, "delim": d,
            "env": env, "shape": shape}


def implicit_delim(value, delim):
    """is the delimiter argument left out of the command (the table then relies on the default, a colon)?  Decided
    from the case itself so that the random stream of the generators is what it was"""
    return delim == ":" and len(value) % 2 == 0


def gen_set(rng):
    var = rng.choice(VARS)
    env = {"HOME": "/root", "OTHER": "/o/ther", "EMPTY": ""}
    if rng.random() < 0.5:
        env[var] = rng.choice(["preexisting", "", "/a:/b"])
    v = gen_ref_value(rng) if rng.random() < 0.5 else rng.choice(["plain", "/opt/p 1", "${OTHER}/bin", "${UNDEF}/bin", "$?{UNDEF}/bin", "${UNDEF-dflt}",
                    "a${HOME}b${OTHER}c", "", "${OTHER", "x${}y", "$?{OTHER}", "${HOME}${UNDEF2}",
                    "${EMPTY}/s", "$?{EMPTY}/s", "${EMPTY-dflt}"])
    return {"op": "set", "fwd": rng.random() < 0.65, "var": var, "value": v, "env": env, "shape": "set"}


def gen_seq(rng):
    """a table-like sequence of path actions, run forwards; and optionally the same sequence in reverse mode"""
    env = {"HOME": "/root", "OTHER": "/o/ther"}
    acts = []
    for _ in range(rng.choice([1, 2, 3, 4, 6])):
        r = rng.random()
        if r < 0.75:
            d = rng.choice([":", ":", ":", ";"])
            pool = [p for p in POOL if d not in p]
            var = rng.choice(VARS)
            if var not in env and rng.random() < 0.6:
                env[var] = gen_old(rng, d, pool) or ""
            acts.append(["P", rng.random() < 0.4, var, rng.choice(pool), d])
        elif r < 0.93:
            acts.append(["S", rng.choice(["V_A", "V_B"]), rng.choice(["val", "${OTHER}/x", "/p q"])])
        else:
            acts.append(["U", rng.choice(["V_A", "OTHER"])])
    return {"op": "seq", "fwd": rng.random() < 0.7, "acts": acts, "env": env, "shape": "seq"}


def gen_rt(rng):
    """setup then unsetup of the same actions (the unsetup half of C12): values may refer to defined variables"""
    env = {"HOME": "/root", "OTHER": "/o/ther"}
    acts = []
    used = set()
    for _ in range(rng.choice([1, 1, 2, 3])):
        if rng.random() < 0.8:
            d = rng.choice([":", ":", ";", ","])
            pool = [p for p in POOL if d not in p]
            var = rng.choice(VARS)
            if var not in env and rng.random() < 0.7:
                env[var] = gen_old(rng, d, pool) or ""
            v = rng.choice(["/fresh/%d" % len(acts), "${OTHER}/f%d" % len(acts), "${HOME}/${OTHER}/g%d" % len(acts),
                            "$?{OTHER}/h%d" % len(acts), "${UNDEF-/dflt}/i%d" % len(acts), rng.choice(pool)])
            acts.append(["P", rng.random() < 0.4, var, v, d])
        else:
            k = rng.choice(["V_A", "V_B"])
            acts.append(["S", k, rng.choice(["val", "${OTHER}/x"])])
    return {"op": "seqrt", "fwd": True, "acts": acts, "env": env, "shape": "rt"}


def to_line(c):
    if c["op"] == "prepend":
        return "\t".join(["prepend", "1" if c["append"] else "0", "1" if c["fwd"] else "0", enc(c["var"]),
                          enc(c["value"]) or "", enc(c["delim"]), enc_env(c["env"])])
    if c["op"] == "set":
        return "\t".join(["set", "1" if c["fwd"] else "0", enc(c["var"]), enc(c["value"]), enc_env(c["env"])])
    if c["op"] in ("seq", "seqrt"):
        acts = []
        for a in c["acts"]:
            if a[0] == "P":
                acts.append(",".join(["P", "1" if a[1] else "0", enc(a[2]), enc(a[3]), enc(a[4])]))
            elif a[0] == "S":
                acts.append(",".join(["S", enc(a[1]), enc(a[2])]))
            else:
                acts.append(",".join(["U", enc(a[1])]))
        return "\t".join([c["op"], "1" if c["fwd"] else "0", "|".join(acts), enc_env(c["env"])])
    raise ValueError(c)


def model_result(c, line):
    f = line.split("\t")
    if f[0] == "ok":
        return {"env": dict(dec_env(f[1] if len(f) > 1 else ""))}
    if f[0] == "skip":
        return {"env": dict(c["env"])}
    if f[0] == "err":
        return {"err": f[1]}
    return {"err": "DRIVER:" + line}


# ------------------------------------------------------------------ implementation

def impl_batch(cases):
    """runs in a forked child"""
    common.import_eups()
    from eups import table as T
    import eups as _e
    E = _e  # eups.Eups is the class (package re-export)

    class Stub(object):
        verbose = 0
        force = False
        oldEnviron = {}
        setEnv = E.Eups.setEnv
        unsetEnv = E.Eups.unsetEnv

    def act(a, fwd, stub):
        if a[0] == "P":
            # the delimiter argument is optional in a table (default ":"): left out for half of the colon cases
            args = [a[2], a[3]] if implicit_delim(a[3], a[4]) else [a[2], a[3], a[4]]
            T.Action("tbl", "envPrepend", args, {"append": bool(a[1])}).execute(stub, 1, fwd)
        elif a[0] == "S":
            T.Action("tbl", "envSet", [a[1], a[2]], {}).execute(stub, 1, fwd)
        else:
            T.Action("tbl", "envUnset", [a[1]], {}).execute(stub, 1, fwd)

    out = []
    for c in cases:
        os.environ.clear()
        os.environ.update(c["env"])
        stub = Stub()
        try:
            if c["op"] == "prepend":
                act(["P", c["append"], c["var"], c["value"], c["delim"]], c["fwd"], stub)
            elif c["op"] == "set":
                act(["S", c["var"], c["value"]], c["fwd"], stub)
            elif c["op"] == "seqrt":
                for a in c["acts"]:
                    act(a, True, stub)
                for a in c["acts"]:
                    act(a, False, stub)
            else:
                for a in c["acts"]:
                    act(a, c["fwd"], stub)
            out.append({"env": dict(os.environ)})
        except RuntimeError:
            out.append({"err": "Undefined"})
        except Exception as e:  # noqa
            out.append({"err": "Crash:" + type(e).__name__})
    return out


# ------------------------------------------------------------------ the property's own oracle

def elems(d, s):
    return [x for x in (s or "").split(d) if x]


def uniq(l):
    out = []
    for x in l:
        if x not in out:
            out.append(x)
    return out


def wf_elem(d, v):
    return v != "" and d not in v and "$" not in v and "\n" not in v and "\\" not in v


def spec_interp(env, v):
    return re.sub(r"\$\{([^}]*)\}", lambda m: env.get(m.group(1), m.group(0)), v)


def oracle(c, res):
    """None if the property holds on this case (or says nothing about it), else (kind, expected, what)"""
    if c["op"] == "prepend":
        d, v, env = c["delim"], c["value"], c["env"]
        old = env.get(c["var"], "")
        if "$" in old:
            return None
        lead = v.startswith(d)
        core = v[1:] if lead else v
        trail = core.endswith(d)
        core = core[:-1] if trail else core
        if "err" in res:
            if wf_elem(d, core):
                return ("error-on-wellformed", None, "a well-formed action raised %s" % res["err"])
            return None
        new = res["env"]
        others = {k: x for k, x in new.items() if k != c["var"]}
        if others != {k: x for k, x in env.items() if k != c["var"]}:
            return ("frame", None, "another variable changed")
        if not wf_elem(d, core):
            if not c["fwd"] or "$" not in core:
                return None
            x = spec_expand3(env, core)
            if x[0] == "skip":
                if new != env:
                    return ("guard", env, "action guarded by an undefined variable changed the environment")
                return None
            if x[0] == "raise" or not wf_elem(d, x[1]):
                return None
            core = x[1]                 # the element that must have been added
        got = elems(d, new.get(c["var"], ""))
        uo = uniq(elems(d, old))
        rest = [x for x in uo if x != core]
        if c["fwd"] and not c["append"]:
            exp = [core] + rest
            kind = "prepend-first"
        elif c["fwd"]:
            exp = rest + [core]
            kind = "append-last"
        else:
            exp = rest
            kind = "reverse-removes"
        if got != exp:
            return (kind, exp, "elements of the result are %r, the list laws give %r" % (got, exp))
        txt = new.get(c["var"], "")
        if c["fwd"]:
            if lead and not txt.startswith(d):
                return ("manpath-lead", None, "requested leading empty element is missing")
            if trail and not txt.endswith(d):
                return ("manpath-trail", None, "requested trailing empty element is missing")
        return None
    if c["op"] == "set":
        env = c["env"]
        if "err" in res:
            return None
        new = res["env"]
        if {k: x for k, x in new.items() if k != c["var"]} != {k: x for k, x in env.items() if k != c["var"]}:
            return ("frame", None, "another variable changed")
        v = c["value"]
        if not c["fwd"]:
            if c["var"] in new:
                return ("envset-reverse", None, "envSet in unsetup mode left the variable set")
            return None
        x = spec_expand3(env, v)
        if x[0] == "skip" or (x[0] == "ok" and x[1] == ""):
            if new != env:
                return ("guard", env, "envSet of a skipped/empty value changed the environment")
            return None
        if x[0] == "raise":
            return None                 # undefined unguarded reference: eups raises (compared with the model)
        exp = spec_interp(env, x[1])
        if new.get(c["var"]) != exp:
            return ("envset-exact", exp, "envSet gave %r" % new.get(c["var"]))
        return None
    if c["op"] == "seqrt":
        if "err" in res:
            return None
        env, new = c["env"], res["env"]
        for a in c["acts"]:
            if a[0] == "S":
                if a[1] not in env and a[1] in new:
                    return ("rt-envset", None, "variable %s set by envSet survives setup+unsetup" % a[1])
                continue
            _, _ap, var, v, d = a
            same_var = [b for b in c["acts"] if b[0] == "P" and b[2] == var]
            if any(b[4] != d for b in same_var):
                continue
            xs = [spec_expand(env, b[3]) for b in same_var]
            old = elems(d, env.get(var, ""))
            if any(x is None or d in x or x in old or "$" in x for x in xs) or "$" in env.get(var, ""):
                continue
            got = elems(d, new.get(var, ""))
            if got != uniq(old):
                return ("rt-restores", uniq(old), "setup then unsetup of %r on %s leaves %r, expected %r" %
                        ([b[3] for b in same_var], var, got, uniq(old)))
        return None
    return None


def spec_expand3(env, v):
    """("ok", text) | ("skip",) | ("raise",): references left to right, each by its own variable, else its
    default; the first one with neither decides - guarded ($?{..}) skips the line, unguarded is an error"""
    out = []
    pos = 0
    for m in re.finditer(r"\$(\?)?\{([^-}]*)(?:-([^}]+))?\}", v):
        out.append(v[pos:m.start()])
        pos = m.end()
        if m.group(2) in env:
            out.append(env[m.group(2)])
        elif m.group(3):
            out.append(m.group(3))
        elif m.group(1):
            return ("skip",)
        else:
            return ("raise",)
    out.append(v[pos:])
    return ("ok", "".join(out))


def spec_expand(env, v):
    """independent statement of reference expansion: each ${K} / $?{K} / ${K-default} by its own variable"""
    def f(m):
        opt, k, dflt = m.group(1), m.group(2), m.group(3)
        if k in env:
            return env[k]
        if dflt:
            return dflt
        raise KeyError(k)
    try:
        return re.sub(r"\$(\?)?\{([^-}]*)(?:-([^}]+))?\}", f, v)
    except KeyError:
        return None


# ------------------------------------------------------------------ driver

def compare(ctx, cases):
    lines = [to_line(c) for c in cases]
    mres = [model_result(c, l) for c, l in zip(cases, ctx.model(lines))]
    r = common.in_child(impl_batch, cases)
    if r[0] != "ok":
        raise RuntimeError("implementation driver failed: %r" % (r,))
    ires = r[1]
    for c, m, i in zip(cases, mres, ires):
        nontrivial = c["shape"] not in ("degenerate",) and (c["op"] != "prepend" or c["env"].get(c["var"]))
        ctx.count(1, key="%s/%s/%s" % (c["op"], c["shape"], "fwd" if c["fwd"] else "rev"),
                  nontrivial=to_line(c) if nontrivial else None)
        if c["op"] == "prepend" and implicit_delim(c["value"], c["delim"]):
            ctx.bump("delimiter-argument-left-out (default colon)")
        if "err" in i and i["err"].startswith("Crash"):
            ctx.bump("impl-crash")
        if m != i:
            ctx.disagree(c, m, i)
        o = oracle(c, i)
        if o is not None:
            ctx.fail(o[0], c, expected=o[1], observed=i, what=o[2])
    return mres, ires


def corpus_cases():
    d = os.path.join(common.ROOT, "corpus", "C12")
    out = []
    if os.path.isdir(d):
        for f in sorted(os.listdir(d)):
            if f.endswith(".json"):
                out.append(json.load(open(os.path.join(d, f)))["input"])
    return out


def run(ctx):
    ctx.rule = ("random envPrepend/envAppend/envSet actions (forward and unsetup mode) over 5 delimiters, "
                "old values of 0-8 pool elements with doubled/leading/trailing delimiters or unset, values plain / "
                "two-element / with $-references / degenerate, MANPATH flags; plus action sequences; a case is "
                "non-trivial when the variable had a non-empty prior value and the value is not degenerate; "
                "distinct = distinct encoded case")
    ctx.trusted_base = common.COMMON_TRUSTED + [
        "modelled, not verified: python re on the delimiter (single non-metacharacter delimiters only), "
        "str.split/join, os.environ as a dict; values free of backslashes and newlines"]
    ctx.assumptions = ["delimiters are single characters that are not regex metacharacters",
                       "values contain no backslash or newline (python re.sub replacement escapes, $ before a final newline)"]
    ctx.check_theorems()
    cases = corpus_cases()
    n = ctx.size(6000, 120000)
    for _ in range(n):
        r = ctx.rng.random()
        cases.append(gen_prepend(ctx.rng) if r < 0.6 else gen_set(ctx.rng) if r < 0.75 else
                     gen_seq(ctx.rng) if r < 0.87 else gen_rt(ctx.rng))
    for c in cases[:3]:
        ctx.sample(c)
    for i in range(0, len(cases), 20000):
        compare(ctx, cases[i:i + 20000])


def replay(ctx, path):
    obj = json.load(open(path))
    c = obj["input"]
    compare(ctx, [c])
    bad = [f for f in ctx.failures if not ctx._known(f)] or ctx.disagreements
    print("replay %s: %s" % (path, "still fails" if bad else "passes"))
    return 1 if bad else 0
