"""C12 - path-variable commands obey list algebra.

Model: coq/Model/PathAlg.v   Theorems: coq/Props/C12.v
Implementation: eups.table.Action.execute (envPrepend/envAppend/envSet/envUnset) with the real
Eups.setEnv/unsetEnv bound to a stub.
"""
import json
import os
import re

import common
from common import enc, enc_env, dec_env

DELIMS = [":", ";", ",", " ", "-"]
POOL = ["/a/bin", "/b/lib", "x", "/opt/p 1/bin", "a.b", "/u/c+d", "/a/bin/sub", "y", "/a"]
VARS = ["PATH", "MANPATH", "LD_LIBRARY_PATH", "FOO"]


# ------------------------------------------------------------------ generators

REF_PIECES = ["${OTHER}", "${HOME}", "${UNDEF}", "$?{OTHER}", "$?{UNDEF}", "${UNDEF-/dflt}", "${OTHER-/dflt}",
              "$?{UNDEF-/d2}", "/lit", "/x y", "+", "${UNDEF2}", "$?{UNDEF2}",
              "${EMPTY}", "$?{EMPTY}", "${EMPTY-/dflt}"]     # EMPTY is defined with the empty string as its value


def gen_ref_value(rng):
    """a value made of 1-3 pieces, references to defined / undefined / guarded / defaulted variables among them"""
    return "".join(rng.choice(REF_PIECES) for _ in range(rng.choice([1, 2, 2, 3])))


def gen_old(rng, d, pool):
    if rng.random() < 0.12:
        return None                     # variable not set
    n = rng.choice([0, 0, 1, 2, 3, 3, 4, 5, 8])
    els = [rng.choice(pool) for _ in range(n)]
    out = ""
    if rng.random() < 0.2:
        out += d
    for i, e in enumerate(els):
        out += e
        if i + 1 < len(els):
            out += d * (2 if rng.random() < 0.15 else 1)
    if rng.random() < 0.2:
        out += d
    return out


def gen_prepend(rng):
    d = rng.choice(DELIMS)
    pool = [p for p in POOL if d not in p] or ["x"]
    var = rng.choice(VARS)
    old = gen_old(rng, d, pool)
    env = {"HOME": "/root", "OTHER": "/o/ther", "EMPTY": ""}
    if old is not None:
        env[var] = old
    r = rng.random()
    shape = "plain"
    if r < 0.70:
        v = rng.choice(pool)
    elif r < 0.78:
        v = rng.choice(pool) + d + rng.choice(pool)     # a value holding two elements
        shape = "multi"
    elif r < 0.94:
        form = rng.choice(["${OTHER}/bin", "${UNDEF}/bin", "$?{UNDEF}/bin", "$?{OTHER}/lib",
                           "${UNDEF-/dflt}/x", "${OTHER-/dflt}/x", "$?{UNDEF-/d2}", "${UNDEF-}",
                           "$OTHER/x", "${OTHER", "$?x{OTHER}", "${HOME}/${OTHER}/z",
                           "${EMPTY}/bin", "$?{EMPTY}/e", "${EMPTY-/dflt}/x"])
        v = form if rng.random() < 0.4 else gen_ref_value(rng)
        shape = "dollar"
    else:
        v = rng.choice(["", d, d + d])
        shape = "degenerate"
    if shape != "degenerate":
        r2 = rng.random()
        if r2 < 0.12:
            v = d + v
            shape += "+lead"
        elif r2 < 0.24:
            v = v + d
            shape += "+trail"
        elif r2 < 0.28:
            v = d + v + d
            shape += "+both"
    append = rng.random() < 0.5
    fwd = rng.random() < 0.6
    return {"op": "prepend", "append": append, "fwd": fwd, "var": var, "value": v, "delim": d,
            "env": env, "shape": shape}


def implicit_delim(value, delim):
    """is the delimiter argument left out of the command (the table then relies on the default, a colon)?  Decided
    from the case itself so that the random stream of the generators is what it was"""
    return delim == ":" and len(value) % 2 == 0


def gen_set(rng):
    var = rng.choice(VARS)
    env = {"HOME": "/root", "OTHER": "/o/ther", "EMPTY": ""}
    if rng.random() < 0.5:
        env[var] = rng.choice(["preexisting", "", "/a:/b"])
    v = gen_ref_value(rng) if rng.random() < 0.5 else rng.choice(["plain", "/opt/p 1", "${OTHER}/bin", "${UNDEF}/bin", "$?{UNDEF}/bin", "${UNDEF-dflt}",
                    "a${HOME}b${OTHER}c", "", "${OTHER", "x${}y", "$?{OTHER}", "${HOME}${UNDEF2}",
                    "${EMPTY}/s", "$?{EMPTY}/s", "${EMPTY-dflt}"])
    return {"op": "set", "fwd": rng.random() < 0.65, "var": var, "value": v, "env": env, "shape": "set"}


def gen_seq(rng):
    """a table-like sequence of path actions, run forwards; and optionally the same sequence in reverse mode"""
    env = {"HOME": "/root", "OTHER": "/o/ther"}
    acts = []
    for _ in range(rng.choice([1, 2, 3, 4, 6])):
        r = rng.random()
        if r < 0.75:
            d = rng.choice([":", ":", ":", ";"])
            pool = [p for p in POOL if d not in p]
            var = rng.choice(VARS)
            if var not in env and rng.random() < 0.6:
                env[var] = gen_old(rng, d, pool) or ""
            acts.append(["P", rng.random() < 0.4, var, rng.choice(pool), d])
        elif r < 0.93:
            acts.append(["S", rng.choice(["V_A", "V_B"]), rng.choice(["val", "${OTHER}/x", "/p q"])])
        else:
            acts.append(["U", rng.choice(["V_A", "OTHER"])])
    return {"op": "seq", "fwd": rng.random() < 0.7, "acts": acts, "env": env, "shape": "seq"}


def gen_rt(rng):
    """setup then unsetup of the same actions (the unsetup half of C12): values may refer to defined variables"""
    env = {"HOME": "/root", "OTHER": "/o/ther"}
    acts = []
    used = set()
    for _ in range(rng.choice([1, 1, 2, 3])):
        if rng.random() < 0.8:
            d = rng.choice([":", ":", ";", ","])
            pool = [p for p in POOL if d not in p]
            var = rng.choice(VARS)
            if var not in env and rng.random() < 0.7:
                env[var] = gen_old(rng, d, pool) or ""
            v = rng.choice(["/fresh/%d" % len(acts), "${OTHER}/f%d" % len(acts), "${HOME}/${OTHER}/g%d" % len(acts),
                            "$?{OTHER}/h%d" % len(acts), "${UNDEF-/dflt}/i%d" % len(acts), rng.choice(pool)])
            acts.append(["P", rng.random() < 0.4, var, v, d])
        else:
            k = rng.choice(["V_A", "V_B"])
            acts.append(["S", k, rng.choice(["val", "${OTHER}/x"])])
    return {"op": "seqrt", "fwd": True, "acts": acts, "env": env, "shape": "rt"}


# ---- scripts: ONE table of Action objects, each executed any number of times (forwards / unsetup mode)
# while the list variable and the variables that the values refer to change in between

REF_KEYS = ["OTHER", "TOOLVER", "HOME"]
REF_VALUES = ["1.0", "2.0", "/o/ther", "/n/ew", "v 3", "a.b", "/root"]
REF_FORMS = ["/opt/${%s}/bin", "${%s}", "$?{%s}/lib", "-I/inc/$?{%s}/x", "${%s-/dflt}/x", "/p/${%s}/${HOME}", "$?{%s}",
             "${%s}/${%s}"]


def gen_ref_form(rng, key):
    f = rng.choice(REF_FORMS)
    return f % ((key,) * f.count("%s"))


def script_env0(rng, keys):
    env = {"HOME": "/root"}
    for k in keys:
        if k != "HOME" and rng.random() < 0.85:
            env[k] = rng.choice(REF_VALUES)
    return env


def gen_script_same(rng):
    """one action whose value refers to a variable: forwards, [unsetup], the variable changes (and the list is
    rolled back / inherited with the new element / left alone), unsetup, [forwards again], possibly twice over"""
    d = rng.choice([":", ":", ";", " ", ","])
    pool = [p for p in POOL if d not in p]
    var = rng.choice(VARS)
    key = rng.choice(REF_KEYS[:2])
    value = gen_ref_form(rng, key)
    if d in value:
        value = "/opt/${%s}/bin" % key
    r = rng.random()
    if r < 0.1:
        value = d + value
    elif r < 0.2:
        value = value + d
    env = script_env0(rng, [key])
    vals = [v for v in REF_VALUES if d not in v]
    env[key] = rng.choice(vals)
    old = gen_old(rng, d, pool)
    if old is not None:
        env[var] = old
    acts = [["P", rng.random() < 0.5, var, value, d]]
    steps = []
    cur = dict(env)                     # the referenced variables as the steps so far leave them
    for _round in range(rng.choice([1, 1, 2])):
        steps.append(["X", 0, True])
        if rng.random() < 0.4:
            steps.append(["X", 0, False])
        r = rng.random()
        if r < 0.8:
            new = rng.choice(vals)
            steps.append(["E", key, new])
        elif r < 0.9:
            steps.append(["D", key])
            new = None
        else:
            new = cur.get(key)
        r = rng.random()
        if r < 0.5 and new is not None:
            # the list as another shell (or a roll-back) left it: some old elements and the element of the new value
            core = value.strip(d)
            x = spec_expand(dict(cur, **{key: new}), core)
            els = [rng.choice(pool) for _ in range(rng.choice([0, 1, 2]))]
            if x is not None and d not in x and x:
                els.insert(rng.randrange(len(els) + 1), x)
                if rng.random() < 0.4:
                    x0 = spec_expand(cur, core)
                    if x0 and d not in x0:
                        els.insert(rng.randrange(len(els) + 1), x0)
            steps.append(["E", var, d.join(els)])
        elif r < 0.6:
            steps.append(["E", var, old or ""])
        steps.append(["X", 0, False])
        if rng.random() < 0.5:
            steps.append(["X", 0, True])
        if new is None:
            cur.pop(key, None)
        else:
            cur[key] = new
    return {"op": "script", "fwd": True, "acts": acts, "steps": steps, "env": env, "shape": "same-object"}


def gen_script_act(rng, var, d, pool, n):
    r = rng.random()
    if r < 0.45:
        v = rng.choice(pool)
    elif r < 0.9:
        v = gen_ref_form(rng, rng.choice(REF_KEYS))
        if d in v:
            v = rng.choice(pool)
    else:
        v = "/fresh/%d" % n
    return ["P", rng.random() < 0.5, var, v, d]


def gen_script_steps(rng, nacts, keys, vals, n):
    steps = []
    for _ in range(n):
        r = rng.random()
        if r < 0.68 or not keys:
            steps.append(["X", rng.randrange(nacts), rng.random() < 0.55])
        elif r < 0.93:
            steps.append(["E", rng.choice(keys), rng.choice(vals)])
        else:
            steps.append(["D", rng.choice(keys)])
    return steps


def gen_script_onevar(rng):
    """several different actions on ONE list variable, executed in any order and mode, any number of times,
    interleaved with changes of the variables their values refer to"""
    d = rng.choice([":", ":", ";", ","])
    pool = [p for p in POOL if d not in p]
    var = rng.choice(VARS)
    acts = [gen_script_act(rng, var, d, pool, i) for i in range(rng.choice([2, 2, 3, 4]))]
    env = script_env0(rng, REF_KEYS)
    old = gen_old(rng, d, pool)
    if old is not None:
        env[var] = old
    vals = [v for v in REF_VALUES if d not in v]
    steps = gen_script_steps(rng, len(acts), REF_KEYS[:2], vals, rng.choice([3, 4, 5, 6, 8]))
    return {"op": "script", "fwd": True, "acts": acts, "steps": steps, "env": env, "shape": "one-variable"}


def gen_script_mixed(rng):
    """a table of prepend/append/envSet/envUnset actions over several variables, the envSet values and the list
    values referring to variables that other steps (or other actions of the table) change"""
    acts = []
    env = script_env0(rng, REF_KEYS)
    for i in range(rng.choice([1, 2, 3, 4])):
        r = rng.random()
        if r < 0.55:
            d = rng.choice([":", ":", ";"])
            pool = [p for p in POOL if d not in p]
            var = rng.choice(VARS)
            if var not in env and rng.random() < 0.6:
                env[var] = gen_old(rng, d, pool) or ""
            acts.append(gen_script_act(rng, var, d, pool, i))
        elif r < 0.9:
            k = rng.choice(["V_A", "TOOLVER", "OTHER"])
            v = rng.choice(["val", "3.0", "/p q", gen_ref_form(rng, rng.choice(REF_KEYS)), "${V_A}/y"])
            acts.append(["S", k, v])
        else:
            acts.append(["U", rng.choice(["V_A", "OTHER"])])
    steps = gen_script_steps(rng, len(acts), REF_KEYS[:2] + ["V_A"], REF_VALUES, rng.choice([2, 3, 4, 5, 6, 8]))
    return {"op": "script", "fwd": True, "acts": acts, "steps": steps, "env": env, "shape": "mixed"}


def gen_script(rng):
    r = rng.random()
    return gen_script_same(rng) if r < 0.4 else gen_script_onevar(rng) if r < 0.75 else gen_script_mixed(rng)


def table_safe(c):
    """can the actions of the script be written as lines of a table file that the table reader gives back unchanged
    (no blanks, commas, quotes or parentheses in the arguments; envPrepend/envAppend only)?"""
    ok = re.compile(r"^[A-Za-z0-9_./${}?+:;-]+$")
    return bool(c["acts"]) and all(a[0] == "P" and ok.match(a[3]) and not a[3].startswith("#") and a[4] in ":;"
                                   for a in c["acts"])


def enc_act(a):
    if a[0] == "P":
        return ",".join(["P", "1" if a[1] else "0", enc(a[2]), enc(a[3]), enc(a[4])])
    if a[0] == "S":
        return ",".join(["S", enc(a[1]), enc(a[2])])
    return ",".join(["U", enc(a[1])])


def enc_step(st):
    if st[0] == "X":
        return "X,%d,%s" % (st[1], "1" if st[2] else "0")
    if st[0] == "E":
        return ",".join(["E", enc(st[1]), enc(st[2])])
    return ",".join(["D", enc(st[1])])


def to_line(c):
    if c["op"] == "script":
        return "\t".join(["script", "|".join(enc_act(a) for a in c["acts"]),
                          "|".join(enc_step(st) for st in c["steps"]), enc_env(c["env"])])
    if c["op"] == "prepend":
        return "\t".join(["prepend", "1" if c["append"] else "0", "1" if c["fwd"] else "0", enc(c["var"]),
                          enc(c["value"]) or "", enc(c["delim"]), enc_env(c["env"])])
    if c["op"] == "set":
        return "\t".join(["set", "1" if c["fwd"] else "0", enc(c["var"]), enc(c["value"]), enc_env(c["env"])])
    if c["op"] in ("seq", "seqrt"):
        acts = []
        for a in c["acts"]:
            if a[0] == "P":
                acts.append(",".join(["P", "1" if a[1] else "0", enc(a[2]), enc(a[3]), enc(a[4])]))
            elif a[0] == "S":
                acts.append(",".join(["S", enc(a[1]), enc(a[2])]))
            else:
                acts.append(",".join(["U", enc(a[1])]))
        return "\t".join([c["op"], "1" if c["fwd"] else "0", "|".join(acts), enc_env(c["env"])])
    raise ValueError(c)


def model_result(c, line):
    f = line.split("\t")
    if f[0] == "trace":
        return {"trace": [{"env": dict(dec_env(x[1:]))} if x[:1] == "o" else {"err": x[1:]} for x in f[1:]]}
    if f[0] == "ok":
        return {"env": dict(dec_env(f[1] if len(f) > 1 else ""))}
    if f[0] == "skip":
        return {"env": dict(c["env"])}
    if f[0] == "err":
        return {"err": f[1]}
    return {"err": "DRIVER:" + line}


# ------------------------------------------------------------------ implementation

def impl_batch(cases):
    """runs in a forked child"""
    common.import_eups()
    from eups import table as T
    import eups as _e
    E = _e  # eups.Eups is the class (package re-export)

    class Stub(object):
        verbose = 0
        force = False
        oldEnviron = {}
        setEnv = E.Eups.setEnv
        unsetEnv = E.Eups.unsetEnv

    def mk(a):
        """the Action object, built the way Table._read builds it"""
        if a[0] == "P":
            # the delimiter argument is optional in a table (default ":"): left out for half of the colon cases
            args = [a[2], a[3]] if implicit_delim(a[3], a[4]) else [a[2], a[3], a[4]]
            return T.Action("tbl", "envPrepend", args, {"append": bool(a[1])})
        elif a[0] == "S":
            return T.Action("tbl", "envSet", [a[1], a[2]], {})
        else:
            return T.Action("tbl", "envUnset", [a[1]], {})

    def act(a, fwd, stub):
        mk(a).execute(stub, 1, fwd)

    # (made before the cases wipe os.environ)
    scratch = [common.scratch_dir()] if any(c["op"] == "script" and table_safe(c) for c in cases) else []

    def load_table(c):
        """the actions as lines of a table file, read by the real table reader; the Table object stays loaded"""
        path = os.path.join(scratch[0], "script.table")
        with open(path, "w") as f:
            for a in c["acts"]:
                args = [a[2], a[3]] if implicit_delim(a[3], a[4]) else [a[2], a[3], a[4]]
                f.write("%s(%s)\n" % ("envAppend" if a[1] else "envPrepend", ", ".join(args)))
        return T.Table(path, addDefaultProduct=False)

    def run_script(c, stub, via_table=False):
        """the objects of the table are built ONCE (a table that stays loaded); every step's outcome is recorded.
        via_table: the objects are those a loaded Table hands out, asked for anew at every step as a setup does"""
        if via_table:
            os.environ.clear()
            os.environ.update(c["env"])
            tbl = load_table(c)
        else:
            objs = [mk(a) for a in c["acts"]]
        trace = []
        for st in c["steps"]:
            before = dict(os.environ)
            try:
                if st[0] == "X":
                    if via_table:
                        objs = tbl.actions("Linux")
                    if st[1] < len(objs):
                        objs[st[1]].execute(stub, 1, st[2])
                elif st[0] == "E":
                    os.environ[st[1]] = st[2]
                else:
                    os.environ.pop(st[1], None)
                trace.append({"env": dict(os.environ)})
            except RuntimeError:
                trace.append({"err": "Undefined"})
            except Exception as e:  # noqa
                trace.append({"err": "Crash:" + type(e).__name__})
            if "err" in trace[-1] and dict(os.environ) != before:
                trace[-1]["env-changed-by-failed-step"] = dict(os.environ)
        return trace

    out = []
    for c in cases:
        os.environ.clear()
        os.environ.update(c["env"])
        stub = Stub()
        try:
            if c["op"] == "script":
                r = {"trace": run_script(c, stub)}
                if table_safe(c):
                    r["trace_table"] = run_script(c, Stub(), via_table=True)
                out.append(r)
                continue
            if c["op"] == "prepend":
                act(["P", c["append"], c["var"], c["value"], c["delim"]], c["fwd"], stub)
            elif c["op"] == "set":
                act(["S", c["var"], c["value"]], c["fwd"], stub)
            elif c["op"] == "seqrt":
                for a in c["acts"]:
                    act(a, True, stub)
                for a in c["acts"]:
                    act(a, False, stub)
            else:
                for a in c["acts"]:
                    act(a, c["fwd"], stub)
            out.append({"env": dict(os.environ)})
        except RuntimeError:
            out.append({"err": "Undefined"})
        except Exception as e:  # noqa
            out.append({"err": "Crash:" + type(e).__name__})
    for d in scratch:
        import shutil
        shutil.rmtree(d, ignore_errors=True)
    return out


# ------------------------------------------------------------------ the property's own oracle

def elems(d, s):
    return [x for x in (s or "").split(d) if x]


def uniq(l):
    out = []
    for x in l:
        if x not in out:
            out.append(x)
    return out


def wf_elem(d, v):
    return v != "" and d not in v and "$" not in v and "\n" not in v and "\\" not in v


def spec_interp(env, v):
    return re.sub(r"\$\{([^}]*)\}", lambda m: env.get(m.group(1), m.group(0)), v)


def oracle(c, res):
    """None if the property holds on this case (or says nothing about it), else (kind, expected, what)"""
    if c["op"] == "prepend":
        d, v, env = c["delim"], c["value"], c["env"]
        old = env.get(c["var"], "")
        if "$" in old:
            return None
        lead = v.startswith(d)
        core = v[1:] if lead else v
        trail = core.endswith(d)
        core = core[:-1] if trail else core
        if "err" in res:
            if wf_elem(d, core):
                return ("error-on-wellformed", None, "a well-formed action raised %s" % res["err"])
            return None
        new = res["env"]
        others = {k: x for k, x in new.items() if k != c["var"]}
        if others != {k: x for k, x in env.items() if k != c["var"]}:
            return ("frame", None, "another variable changed")
        if not wf_elem(d, core):
            if "$" not in core:
                return None
            x = spec_expand3(env, core)
            if not c["fwd"]:
                # unsetup removes exactly the element the action would add (now, in this environment); the
                # property does not say what unsetup does when the action would add nothing
                if x[0] != "ok" or not wf_elem(d, x[1]):
                    return None
            elif x[0] == "skip":
                if new != env:
                    return ("guard", env, "action guarded by an undefined variable changed the environment")
                return None
            if x[0] == "raise" or not wf_elem(d, x[1]):
                return None
            core = x[1]                 # the element that must have been added
        got = elems(d, new.get(c["var"], ""))
        uo = uniq(elems(d, old))
        rest = [x for x in uo if x != core]
        if c["fwd"] and not c["append"]:
            exp = [core] + rest
            kind = "prepend-first"
        elif c["fwd"]:
            exp = rest + [core]
            kind = "append-last"
        else:
            exp = rest
            kind = "reverse-removes"
        if got != exp:
            return (kind, exp, "elements of the result are %r, the list laws give %r" % (got, exp))
        txt = new.get(c["var"], "")
        if c["fwd"]:
            if lead and not txt.startswith(d):
                return ("manpath-lead", None, "requested leading empty element is missing")
            if trail and not txt.endswith(d):
                return ("manpath-trail", None, "requested trailing empty element is missing")
        return None
    if c["op"] == "set":
        env = c["env"]
        if "err" in res:
            return None
        new = res["env"]
        if {k: x for k, x in new.items() if k != c["var"]} != {k: x for k, x in env.items() if k != c["var"]}:
            return ("frame", None, "another variable changed")
        v = c["value"]
        if not c["fwd"]:
            if c["var"] in new:
                return ("envset-reverse", None, "envSet in unsetup mode left the variable set")
            return None
        x = spec_expand3(env, v)
        if x[0] == "skip" or (x[0] == "ok" and x[1] == ""):
            if new != env:
                return ("guard", env, "envSet of a skipped/empty value changed the environment")
            return None
        if x[0] == "raise":
            return None                 # undefined unguarded reference: eups raises (compared with the model)
        exp = spec_interp(env, x[1])
        if new.get(c["var"]) != exp:
            return ("envset-exact", exp, "envSet gave %r" % new.get(c["var"]))
        return None
    if c["op"] == "seqrt":
        if "err" in res:
            return None
        env, new = c["env"], res["env"]
        for a in c["acts"]:
            if a[0] == "S":
                if a[1] not in env and a[1] in new:
                    return ("rt-envset", None, "variable %s set by envSet survives setup+unsetup" % a[1])
                continue
            _, _ap, var, v, d = a
            same_var = [b for b in c["acts"] if b[0] == "P" and b[2] == var]
            if any(b[4] != d for b in same_var):
                continue
            xs = [spec_expand(env, b[3]) for b in same_var]
            old = elems(d, env.get(var, ""))
            if any(x is None or d in x or x in old or "$" in x for x in xs) or "$" in env.get(var, ""):
                continue
            got = elems(d, new.get(var, ""))
            if got != uniq(old):
                return ("rt-restores", uniq(old), "setup then unsetup of %r on %s leaves %r, expected %r" %
                        ([b[3] for b in same_var], var, got, uniq(old)))
        return None
    return None


def oracle_script(c, res):
    """the property at every step of a script: whatever was executed before, an action executed now obeys the laws
    of a single action in the environment as it is now (first the value is read with the present values of the
    variables it refers to).  None, or (kind, the case cut after the failing step, expected, what)"""
    if "trace" not in res:
        return None
    cur = dict(c["env"])
    for n, (st, r) in enumerate(zip(c["steps"], res["trace"])):
        if st[0] == "X" and st[1] < len(c["acts"]):
            a = c["acts"][st[1]]
            sub = None
            if a[0] == "P":
                sub = {"op": "prepend", "append": a[1], "fwd": st[2], "var": a[2], "value": a[3], "delim": a[4],
                       "env": cur}
            elif a[0] == "S":
                sub = {"op": "set", "fwd": st[2], "var": a[1], "value": a[2], "env": cur}
            o = oracle(sub, r) if sub is not None else None
            if o is not None:
                times = sum(1 for p in c["steps"][:n] if p[0] == "X" and p[1] == st[1])
                cut = dict(c, steps=c["steps"][:n + 1])
                return ("script:" + o[0], cut, o[1],
                        "step %d (%s of action %d, executed %d times before, environment then %r): %s" %
                        (n, "setup" if st[2] else "unsetup", st[1], times, cur, o[2]))
        if "env" in r:
            cur = dict(r["env"])
    return None


def script_features(c):
    """what a script exercises (for the histogram): how often one object is executed, and executions of an object
    that was executed before and whose referenced variables (or list) changed in between"""
    last = {}
    changed = {}
    feats = set()
    nexec = {}
    for st in c["steps"]:
        if st[0] == "X":
            i = st[1]
            if i >= len(c["acts"]):
                continue
            nexec[i] = nexec.get(i, 0) + 1
            a = c["acts"][i]
            if i in last:
                text = a[3] if a[0] == "P" else a[2] if a[0] == "S" else ""
                refs = set(re.findall(r"\$\??\{([^-}]*)", text))
                what = "referenced-variable-changed" if refs & changed[i] else \
                       "list-changed" if a[0] == "P" and a[2] in changed[i] else "environment-unchanged"
                feats.add("same object again: %s then %s, %s" % ("setup" if last[i] else "unsetup",
                                                                 "setup" if st[2] else "unsetup", what))
            last[i] = st[2]
            changed[i] = set()
            for j in changed:
                if j != i and a[0] == "P":
                    changed[j].add(a[2])
                elif j != i and a[0] in ("S", "U"):
                    changed[j].add(a[1])
        else:
            for j in changed:
                changed[j].add(st[1])
    return feats, (max(nexec.values()) if nexec else 0)


def spec_expand3(env, v):
    """("ok", text) | ("skip",) | ("raise",): references left to right, each by its own variable, else its
    default; the first one with neither decides - guarded ($?{..}) skips the line, unguarded is an error"""
    out = []
    pos = 0
    for m in re.finditer(r"\$(\?)?\{([^-}]*)(?:-([^}]+))?\}", v):
        out.append(v[pos:m.start()])
        pos = m.end()
        if m.group(2) in env:
            out.append(env[m.group(2)])
        elif m.group(3):
            out.append(m.group(3))
        elif m.group(1):
            return ("skip",)
        else:
            return ("raise",)
    out.append(v[pos:])
    return ("ok", "".join(out))


def spec_expand(env, v):
    """independent statement of reference expansion: each ${K} / $?{K} / ${K-default} by its own variable"""
    def f(m):
        opt, k, dflt = m.group(1), m.group(2), m.group(3)
        if k in env:
            return env[k]
        if dflt:
            return dflt
        raise KeyError(k)
    try:
        return re.sub(r"\$(\?)?\{([^-}]*)(?:-([^}]+))?\}", f, v)
    except KeyError:
        return None


# ------------------------------------------------------------------ driver

def compare(ctx, cases):
    lines = [to_line(c) for c in cases]
    mres = [model_result(c, l) for c, l in zip(cases, ctx.model(lines))]
    r = common.in_child(impl_batch, cases)
    if r[0] != "ok":
        raise RuntimeError("implementation driver failed: %r" % (r,))
    ires = r[1]
    for c, m, i in zip(cases, mres, ires):
        if c["op"] == "script":
            feats, most = script_features(c)
            ctx.count(1, key="script/%s/one-object-executed-%s-times" % (c["shape"], most if most < 4 else "4+"),
                      nontrivial=to_line(c) if most > 1 else None)
            for f in sorted(feats):
                ctx.bump("script: " + f)
            ctx.traces_validated += 1
            ctx.bump("script steps compared", len(c["steps"]))
            runs = [("Action objects built once", i.get("trace", []) if "trace" in i else None)]
            if "trace_table" in i:
                ctx.bump("script: also through a loaded Table read from a table file")
                runs.append(("objects of a loaded Table", i["trace_table"]))
            for how, it in runs:
                if it is None:
                    ctx.disagree(c, m, i, where=how)
                    continue
                if any(r.get("err", "").startswith("Crash") for r in it):
                    ctx.bump("impl-crash")
                mt = m.get("trace", [])
                if mt != it:
                    k = next((n for n, (a, b) in enumerate(zip(mt, it)) if a != b), min(len(mt), len(it)))
                    ctx.disagree(dict(c, steps=c["steps"][:k + 1]), {"trace": mt[:k + 1]}, {"trace": it[:k + 1]},
                                 where="step %d, %s" % (k, how))
                o = oracle_script(c, {"trace": it})
                if o is not None:
                    ctx.fail(o[0], o[1], expected=o[2], observed={"trace": it[:len(o[1]["steps"])], "how": how},
                             what=o[3] + " [" + how + "]")
            continue
        nontrivial = c["shape"] not in ("degenerate",) and (c["op"] != "prepend" or c["env"].get(c["var"]))
        ctx.count(1, key="%s/%s/%s" % (c["op"], c["shape"], "fwd" if c["fwd"] else "rev"),
                  nontrivial=to_line(c) if nontrivial else None)
        if c["op"] == "prepend" and implicit_delim(c["value"], c["delim"]):
            ctx.bump("delimiter-argument-left-out (default colon)")
        if "err" in i and i["err"].startswith("Crash"):
            ctx.bump("impl-crash")
        if m != i:
            ctx.disagree(c, m, i)
        o = oracle(c, i)
        if o is not None:
            ctx.fail(o[0], c, expected=o[1], observed=i, what=o[2])
    return mres, ires


def corpus_cases():
    d = os.path.join(common.ROOT, "corpus", "C12")
    out = []
    if os.path.isdir(d):
        for f in sorted(os.listdir(d)):
            if f.endswith(".json"):
                out.append(json.load(open(os.path.join(d, f)))["input"])
    return out


def run(ctx):
    ctx.rule = ("random envPrepend/envAppend/envSet actions (forward and unsetup mode) over 5 delimiters, "
                "old values of 0-8 pool elements with doubled/leading/trailing delimiters or unset, values plain / "
                "two-element / with $-references / degenerate, MANPATH flags; plus action sequences; plus scripts: "
                "one table of Action objects built once, each executed any number of times forwards and in unsetup "
                "mode while the list and the referenced variables change in between (same-object / several actions "
                "on one variable / mixed tables), every step compared with the model and judged by the oracle in "
                "the environment of that step; a case is non-trivial when the variable had a non-empty prior value "
                "and the value is not degenerate (a script: when some object is executed more than once); "
                "distinct = distinct encoded case")
    ctx.trusted_base = common.COMMON_TRUSTED + [
        "modelled, not verified: python re on the delimiter (single non-metacharacter delimiters only), "
        "str.split/join, os.environ as a dict; values free of backslashes and newlines"]
    ctx.assumptions = ["delimiters are single characters that are not regex metacharacters",
                       "values contain no backslash or newline (python re.sub replacement escapes, $ before a final newline)"]
    ctx.check_theorems()
    cases = corpus_cases()
    n = ctx.size(6000, 120000)
    for _ in range(n):
        r = ctx.rng.random()
        cases.append(gen_prepend(ctx.rng) if r < 0.6 else gen_set(ctx.rng) if r < 0.75 else
                     gen_seq(ctx.rng) if r < 0.87 else gen_rt(ctx.rng))
    # scripts after everything else, so that the streams above are what they were
    for _ in range(ctx.size(4000, 60000)):
        cases.append(gen_script(ctx.rng))
    for c in cases[:3]:
        ctx.sample(c)
    for i in range(0, len(cases), 20000):
        compare(ctx, cases[i:i + 20000])


def replay(ctx, path):
    obj = json.load(open(path))
    c = obj["input"]
    compare(ctx, [c])
    bad = [f for f in ctx.failures if not ctx._known(f)] or ctx.disagreements
    print("replay %s: %s" % (path, "still fails" if bad else "passes"))
    return 1 if bad else 0
