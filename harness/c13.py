"""C13 - dependency listings are complete and ordered; uses is their inverse.

Model: coq/Model/Graph.v   Theorems: coq/Props/C13.v
Implementation: Eups.getDependentProducts(p, topological in {F,T}) for every declared product,
getDependentProducts(p, checkCycles=True), Eups.uses(x[, v]) for every target, on random product graphs
materialised as real stacks (harness/stackgen.py).  The components and layers that utils.topologicalSort
computes are captured through wrappers and compared with the model's.  The model follows the code with D2, D15
and D16 repaired (D16: proposed_fixes/C13-topological-depth-per-product); no open finding, no matcher.

The model takes resolved edges: for every table line the harness asks the real code what it denotes
(Action.processArgs + Eups.findProductFromVRO under the line's VRO, exactly as Table.dependencies does) and,
independently, computes the same from the generator's data (explicit version -> that version iff declared;
bare name -> the version tagged current); the two must agree.

Second family (harness/c13walk.py; coq/Model/DepWalk.v, DepWalkText.v): NO fed edges.  The model receives the world
(stacks, declarations per flavor, chain files, the TEXT of every table file) and the request, resolves every line
itself with the resolver of C03 and walks; compared with the real listing obtained the way eups list --dependencies
obtains it.  See the docstring of c13walk.

Third family (harness/c13seq.py; coq/Model/UsesSeq.v): sessions on ONE long-lived Eups instance - every listing and
every uses query, a change of the database made through that instance (assignTag, unassignTag, declare of a new
version, declare of a tag only, undeclare), every listing and query again, ... - and on a fresh instance at every step;
each step compared with the model run on the world current at that step, and the oracle evaluated on the real answers
of every step against the database read back from the files.  See the docstring of c13seq.
"""
import json
import os

import common
import stackgen
import c13walk
import c13build
import c13seq
from common import enc

# ------------------------------------------------------------------ implementation driver (in a child)

def _node(p):
    return [p.name, p.version]


def impl_one(spec):
    import shutil
    base = common.scratch_dir()
    try:
        stackgen.enter_stack(spec, base)
        return _impl_on_stack(spec)
    finally:
        shutil.rmtree(base, ignore_errors=True)


def _impl_on_stack(spec):
    e = stackgen.new_eups()
    out = observe(e, spec["queries"])
    # --- the consumers of the listing: the manifest of eups distrib and the command-line listing (c13build)
    out.update(c13build.impl_extra(e, spec))
    return out


def observe(e, queries, roots=None, plain=(0,)):
    """every listing and every uses query put to the instance e as it is now (harness/c13seq.py calls this several
    times on one instance).  roots: the declared (name, version) to list when the instance cannot enumerate them
    itself (Eups.findProducts reads the product cache only); plain: positions of the queries that are put through the
    two-argument call Eups.uses(x, v) as well as through the index Eups.uses() returns"""
    eups = common.import_eups()
    from eups import utils
    from eups.table import Action
    out = {"edges": {}, "list": {}, "topo": {}, "cyc": {}, "uses": {}, "captured": {}}
    if roots is None:
        prods = sorted(e.findProducts(), key=lambda p: (p.name, p.version))
    else:
        prods = [e.getProduct(n, v) for n, v in sorted(tuple(r) for r in roots)]
    out["declared"] = [[p.name, p.version, [str(t) for t in p.tags]] for p in prods]

    # --- what each table line denotes, asked of the real code
    for p in prods:
        rows = []
        tbl = p.getTable()
        for a in tbl.actions(e.flavor, setupType=e.setupType):
            if a.cmd != Action.setupRequired:
                continue
            vro, name, pdir, vers, versExpr, extra = a.processArgs(e)
            e.pushStack("vro", vro)
            q = utils.Quiet(e)
            try:
                try:
                    found, _why = e.findProductFromVRO(name, vers, versExpr)
                except Exception:  # ProductNotFound
                    found = None
            finally:
                del q
                e.popStack("vro")
            rows.append([name, vers, found.version if found else None, bool(a.extra["optional"])])
        out["edges"]["%s %s" % (p.name, p.version)] = rows

    # --- capture Tarjan's and topologicalSort's results
    cap = {}
    real_scc = utils.stronglyConnectedComponents
    real_topo = utils.topologicalSort

    def nd(x):
        return None if x is None else [x.name, x.version, x.flavor is not None]

    def scc_wrapper(graph):
        res = real_scc(graph)
        cap["graph"] = [[nd(k), sorted([nd(s) for s in v], key=repr)] for k, v in graph.items()]
        cap["comps"] = [[nd(x) for x in c] for c in res]
        return res

    def topo_wrapper(graph, verbose=False, checkCycles=False):
        cap["layers"] = []
        for layer in real_topo(graph, verbose=verbose, checkCycles=checkCycles):
            cap["layers"].append([nd(x) for x in layer])
            yield layer

    utils.stronglyConnectedComponents = scc_wrapper
    utils.topologicalSort = topo_wrapper
    try:
        for p in prods:
            key = "%s %s" % (p.name, p.version)
            for topo in (False, True):
                cap.clear()
                try:
                    r = e.getDependentProducts(p, topological=topo)
                    val = {"ok": [[q.name, q.version, bool(o), d, q.flavor is not None] for q, o, d in r]}
                except Exception as ex:  # noqa
                    val = {"exc": type(ex).__name__, "msg": str(ex)[:200]}
                out["topo" if topo else "list"][key] = val
                if topo:
                    out["captured"][key] = dict(cap)
            try:
                e.getDependentProducts(p, checkCycles=True)
                out["cyc"][key] = "pass"
            except RuntimeError as ex:
                out["cyc"][key] = "RuntimeError"
            except Exception as ex:  # noqa
                out["cyc"][key] = "exc:" + type(ex).__name__
    finally:
        utils.stronglyConnectedComponents = real_scc
        utils.topologicalSort = real_topo

    # --- uses: the index once (Eups.uses()), then every query through Eups.uses(x, v, usesInfo=index);
    #     the queries at the positions in plain (the first one) also through the plain two-argument call
    info = None
    try:
        info = e.uses()
        info_err = None
    except Exception as ex:  # noqa
        info_err = {"exc": type(ex).__name__, "msg": str(ex)[:200]}
    for qi, (x, v) in enumerate(queries):
        k = "%s %s" % (x, v)
        if info_err is not None:
            out["uses"][k] = info_err
            continue
        try:
            r = e.uses(x, v, usesInfo=info)
            val = {"ok": [[a, b, c.version, bool(c.optional), c.depth] for a, b, c in r]}
        except Exception as ex:  # noqa
            val = {"exc": type(ex).__name__, "msg": str(ex)[:200]}
        if qi in plain:
            try:
                r2 = e.uses(x, v)
                val2 = {"ok": [[a, b, c.version, bool(c.optional), c.depth] for a, b, c in r2]}
            except Exception as ex:  # noqa
                val2 = {"exc": type(ex).__name__, "msg": str(ex)[:200]}
            if val2 != val:
                val = {"exc": "InconsistentUses", "msg": "uses(x,v) %r but with usesInfo %r" % (val2, val)}
        out["uses"][k] = val
    return out


def impl_chunk(specs):
    res = []
    for s in specs:
        try:
            res.append(impl_one(s))
        except Exception as ex:  # noqa
            import traceback
            res.append({"child_error": [type(ex).__name__, str(ex)[:500], traceback.format_exc()[-1500:]]})
    return res


# ------------------------------------------------------------------ queries of a spec

def add_queries(spec):
    """every product name that is declared or mentioned, with no version, each declared version and each
    version text mentioned in a table"""
    names = {}
    for p in spec["products"]:
        names.setdefault(p["name"], set()).add(p["version"])
        for d in p["deps"]:
            names.setdefault(d["name"], set())
            if d.get("version") is not None:
                names[d["name"]].add(d["version"])
    names.setdefault("implicitProducts", set())
    qs = []
    for n in sorted(names):
        qs.append([n, None])
        for v in sorted(names[n]):
            qs.append([n, v])
    spec["queries"] = qs
    return spec


# ------------------------------------------------------------------ model side

def opt(v):
    return "N" if v is None else "S" + enc(v)


def unopt(s):
    return None if s == "N" else common.dec(s[1:])


def enc_world(spec, edges):
    prods = []
    for p in sorted(spec["products"], key=lambda p: (p["name"], p["version"])):
        rows = edges["%s %s" % (p["name"], p["version"])]
        es = ";".join("%s:%s:%s:%s" % (enc(n), opt(v), opt(r), "1" if o else "0") for n, v, r, o in rows)
        prods.append("%s,%s,%s" % (enc(p["name"]), enc(p["version"]), es))
    return "|".join(prods)


def dec_entries(s):
    out = []
    if s == "":
        return out
    for it in s.split(";"):
        n, v, r, o, d = it.split(":")
        out.append([common.dec(n), unopt(v), o == "1", int(d), r == "1"])
    return out


def dec_nodes(s, sep=","):
    out = []
    if s == "":
        return out
    for it in s.split(sep):
        n, v, r = it.split(":")
        out.append([common.dec(n), unopt(v), r == "1"])
    return out


def model_lines(spec, edges):
    return model_lines_on(spec, enc_world(spec, edges))


def model_lines_on(spec, w):
    """the listing / layering / uses requests for every declared product of spec on the encoded world w"""
    lines, meta = [], []
    for p in sorted(spec["products"], key=lambda p: (p["name"], p["version"])):
        for topo in (False, True):
            lines.append("\t".join(["deps", w, enc(p["name"]), enc(p["version"]), "1" if topo else "0"]))
            meta.append(("deps", p["name"], p["version"], topo))
        lines.append("\t".join(["topo", w, enc(p["name"]), enc(p["version"])]))
        meta.append(("topo", p["name"], p["version"], None))
    lines.append("\t".join(["uses", w, ";".join("%s:%s" % (enc(x), opt(v)) for x, v in spec["queries"])]))
    meta.append(("uses", None, None, None))
    return lines, meta


def model_decode(spec, meta, outs):
    m = {"list": {}, "topo": {}, "cyc": {}, "uses": {}, "captured": {}}
    for (op, n, v, topo), line in zip(meta, outs):
        f = line.split("\t")
        key = "%s %s" % (n, v)
        if op == "deps":
            val = {"ok": dec_entries(f[1] if len(f) > 1 else "")} if f[0] == "ok" else {"err": f[1] if len(f) > 1 else line}
            m["topo" if topo else "list"][key] = val
        elif op == "topo":
            if f[0] != "ok":
                m["captured"][key] = {"err": line}
                m["cyc"][key] = "err"
                continue
            g = []
            for it in (f[1].split(";") if f[1] else []):
                k, _, ss = it.partition(">")
                g.append([dec_nodes(k)[0], dec_nodes(ss)])
            comps = [dec_nodes(c) for c in (f[2].split(";") if f[2] else [])]
            if f[3].startswith("err="):
                layers = {"err": f[3][4:]}
            else:
                layers = [dec_nodes(c) for c in (f[3].split(";") if f[3] else [])]
            m["captured"][key] = {"graph": g, "comps": comps, "layers": layers, "partition_ok": f[4] == "1"}
            m["cyc"][key] = "pass" if f[5] == "pass" else ("RuntimeError" if f[5] in ("Refused", "Crash") else f[5])
        else:
            if f[0] != "ok":
                for x, vv in spec["queries"]:
                    m["uses"]["%s %s" % (x, vv)] = {"err": f[1] if len(f) > 1 else line}
                continue
            parts = f[1].split("|") if len(f) > 1 else []
            for (x, vv), ptxt in zip(spec["queries"], parts):
                if ptxt.startswith("ok="):
                    rows = []
                    for it in (ptxt[3:].split(";") if ptxt[3:] else []):
                        a, b, c, o, d = it.split(":")
                        rows.append([common.dec(a), common.dec(b), unopt(c), o == "1", int(d)])
                    m["uses"]["%s %s" % (x, vv)] = {"ok": rows}
                else:
                    m["uses"]["%s %s" % (x, vv)] = {"err": ptxt[4:]}
    return m


# ------------------------------------------------------------------ independent oracle (pure python)

def tup(x):
    return (x[0], x[1])


def ref_graph(spec, implicit=True):
    """node -> list of target nodes, from the generator's data alone; every declared product also has the
    silent optional dependency on the undeclared implicitProducts (a stub)"""
    res = stackgen.resolve(spec)
    g = {}
    for k, rows in res.items():
        g[k] = [(n, v) for (n, v, _ok, _o) in rows]
        if implicit:
            g[k].append(("implicitProducts", None))
    return g


def reach_plus(g, a):
    """nodes reachable from a by one or more edges"""
    seen, todo = set(), list(g.get(a, []))
    while todo:
        x = todo.pop()
        if x in seen:
            continue
        seen.add(x)
        todo.extend(g.get(x, []))
    return seen


def oracle(spec, impl):
    """list of (kind, focus, expected, observed, what) - statements of the property that are false of the
    implementation's answers"""
    bad = []
    g = ref_graph(spec)
    reach = {a: reach_plus(g, a) for a in g}
    listing_nodes = {}
    for a in sorted(g):
        key = "%s %s" % a
        closure = reach[a] - {a}
        for mode in ("list", "topo"):
            r = impl[mode].get(key)
            focus = {"root": list(a), "topological": mode == "topo"}
            if r is None or "ok" not in r:
                bad.append(("listing-error", focus, "a listing", r,
                            "getDependentProducts(%s, topological=%s) raised %s" % (key, mode == "topo", (r or {}).get("exc"))))
                continue
            got = set(tup(x) for x in r["ok"])
            if got != closure:
                bad.append(("closure", focus, sorted(closure, key=repr), sorted(got, key=repr),
                            "listing of %s: missing %s, extra %s" % (key, sorted(closure - got, key=repr),
                                                                    sorted(got - closure, key=repr))))
            if mode == "topo":
                listing_nodes[a] = got
                names = [tup(x) for x in r["ok"]]
                if len(names) != len(set(names)):
                    bad.append(("duplicates", focus, None, r["ok"], "topological listing of %s repeats a product" % key))
                depth = {tup(x): x[3] for x in r["ok"]}
                pos = {tup(x): i for i, x in enumerate(r["ok"])}
                depth[a] = 0
                pos[a] = -1
                for p in [a] + sorted(got & set(g), key=repr):
                    for q in g.get(p, []):
                        if q == p or q not in depth or p not in depth:
                            continue
                        if p in reach.get(q, set()):
                            continue                    # p and q lie on a common cycle: no order is possible
                        if not (depth[q] > depth[p] and pos[q] > pos[p]):
                            bad.append(("order", dict(focus, edge=[list(p), list(q)]), "depth(%s %s) > depth(%s %s)" % (q + p),
                                        {"depths": [depth[p], depth[q]], "listing": r["ok"]},
                                        "in the topological listing of %s, %s %s (depth %d) depends on %s %s (depth %d) "
                                        "which is not ordered after it" % (key, p[0], p[1], depth[p], q[0], q[1], depth[q])))
        # cycle reporting
        nodes = closure | {a}
        cyclic = any(x != y and x in reach.get(y, set()) and y in reach.get(x, set()) for x in nodes for y in nodes)
        c = impl["cyc"].get(key)
        focus = {"root": list(a), "checkCycles": True}
        if c is not None and c.startswith("exc:"):
            bad.append(("listing-error", focus, "pass or RuntimeError", c, "getDependentProducts(%s, checkCycles=True) raised %s" % (key, c[4:])))
        elif cyclic and c != "RuntimeError":
            bad.append(("cycle-not-reported", focus, "RuntimeError", c, "%s reaches a dependency cycle but checkCycles passed" % key))
        elif not cyclic and c != "pass":
            bad.append(("cycle-false-alarm", focus, "pass", c, "%s reaches no cycle but checkCycles gave %s" % (key, c)))
    # uses is the inverse of the listings
    for x, v in spec["queries"]:
        k = "%s %s" % (x, v)
        r = impl["uses"].get(k)
        focus = {"query": [x, v]}
        if r is None or "ok" not in r:
            bad.append(("uses-error", focus, "an answer", r, "uses(%s, %s) raised %s" % (x, v, (r or {}).get("exc"))))
            continue
        got = set((u[0], u[1]) for u in r["ok"])
        for src, kind in ((reach, "uses-inverse"), (listing_nodes, "uses-vs-listing")):
            exp = set()
            for y in g:
                tgt = src.get(y, set()) - {y}
                if any(t[0] == x and (v is None or t[1] == v) for t in tgt):
                    exp.add(y)
            if got != exp and not (kind == "uses-vs-listing" and len(listing_nodes) != len(g)):
                bad.append((kind, focus, sorted(exp), sorted(got),
                            "users of %s %s: missing %s, extra %s" % (x, v, sorted(exp - got), sorted(got - exp))))
                break
        # the version recorded for a user is a version that user really reaches
        for u in r["ok"]:
            if (x, u[2]) not in reach.get((u[0], u[1]), set()):
                bad.append(("uses-version", focus, None, u, "user %s %s is said to need %s %s which it does not reach" % (u[0], u[1], x, u[2])))
    return bad


def all_oracle(spec, impl):
    """oracle(...) plus the oracles of the consumers (manifest order, command-line listing)"""
    bad = oracle(spec, impl)
    g = ref_graph(spec)
    reach = {a: reach_plus(g, a) for a in g}
    for i, p in enumerate(c13build.roots_of(spec)):
        root = (p["name"], p["version"])
        key = "%s %s" % root
        if key in impl.get("mani", {}):
            bad += c13build.oracle_manifest(spec, g, reach, root, impl["mani"][key])
        for var in c13build.variants_for(i):
            cv = impl.get("cli", {}).get("%s|%s" % (key, var[0]))
            if cv is not None:
                bad += c13build.oracle_cli(spec, g, reach, root, var, cv, impl["topo" if var[1] or var[2] else "list"].get(key))
    return bad


def two_versions_in_closure(spec, root):
    """the closure of root (root included, stubs count) holds two products of one name: where the pinned tree
    went wrong (D16, repaired); kept for the input-distribution counters"""
    g = ref_graph(spec)
    nodes = reach_plus(g, tuple(root)) | {tuple(root)}
    names = [n for n, _ in nodes]
    return len(names) != len(set(names))


# ------------------------------------------------------------------ comparison

def canon_partition(comps):
    return sorted(sorted(repr(x) for x in c if x is not None) for c in comps if [x for x in c if x is not None])


def canon_layers(layers):
    return [sorted(repr(x) for x in l if x is not None) for l in layers]


def canon_graph(g):
    return sorted((repr(k), sorted(repr(s) for s in ss)) for k, ss in g if k is not None)


def compare_one(ctx, spec, impl, model, indep_edges_ok=True, case_extra=None):
    case = dict(case_extra or {}, spec=spec)
    n_roots = len(spec["products"])
    shape = spec.get("shape", "?")
    if "child_error" in impl:
        raise RuntimeError("implementation driver failed on a stack: %r" % (impl["child_error"],))
    # edges: the real code's resolution against the independent one
    res = stackgen.resolve(spec)
    for (n, v), rows in res.items():
        mine = [[a, d.get("version"), (b if ok else None), o] for (a, b, ok, o), d in
                zip(rows, [p for p in spec["products"] if stackgen.pkey(p) == (n, v)][0]["deps"])]
        theirs = impl["edges"]["%s %s" % (n, v)]
        if theirs[:len(mine)] != mine or theirs[len(mine):] != [["implicitProducts", None, None, True]]:
            ctx.disagree(dict(case, focus={"root": [n, v]}), mine, theirs, where="resolution of table lines")
    for mode in ("list", "topo", "cyc", "uses"):
        for key in sorted(set(impl[mode]) | set(model[mode])):
            i, m = impl[mode].get(key), model[mode].get(key)
            if isinstance(i, dict) and "exc" in i:
                i = {"exc": i["exc"]}
            if i != m:
                focus = {"query": key.split(" ", 1)} if mode == "uses" else {"root": key.split(" ", 1), "mode": mode}
                ctx.disagree(dict(case, focus=focus), m, i, where=mode)
    # captured internals of topologicalSort: graph, component partition, layers.  Tarjan's correctness is proved
    # for every graph (Props/C13.v tarjan_correct, tarjan_components); running the verified partition checker on the
    # model's Tarjan result is kept as an extra comparison (extracted code against an independent executable
    # statement of the partition), no claim rests on it
    for key, mc in model["captured"].items():
        ic = impl["captured"].get(key, {})
        if "err" in mc:
            ctx.disagree(dict(case, focus={"root": key.split(" ", 1)}), mc, ic, where="topo internals")
            continue
        if not mc["partition_ok"]:
            ctx.disagree(dict(case, focus={"root": key.split(" ", 1)}), mc, None, where="extra comparison: partition_ok rejects the model's Tarjan result")
        ctx.bump("partitions-validated")
        if any(len(c) > 1 for c in mc["comps"]):
            ctx.bump("partitions-validated-cyclic")
        if "graph" not in ic:
            continue                    # the real code raised before reaching Tarjan
        ctx.traces_validated += 1
        if canon_graph(ic["graph"]) != canon_graph(mc["graph"]):
            ctx.disagree(dict(case, focus={"root": key.split(" ", 1)}), mc["graph"], ic["graph"], where="graph given to Tarjan")
        elif canon_partition(ic["comps"]) != canon_partition(mc["comps"]):
            ctx.disagree(dict(case, focus={"root": key.split(" ", 1)}), mc["comps"], ic["comps"], where="components")
        elif isinstance(mc["layers"], list) and "layers" in ic and "ok" in impl["topo"].get(key, {}) and \
                canon_layers(ic["layers"]) != canon_layers(mc["layers"]):
            ctx.disagree(dict(case, focus={"root": key.split(" ", 1)}), mc["layers"], ic["layers"], where="layers")
    fails = oracle(spec, impl)
    for kind, focus, exp, obs, what in fails:
        ctx.fail(kind, dict(case, focus=focus), expected=exp, observed=obs, what=what)
    if "extra" in model:
        g1 = ref_graph(spec)
        fails = fails + c13build.compare(ctx, spec, impl, model["extra"], g1, {a: reach_plus(g1, a) for a in g1})
    # bookkeeping
    g = ref_graph(spec, implicit=False)
    nontriv = len(spec["products"]) >= 3 and any(len(reach_plus(g, a)) >= 2 for a in g)
    evals = 3 * n_roots + len(spec["queries"])
    sig = json.dumps([[p["name"], p["version"], p["current"], p["deps"]] for p in
                      sorted(spec["products"], key=lambda p: (p["name"], p["version"]))], sort_keys=True)
    ctx.count(evals, key="graph/%s" % shape, nontrivial=sig if nontriv else None)
    feats = []
    names = [p["name"] for p in spec["products"]]
    if len(names) != len(set(names)):
        feats.append("two-versions-declared")
    if any(two_versions_in_closure(spec, list(a)) for a in g):
        feats.append("two-versions-in-a-closure")
    if any(a in reach_plus(g, a) for a in g):
        feats.append("cyclic")
    if any(d.get("optional") for p in spec["products"] for d in p["deps"]):
        feats.append("optional-edges")
    if any(not ok for rows in res.values() for (_n, _v, ok, _o) in rows):
        feats.append("unresolved-dependency")
    byname = {}
    for p in spec["products"]:
        byname.setdefault(p["name"], []).append(p["version"])
    if any(a != b and b.startswith(a) for vs in byname.values() for a in vs for b in vs):
        feats.append("version-is-prefix-of-another")
    for f in feats:
        ctx.bump("feature/" + f)
    # how often the hypothesis of build_order_safe (no cycle in the closure) holds, and how often such a closure
    # holds two versions of one name (the case the pinned tree got wrong: D16)
    for a in g:
        nodes = reach_plus(g, a) | {a}
        ok = not any(x in reach_plus(g, x) for x in nodes)
        ctx.bump("roots/build-order-hypotheses-hold" if ok else "roots/closure-has-a-cycle")
        if len(set(n for n, _ in nodes)) != len(nodes):
            ctx.bump("roots/two-versions-in-closure" + ("" if ok else "-and-a-cycle"))
    ctx.bump("products/%d" % len(spec["products"]))
    return fails


def run_specs(ctx, specs, nproc=None):
    for s in specs:
        stackgen.normalise(s)
        add_queries(s)
    impls = stackgen.run_parallel(impl_chunk, specs, nproc=nproc)
    lines, metas, spans = [], [], []
    for s, i in zip(specs, impls):
        if "child_error" in i:
            raise RuntimeError("implementation driver failed on a stack: %r" % (i["child_error"],))
        ls, meta = model_lines(s, i["edges"])
        xs, xmeta = c13build.model_lines(s, enc_world(s, i["edges"]))
        spans.append((len(lines), len(ls), len(xs)))
        lines += ls + xs
        metas.append((meta, xmeta))
    outs = ctx.model(lines)
    all_fails = []
    for s, i, (meta, xmeta), (a, n, nx) in zip(specs, impls, metas, spans):
        m = model_decode(s, meta, outs[a:a + n])
        m["extra"] = c13build.model_decode(xmeta, outs[a + n:a + n + nx], dec_nodes)
        all_fails.append(compare_one(ctx, s, i, m))
    return impls, all_fails


# ------------------------------------------------------------------ shrinking

def shrink(ctx_seed_spec, kind, focus, budget=40):
    """greedy: drop products (not the focus root) and dependency lines while the same kind of oracle failure
    is still reported for the same root / query"""
    spec = json.loads(json.dumps(ctx_seed_spec))

    def still_fails(s):
        s = add_queries(stackgen.normalise(json.loads(json.dumps(s))))
        r = stackgen.run_parallel(impl_chunk, [s], nproc=1)[0]
        if "child_error" in r:
            return False
        for k, f, _e, _o, _w in all_oracle(s, r):
            if k == kind and f.get("root") == focus.get("root") and f.get("query") == focus.get("query"):
                return True
        return False

    changed = True
    while changed and budget > 0:
        changed = False
        for i in range(len(spec["products"])):
            p = spec["products"][i]
            if focus.get("root") == [p["name"], p["version"]]:
                continue
            cand = dict(spec, products=spec["products"][:i] + spec["products"][i + 1:])
            budget -= 1
            if budget <= 0:
                break
            if still_fails(cand):
                spec, changed = cand, True
                break
        if changed:
            continue
        for i, p in enumerate(spec["products"]):
            for j in range(len(p["deps"])):
                q = dict(p, deps=p["deps"][:j] + p["deps"][j + 1:])
                cand = dict(spec, products=spec["products"][:i] + [q] + spec["products"][i + 1:])
                budget -= 1
                if budget <= 0:
                    break
                if still_fails(cand):
                    spec, changed = cand, True
                    break
            if changed or budget <= 0:
                break
    return add_queries(stackgen.normalise(spec))


# ------------------------------------------------------------------ driver

def corpus_specs():
    d = os.path.join(common.ROOT, "corpus", "C13")
    out = []
    if os.path.isdir(d):
        for f in sorted(os.listdir(d)):
            if f.endswith(".json"):
                inp = json.load(open(os.path.join(d, f)))["input"]
                if "spec" in inp:           # text worlds are run by c13walk, two-flavor specs by c13build
                    out.append(inp["spec"])
    return out


def setup_ctx(ctx):
    ctx.rule = ("random product graphs of 4-9 product names (shapes chain, diamond, tree with shared sub-trees, dag, "
                "two versions of one product reached by one root, cycles and self-dependencies, unresolved dependencies, "
                "a directed family and 30% respelled graphs whose version names are prefixes of one another (1.0/1.0.1, 1/10, 1.0/1.0-rc1); "
                "optional edges; explicit versions and bare names resolved through the tag current) materialised as real "
                "stacks; for every declared product getDependentProducts(topological F/T) and checkCycles, for every "
                "product name and version mentioned uses(x[,v]); one evaluation = one such call compared with the model "
                "as an exact ordered list of (name, version, optional, depth); a graph is non-trivial when it declares at "
                "least 3 products and some product reaches at least 2; distinct = distinct graph.  "
                "On the same stacks, for every declared product (harness/c13build.py; keys manifest/..., cli/...): "
                "Distrib.createDependencies of a real eups.distrib tarball / eupspkg Distrib object (no server) - the ordered "
                "(name, version, optional) of the manifest entries against the model's create_dependencies, and the install-loop "
                "oracle on the real manifest; eups list --dependencies through eups.cmd.EupsCmd with stdout captured (--raw "
                "--topological always, and two of: plain, indented, --depth N, --depth with > >= < == !=, --checkCycles with and "
                "without --topological) - the parsed lines against the model's cli_lines, against the API listing, and the closure / "
                "order / depth oracle on the printed lines.  "
                "Second family (no fed edges; keys walk/...): text worlds - the same graph shapes respelled with dotted versions, "
                "spread over one or two stacks (a product sometimes declared in both), products of a name declared under the "
                "running flavor Linux64 or the fall-back flavor generic, tags current / beta per stack, table lines of the forms "
                "name, name version, name version [expr], name relop version, name [expr], with -j, -k, -t beta, setupOptional, "
                "blocks on the exact type (an expanded table) and on the flavor, a few constructs outside the model; requests "
                "as eups list --dependencies takes them: name version, name alone, name -t tag, name version -t beta, each plain, "
                "--topological, --topological --checkCycles, sometimes -e or -T build; one evaluation = one listing compared "
                "with the model's as an exact ordered list of (name, version, found?, optional, depth); every look-up of the walk "
                "(Eups.findProductFromVRO: request, preferred tags in force, product found with stack and flavor) compared with "
                "the model's resolver (traces_validated); a sample of the requests also through eups.cmd.EupsCmd.  "
                "Third family (keys session/...; harness/c13seq.py): sessions on ONE long-lived Eups instance - a stack (half of them "
                "the directed family: a library in 2-3 versions with users through bare lines, pinned lines, both, two versions, and "
                "users of users; half random graphs of the shapes above) and 1-4 changes made through the instance: assignTag / "
                "unassignTag of current, declare of a new version (with and without a tag; a new product name), declare of a tag only, "
                "undeclare, a few of them naming undeclared versions; before the first and after every change: every listing "
                "(topological F/T, checkCycles) of every declared product, the index Eups.uses() and every uses query through it (two "
                "of them also through Eups.uses(x, v)), what every table line denotes - asked of the long-lived instance AND of a fresh "
                "instance in a forked process; three sessions in four through the product cache, one in four with readCache=False "
                "(listings only).  Each step is compared with the model run on the world_after of the initial database and the changes "
                "so far (no fed edges), the database is read back from the files and compared with the model's, and the oracle "
                "(closure, order, cycles, uses = inverse of the listings) is evaluated on the real answers of every step against the "
                "graph read back at that step; the whole session is also put to the extracted run_session (two uses queries or one "
                "listing per step, interleaved with the changes) and its answers compared with the real ones; "
                "session/<mode>/<change>/<effect> counts the changes by what they changed (db, "
                "listings, users)")
    ctx.trusted_base = common.COMMON_TRUSTED + [
        "first family only: resolved edges are an input of the model: the harness asks the real code what each table line denotes "
        "(Action.processArgs + Eups.findProductFromVRO, as Table.dependencies does) and checks the answer against its own "
        "resolution of the generated data (explicit version iff declared, bare name -> tag current)",
        "build order: the second look-up of createDependencies (Eups.findProductFromVRO(name, version) of every listed product) is "
        "modelled on the world of resolved edges (a listed version is found iff it is declared, a product listed without a "
        "version is not found again); DefaultDistrib.updateDependencies (table file, distribution id, install directory of every "
        "entry) is run and checked to have filled every entry, not modelled; the text format of eups list (name|version with "
        "--raw, the indented columns without) is parsed by the harness",
        "sessions: the database of a step is read back with eups.db.VersionFile / ChainFile (the readers, not the Eups instance); "
        "the table lines are the ones the generator wrote; the fresh instance runs in a forked process after the Database "
        "singletons were cleared",
        "modelled, not verified: iteration order of python sets of Products (unobservable: components and layers are compared "
        "as sets), python list.sort stability, Product equality/hash with one flavor",
        "extra comparison, not a premise of any claim: the model's component partition of every tested graph is also run "
        "through the Coq-verified checker partition_ok (partition_checker_sound); Tarjan's algorithm is proved correct on "
        "every graph, cyclic or not (tarjan_correct, tarjan_components), and the topological pipeline is proved total "
        "(topological_listing_total, uses_total)"]
    ctx.assumptions = [
        "one stack, one flavor; every declared product has a readable table; table lines are plain setupRequired/"
        "setupOptional(name [version]) (no -j, --external, unsetupRequired, version expressions, per-line tags)",
        "product names and versions are made of word characters (no '-' ':' and no version spelled None), as the string keys "
        "name-version / name:version of recursiveDict and Uses assume",
        "createDependencies: the path through the EUPS database (option noeups off, no server, default Mapping); the arguments "
        "recursive and exact are not consulted by the code on that path; eups list without -v (with -v every line is printed)",
        "the default product implicitProducts is not declared: every table ends with a silent optional dependency on it, "
        "which the model receives as an ordinary unresolved edge",
        "sessions: one stack, one flavor, the tag current only; a version is declared once with one table (a repeated declare "
        "names the same directory and table); with readCache=False Eups.uses answers nothing (it enumerates the products "
        "through the cache) and every declare carries a tag (Eups.findProducts answers nothing, so declare would tag every "
        "version current): there only the listings are compared",
        "second family: a (name, version) is declared under one flavor, and with one table text when it is declared in two "
        "stacks (the model keys tables by name and version); version names are dotted numbers; Eups built as cmd.createEups "
        "builds it for eups list (after selectVRO it is in exact mode: the shipped VRO starts with type:exact); counted as "
        "outside the model, not compared: --vro / unsetupRequired / qualified tag names on a table line, a pinned relational "
        "expression (topological listing whose only product of some name is the stub of an unresolved relational line), a "
        "request whose root findProducts does not determine"]


def run(ctx):
    setup_ctx(ctx)
    ctx.check_theorems()
    if ctx.tier == "thorough":
        ctx.coqchk(["Eupsv.Props.C13"])
    specs = corpus_specs()
    ncorpus = len(specs)
    n = ctx.size(400, 6000)
    for _ in range(n):
        specs.append(stackgen.gen_spec(ctx.rng))
    for s in specs[ncorpus:ncorpus + 2]:
        ctx.sample({"products": s["products"], "shape": s["shape"]})
    fails_by_spec = []
    for i in range(0, len(specs), 400):
        _, fl = run_specs(ctx, specs[i:i + 400])
        fails_by_spec += fl
    # the manifest on two-flavor stacks (products declared under the fall-back flavor), no fed edges
    c13build.run_flavor_family(ctx, ctx.size(40, 600), enc_world=enc_world, dec_entries=dec_entries, dec_nodes=dec_nodes,
                               ref_graph=ref_graph, reach_plus=reach_plus)
    # second family: the composed model (walk + resolver + table texts), no fed edges
    c13walk.run_family(ctx, ctx.size(70, 1500))
    c13walk.shrink_failures(ctx)
    # third family: sessions query / change / query on one long-lived instance (and a fresh one at every step)
    c13seq.run_family(ctx, ctx.size(60, 1500))
    # shrink the first unknown failure of each kind so that the replay is readable
    seen = set()
    for f in list(ctx.failures):
        if ctx._known(f) or f["kind"] in seen or len(seen) >= 3 or "spec" not in f["input"] or "session" in f["input"]:
            continue
        seen.add(f["kind"])
        small = shrink(f["input"]["spec"], f["kind"], f["input"]["focus"])
        if len(json.dumps(small)) < len(json.dumps(f["input"]["spec"])):
            r = stackgen.run_parallel(impl_chunk, [small], nproc=1)[0]
            for k, fo, e, o, w in all_oracle(small, r):
                if k == f["kind"] and fo.get("root") == f["input"]["focus"].get("root") and \
                        fo.get("query") == f["input"]["focus"].get("query"):
                    ctx.fail(k, {"spec": small, "focus": fo, "shrunk": True}, expected=e, observed=o, what=w)
                    break


def replay(ctx, path):
    setup_ctx(ctx)
    obj = json.load(open(path))
    inp = obj.get("input") or (obj.get("first_disagreement") or {}).get("case")
    if not inp:
        # a replay that names a broken proof: re-check the theorems
        ok = ctx.check_theorems()
        for p in ctx.proof_problems[:5]:
            print("  proof problem: %s %s" % (p.get("theorem"), p.get("what")))
        print("replay %s: %s" % (path, "passes" if ok else "still fails"))
        return 0 if ok else 1
    if "session" in inp:
        c13seq.run_sessions(ctx, [c13seq.prepare(inp["session"])], nproc=1)
    elif "flavor_spec" in inp:
        c13build.run_flavor_specs(ctx, [inp["flavor_spec"]], enc_world=enc_world, dec_entries=dec_entries, dec_nodes=dec_nodes,
                                  ref_graph=ref_graph, reach_plus=reach_plus, nproc=1)
    elif "world" in inp:
        w = dict(inp["world"])
        w.setdefault("features", [])
        w.setdefault("shape", "replay")
        w["requests"] = [inp["request"]]
        c13walk.run_worlds(ctx, [w], nproc=1)
    else:
        run_specs(ctx, [inp["spec"]], nproc=1)
    bad = [f for f in ctx.failures if not ctx._known(f)] or ctx.disagreements
    for f in ctx.failures[:5]:
        print("  %s: %s" % (f["kind"], f["what"]))
    for d in ctx.disagreements[:5]:
        print("  disagreement (%s): model %s impl %s" % (d["where"], json.dumps(d["model"])[:300], json.dumps(d["impl"])[:300]))
    print("replay %s: %s" % (path, "still fails" if bad else "passes"))
    return 1 if bad else 0
