"""C13, the consumers of the listing: the build order of eups distrib and the command-line listing.

Model: coq/Model/BuildOrder.v (create_dependencies, install_manifest, cli_lines) on the worlds of the first family
(harness/c13.py: random product graphs as real stacks, resolved edges fed and cross-checked).

Implementation, on the same stack and for every declared product as the root:

  * eups.distrib.<tarball|eupspkg>.Distrib(Eups, None, flavor).createDependencies(name, version, flavor): a real Distrib
    object without a distribution server (the server is consulted only with the option noeups), so _createDeps
    (getProduct, getDependentProducts(topological=True), the stable sort by descending depth, the second look-up
    findProductFromVRO of every listed product, Manifest.addDependency / roll) and DefaultDistrib.updateDependencies run
    for real; the ordered (name, version, optional) of the manifest entries is compared with the model's;
  * eups.cmd.EupsCmd(["list", "--dependencies", ...]).run() with stdout captured: --raw --topological for every root
    and two further spellings per root out of: plain, --topological without --raw (the indented format), --depth N,
    --depth with an operator (> >= < == !=), --checkCycles with and without --topological; the parsed lines are compared
    with the model's cli_lines and with the lines derived from the API listing of the same root.

Independent oracle (pure python over the generator's data, evaluated on the implementation's outputs):

  manifest   - the last entry is the root; the other entries are exactly the declared products of the closure, each
               once; simulating the install loop over the entries (an `installed` set) no product is installed before
               a product its table asks for that is in the manifest, unless the two lie on a common cycle;
  cli        - the first line is the root (when the depth test admits depth 0); the lines name exactly the closure, on
               every closure - two versions of one name included (the pinned tree printed one line per NAME:
               proposed_fixes/C13-list-prints-every-version, witness corpus/C13/cli-one-line-per-name.json; such closures
               are counted as cli/.../two-versions-of-a-name); with --topological every printed product comes after
               the printed products that need it (outside cycles); --depth keeps exactly the lines whose depth passes.

Two-flavor family (run_flavor_family): small graphs whose products are declared under the running flavor Linux64 or the
fall-back flavor generic (all versions of a name under one flavor); the world of the model comes from the generator's
data alone (stackgen.resolve: no edge is fed); the real manifest of every root against the model's and the manifest
oracle, the API listing against the model's.  The pinned _createDeps looked listed products up under the running flavor
only (proposed_fixes/C13-createdeps-fallback-flavor, witness corpus/C13/manifest-fallback-flavor.json).
"""
import io
import os
import sys

import common
import stackgen
from common import enc

DISTRIBS = ["tarball", "eupspkg"]

# (key, topological, check, raw, filter, depth argument)
CLI_VARIANTS = [
    ("plain", False, False, True, "all", None),
    ("topo-indented", True, False, False, "all", None),
    ("depth-N", True, False, True, "le:2", "2"),
    ("depth-gt", True, False, True, "gt:2", ">2"),
    ("depth-eq", False, False, True, "eq:1", "==1"),
    ("depth-ne", True, False, True, "ne:2", "!=2"),
    ("depth-lt", True, False, True, "lt:3", "< 3"),
    ("depth-ge", False, False, True, "ge:2", ">=2"),
    ("check-topo", True, True, True, "all", None),
    ("check-plain", False, True, True, "all", None),
    ("plain-indented-depth", False, False, False, "le:1", "1"),
]
CLI_ALWAYS = ("topo", True, False, True, "all", None)


def variants_for(i):
    """the command-line spellings run for the i-th root (in sorted order): a function of the position alone, so that
    corpus cases and replays run what the random run ran"""
    n = len(CLI_VARIANTS)
    return [CLI_ALWAYS, CLI_VARIANTS[i % n], CLI_VARIANTS[(3 * i + 5) % n]]


def roots_of(spec):
    return sorted(spec["products"], key=lambda p: (p["name"], p["version"]))


# ------------------------------------------------------------------ implementation side (inside the child)

def _run_cli(args):
    import contextlib
    import eups.cmd
    sys.modules["eups.db.Database"]._databases.clear()
    buf = io.StringIO()
    keep = dict(os.environ)
    try:
        with contextlib.redirect_stdout(buf):
            status = eups.cmd.EupsCmd(args=args, toolname="eups").run()
    except SystemExit as ex:
        status = "exit:%s" % (ex.code,)
    except Exception as ex:  # noqa
        status = "exc:" + type(ex).__name__
    finally:
        os.environ.clear()
        os.environ.update(keep)
    return status, buf.getvalue().splitlines()


def parse_cli(lines, raw):
    out = []
    for l in lines:
        if raw:
            if "|" not in l:
                out.append(["?", l])
                continue
            n, v = l.split("|", 1)
        else:
            f = l.lstrip("| ").split()
            if len(f) != 2:
                out.append(["?", l])
                continue
            n, v = f
        out.append([n, None if v == "None" else v])
    return out


def impl_extra(e, spec):
    """on the materialised stack of spec (the environment points at it): the manifests and the command-line listings"""
    import importlib
    out = {"mani": {}, "cli": {}}
    dn = None
    if not os.environ.get("EUPS_VERIF_DEBUG"):
        sys.stderr.flush()
        dn = os.dup(2)
        null = os.open(os.devnull, os.O_WRONLY)     # updateDependencies / getProductInstDir warn about stubs
        os.dup2(null, 2)
        os.close(null)
    try:
        for i, p in enumerate(roots_of(spec)):
            key = "%s %s" % (p["name"], p["version"])
            kind = DISTRIBS[i % len(DISTRIBS)]
            mod = importlib.import_module("eups.distrib." + kind)
            try:
                d = mod.Distrib(e, None, flavor=e.flavor, verbosity=0, log=io.StringIO())
                man = d.createDependencies(p["name"], p["version"], e.flavor)
                ents = man.getProducts()
                val = {"ok": [[x.product, x.version, bool(x.isOpt)] for x in ents],
                       "filled": all(x.tablefile is not None and x.distId and x.flavor == e.flavor for x in ents)}
            except Exception as ex:  # noqa
                val = {"exc": type(ex).__name__, "msg": str(ex)[:200]}
            val["distrib"] = kind
            out["mani"][key] = val
            for (vk, topo, check, raw, flt, darg) in variants_for(i):
                args = ["list", "--dependencies"]
                if raw:
                    args.append("--raw")
                if topo:
                    args.append("--topological")
                if check:
                    args.append("--checkCycles")
                if darg is not None:
                    args += ["--depth", darg]
                args += [p["name"], p["version"]]
                status, lines = _run_cli(args)
                out["cli"]["%s|%s" % (key, vk)] = {"status": status, "lines": parse_cli(lines, raw), "args": args[1:]}
    finally:
        if dn is not None:
            sys.stderr.flush()
            os.dup2(dn, 2)
            os.close(dn)
        sys.modules["eups.db.Database"]._databases.clear()
    return out


# ------------------------------------------------------------------ model side

def model_lines(spec, w):
    lines, meta = [], []
    for i, p in enumerate(roots_of(spec)):
        lines.append("\t".join(["mani", w, enc(p["name"]), enc(p["version"])]))
        meta.append(("mani", p["name"], p["version"], None))
        for v in variants_for(i):
            lines.append("\t".join(["cli", w, enc(p["name"]), enc(p["version"]), "1" if v[1] else "0",
                                    "1" if v[2] else "0", v[4]]))
            meta.append(("cli", p["name"], p["version"], v))
    return lines, meta


def model_decode(meta, outs, dec_nodes):
    m = {"mani": {}, "cli": {}}
    for (op, n, v, var), line in zip(meta, outs):
        f = line.split("\t")
        key = "%s %s" % (n, v)
        if op == "mani":
            if f[0] != "ok":
                m["mani"][key] = {"err": f[1] if len(f) > 1 else line}
                continue
            ents = []
            for it in (f[1].split(";") if f[1] else []):
                nn, vv, rr, oo = it.split(":")
                node = dec_nodes(":".join([nn, vv, rr]))[0]
                ents.append([node[0], node[1], oo == "1"])
            m["mani"][key] = {"ok": ents, "install": f[2]}
        else:
            k = "%s|%s" % (key, var[0])
            if f[0] != "ok":
                m["cli"][k] = {"err": f[1] if len(f) > 1 else line}
            else:
                m["cli"][k] = {"ok": [[x[0], x[1]] for x in dec_nodes(f[1] if len(f) > 1 else "")]}
    return m


# ------------------------------------------------------------------ the oracle

def depth_pass(flt, d):
    if flt == "all":
        return True
    op, n = flt.split(":")
    n = int(n)
    return {"le": d <= n, "lt": d < n, "ge": d >= n, "gt": d > n, "eq": d == n, "ne": d != n}[op]


def oracle_manifest(spec, g, reach, root, val):
    """statements of the property about the install order that are false of the manifest createDependencies built"""
    bad = []
    focus = {"root": list(root), "createDependencies": True}
    if "ok" not in val:
        return bad                                  # refusals are compared with the model, the property is silent
    ents = [(x[0], x[1]) for x in val["ok"]]
    declared = stackgen.declared(spec)
    want = set(q for q in reach[root] - {root} if q in declared)
    if not ents or ents[-1] != root:
        bad.append(("manifest-root", focus, list(root), val["ok"][-1:], "the manifest of %s %s does not end with the product itself" % root))
    body = ents[:-1] if ents and ents[-1] == root else ents
    if len(set(ents)) != len(ents):
        bad.append(("manifest-duplicates", focus, None, val["ok"], "the manifest of %s %s repeats a product" % root))
    if set(body) != want:
        bad.append(("manifest-entries", focus, sorted(want), sorted(set(body)),
                    "manifest of %s %s: missing %s, extra %s" % (root + (sorted(want - set(body)), sorted(set(body) - want)))))
    inman = set(ents)
    installed = set()
    for p in ents:
        for q in g.get(p, []):
            if q == p or q not in inman or q in installed:
                continue
            if p in reach.get(q, set()):
                continue                            # p and q need each other: no order exists
            bad.append(("build-order", dict(focus, edge=[list(p), list(q)]), "%s %s installed before %s %s" % (q + p), val["ok"],
                        "installing the manifest of %s %s in order meets %s %s before its dependency %s %s is installed"
                        % (root + p + q)))
        installed.add(p)
    return bad


def oracle_cli(spec, g, reach, root, var, val, api):
    """statements of the property about the printed listing that are false of what the command printed"""
    vk, topo, check, raw, flt, _ = var
    bad = []
    focus = {"root": list(root), "cli": vk}
    nodes = reach[root] | {root}
    cyclic = any(x != y and x in reach.get(y, set()) and y in reach.get(x, set()) for x in nodes for y in nodes)
    if check and cyclic:
        if val["status"] in (0, None):
            bad.append(("cli-cycle-not-reported", focus, "an error", val, "eups list --checkCycles on %s %s passed although it reaches a cycle" % root))
        return bad
    if val["status"] not in (0, None):
        bad.append(("cli-error", focus, "status 0", val["status"], "eups list %s failed: %s" % (" ".join(val["args"]), val["status"])))
        return bad
    lines = [tuple(x) for x in val["lines"]]
    if check and not topo:
        if lines:
            bad.append(("cli-extra", focus, [], val["lines"], "--checkCycles without --topological printed lines"))
        return bad
    if any(x[0] == "?" for x in lines):
        bad.append(("cli-format", focus, "name and version", val["lines"], "a line of the listing could not be read"))
        return bad
    closure = reach[root] - {root}
    deps = lines
    if depth_pass(flt, 0):
        if not lines or lines[0] != root:
            bad.append(("cli-root", focus, list(root), val["lines"][:1], "the listing of %s %s does not start with the product" % root))
        deps = lines[1:]
    if len(set(deps)) != len(deps):
        bad.append(("cli-duplicates", focus, None, val["lines"], "the listing of %s %s repeats a product" % root))
    # the depth of every product is the API's (the property does not fix depths, only what the test keeps)
    if api is not None and "ok" in api:
        depths = {}
        for x in api["ok"]:
            depths.setdefault((x[0], x[1]), set()).add(x[3])
        want = set(q for q in closure if any(depth_pass(flt, d) for d in depths.get(q, ())))
    else:
        want = None
    got = set(deps)
    if want is not None and got != want:
        bad.append(("cli-closure", focus, sorted(want, key=repr), sorted(got, key=repr),
                    "eups list %s: missing %s, extra %s" % (" ".join(val["args"]), sorted(want - got, key=repr), sorted(got - want, key=repr))))
    if topo:
        pos = {q: i for i, q in enumerate(deps)}
        pos[root] = -1
        for p in [root] + [q for q in deps if q in g]:
            for q in g.get(p, []):
                if q == p or q not in pos or p not in pos:
                    continue
                if p in reach.get(q, set()):
                    continue
                if not pos[q] > pos[p]:
                    bad.append(("cli-order", dict(focus, edge=[list(p), list(q)]), "%s %s after %s %s" % (q + p), val["lines"],
                                "eups list --topological of %s %s prints %s %s before %s %s which needs it" % (root + q + p)))
    return bad


def cli_from_api(root, var, api):
    """the lines the command must print given the API listing of the same root (app.printProducts, by reading it)"""
    vk, topo, check, raw, flt, _ = var
    if api is None or "ok" not in api:
        return None
    if check and not topo:
        return []
    out = [[root[0], root[1]]] if depth_pass(flt, 0) else []
    seen = set()
    for x in api["ok"]:
        if not depth_pass(flt, x[3]):
            continue
        if (x[0], x[1]) in seen:
            continue
        seen.add((x[0], x[1]))
        out.append([x[0], x[1]])
    return out


# ------------------------------------------------------------------ comparison

def compare(ctx, spec, impl, model, g, reach):
    """impl = the dict of impl_extra plus the API listings (impl['topo'], impl['list']); model = model_decode(...)"""
    case = {"spec": spec}
    fails = []
    declared = stackgen.declared(spec)
    for i, p in enumerate(roots_of(spec)):
        root = (p["name"], p["version"])
        key = "%s %s" % root
        iv, mv = impl["mani"].get(key), model["mani"].get(key)
        # --- the manifest
        if "ok" in iv:
            ic = {"ok": iv["ok"]}
        else:
            ic = {"err": {"ProductNotFound": "NotFound", "EupsException": "Undefined"}.get(iv.get("exc"), "exc:%s" % iv.get("exc"))}
        mc = {"ok": mv["ok"]} if "ok" in mv else {"err": mv["err"]}
        if ic != mc:
            ctx.disagree(dict(case, focus={"root": list(root), "createDependencies": iv.get("distrib")}), mc, iv, where="createDependencies")
        if "ok" in iv and not iv.get("filled"):
            ctx.disagree(dict(case, focus={"root": list(root)}), "every entry with table file, distribution id and flavor", iv,
                         where="updateDependencies left an entry unfilled")
        closure = reach[root] - {root}
        acyclic = not any(x in reach.get(x, set()) for x in closure | {root})
        if "ok" in mv and acyclic and mv.get("install") != "ok":
            ctx.disagree(dict(case, focus={"root": list(root)}), mv, None, where="model: install_manifest fails on an acyclic closure (install_in_manifest_order_succeeds)")
        fl = oracle_manifest(spec, g, reach, root, iv)
        fails += fl
        stubs_required = "ok" not in iv
        shape = "refused-required-stub" if stubs_required else ("cyclic" if not acyclic else
                ("optional-stub-skipped" if any(q not in declared and q[0] != "implicitProducts" for q in closure) else "plain"))
        ctx.count(1, key="manifest/%s/%s" % (iv.get("distrib"), shape))
        # --- the command line
        for var in variants_for(i):
            k = "%s|%s" % (key, var[0])
            cv, cm = impl["cli"].get(k), model["cli"].get(k)
            api = impl["topo" if var[1] or var[2] else "list"].get(key)
            if "err" in cm:
                mlines = {"err": cm["err"]}
                ilines = {"err": "Refused"} if (var[2] and cv["status"] not in (0, None)) else {"ok": cv["lines"], "status": cv["status"]}
                if mlines != ilines:
                    ctx.disagree(dict(case, focus={"root": list(root), "cli": var[0]}), cm, cv, where="eups list --dependencies")
            else:
                if cv["status"] not in (0, None) or cv["lines"] != cm["ok"]:
                    ctx.disagree(dict(case, focus={"root": list(root), "cli": var[0]}), cm, cv, where="eups list --dependencies")
                exp = cli_from_api(root, var, api)
                if exp is not None and cv["lines"] != exp:
                    ctx.disagree(dict(case, focus={"root": list(root), "cli": var[0]}), exp, cv, where="eups list --dependencies against the API listing")
            fl = oracle_cli(spec, g, reach, root, var, cv, api)
            fails += fl
            two = len(set(n for n, _ in closure)) != len(closure)
            ctx.count(1, key="cli/%s%s" % (var[0], "/two-versions-of-a-name" if two else ""))
    for kind, focus, exp, obs, what in fails:
        ctx.fail(kind, dict(case, focus=focus), expected=exp, observed=obs, what=what)
    return fails


# ------------------------------------------------------------------ two flavors

GENERIC = "generic"


def gen_flavor_spec(rng):
    """a small graph some of whose product names are declared under the fall-back flavor"""
    spec = stackgen.gen_spec(rng, nprod=rng.randint(3, 6), shape=rng.choice(["chain", "diamond", "dag", "stubby", "twover", "tree"]))
    names = sorted(set(p["name"] for p in spec["products"]))
    gen = set(n for n in names if rng.random() < 0.5)
    if not gen:
        gen = {rng.choice(names)}
    for p in spec["products"]:
        p["flavor"] = GENERIC if p["name"] in gen else stackgen.FLAVOR
    spec["shape"] = "two-flavors/" + spec["shape"]
    return spec


def _materialise_flavored(spec, root):
    eups = common.import_eups()
    os.makedirs(os.path.join(root, "ups_db"), exist_ok=True)
    dirs = stackgen.write_product_dirs(spec, root)
    es = {}
    for p in spec["products"]:
        f = p.get("flavor", stackgen.FLAVOR)
        if f not in es:
            es[f] = eups.Eups(quiet=1, flavor=f)
        d = dirs[stackgen.pkey(p)]
        es[f].declare(p["name"], p["version"], d, eupsPathDir=root, tablefile=os.path.join(d, "ups", p["name"] + ".table"),
                      tag="current" if p.get("current") else None)
    cur = stackgen.current_of(spec)
    for p in spec["products"]:
        f = p.get("flavor", stackgen.FLAVOR)
        if cur.get(p["name"]) != p["version"]:
            prod = es[f].findProduct(p["name"], p["version"], flavor=f)
            if prod is not None and prod.isTagged("current"):
                es[f].unassignTag("current", p["name"], p["version"], eupsPathDir=root)


def impl_flavor_one(spec):
    import shutil
    import importlib
    base = common.scratch_dir()
    try:
        root, ud = os.path.join(base, "stack"), os.path.join(base, "userdata")
        os.makedirs(os.path.join(ud, "ups_db"))
        os.makedirs(root)
        os.environ.clear()
        os.environ.update(stackgen.stack_environ(root, ud))
        stackgen.reset_singletons()
        _materialise_flavored(spec, root)
        stackgen.reset_singletons()
        eups = common.import_eups()
        from eups import utils
        e = stackgen.new_eups()
        out = {"mani": {}, "topo": {}}
        for i, p in enumerate(roots_of(spec)):
            key = "%s %s" % (p["name"], p["version"])
            top = None
            for f in utils.Flavor().getFallbackFlavors(e.flavor, includeMe=True):   # as Eups.setup looks
                top = e.findProduct(p["name"], p["version"], flavor=f)
                if top:
                    break
            try:
                r = e.getDependentProducts(top, topological=True)
                out["topo"][key] = {"ok": [[q.name, q.version, bool(o), d, q.flavor is not None] for q, o, d in r]}
            except Exception as ex:  # noqa
                out["topo"][key] = {"exc": type(ex).__name__, "msg": str(ex)[:200]}
            kind = DISTRIBS[i % len(DISTRIBS)]
            mod = importlib.import_module("eups.distrib." + kind)
            try:
                d = mod.Distrib(e, None, flavor=e.flavor, verbosity=0, log=io.StringIO())
                ents = d.createDependencies(p["name"], p["version"], e.flavor).getProducts()
                val = {"ok": [[x.product, x.version, bool(x.isOpt)] for x in ents],
                       "filled": all(x.tablefile not in (None, "none") and x.distId and x.flavor == e.flavor for x in ents)}
            except Exception as ex:  # noqa
                val = {"exc": type(ex).__name__, "msg": str(ex)[:200]}
            val["distrib"] = kind
            out["mani"][key] = val
        return out
    finally:
        shutil.rmtree(base, ignore_errors=True)


def impl_flavor_chunk(specs):
    if not os.environ.get("EUPS_VERIF_DEBUG"):
        null = os.open(os.devnull, os.O_WRONLY)
        os.dup2(null, 2)
    res = []
    for s in specs:
        try:
            res.append(impl_flavor_one(s))
        except Exception as ex:  # noqa
            import traceback
            res.append({"child_error": [type(ex).__name__, str(ex)[:500], traceback.format_exc()[-1500:]]})
    return res


def flavor_corpus():
    import json
    d = os.path.join(common.ROOT, "corpus", "C13")
    out = []
    for f in sorted(os.listdir(d)) if os.path.isdir(d) else []:
        if f.endswith(".json"):
            inp = json.load(open(os.path.join(d, f)))["input"]
            if "flavor_spec" in inp:
                out.append(inp["flavor_spec"])
    return out


def run_flavor_specs(ctx, specs, enc_world, dec_entries, dec_nodes, ref_graph, reach_plus, nproc=None):
    for s in specs:
        stackgen.normalise(s)
    impls = stackgen.run_parallel(impl_flavor_chunk, specs, nproc=nproc)
    lines, spans = [], []
    for s in specs:
        res = stackgen.resolve(s)
        edges = {}
        for p in s["products"]:
            rows = [[n, d.get("version"), (v if ok else None), o] for (n, v, ok, o), d in zip(res[stackgen.pkey(p)], p["deps"])]
            edges["%s %s" % stackgen.pkey(p)] = rows + [["implicitProducts", None, None, True]]
        w = enc_world(s, edges)
        ls = []
        for p in roots_of(s):
            ls.append("\t".join(["mani", w, enc(p["name"]), enc(p["version"])]))
            ls.append("\t".join(["deps", w, enc(p["name"]), enc(p["version"]), "1"]))
        spans.append((len(lines), len(ls)))
        lines += ls
    outs = ctx.model(lines)
    for s, impl, (a, n) in zip(specs, impls, spans):
        if "child_error" in impl:
            raise RuntimeError("implementation driver failed on a two-flavor stack: %r" % (impl["child_error"],))
        case = {"flavor_spec": s}
        g = ref_graph(s)
        reach = {x: reach_plus(g, x) for x in g}
        mo = outs[a:a + n]
        for j, p in enumerate(roots_of(s)):
            root = stackgen.pkey(p)
            key = "%s %s" % root
            mm = model_decode([("mani", root[0], root[1], None)], [mo[2 * j]], dec_nodes)["mani"][key]
            f = mo[2 * j + 1].split("\t")
            ml = {"ok": dec_entries(f[1] if len(f) > 1 else "")} if f[0] == "ok" else {"err": f[1] if len(f) > 1 else mo[2 * j + 1]}
            il = impl["topo"][key]
            if (il if "ok" in il else {"exc": il.get("exc")}) != ml:
                ctx.disagree(dict(case, focus={"root": list(root)}), ml, il, where="two flavors: topological listing")
            iv = impl["mani"][key]
            ic = {"ok": iv["ok"]} if "ok" in iv else \
                {"err": {"ProductNotFound": "NotFound", "EupsException": "Undefined"}.get(iv.get("exc"), "exc:%s" % iv.get("exc"))}
            mc = {"ok": mm["ok"]} if "ok" in mm else {"err": mm["err"]}
            if ic != mc:
                ctx.disagree(dict(case, focus={"root": list(root), "createDependencies": iv.get("distrib")}), mc, iv,
                             where="two flavors: createDependencies")
            if "ok" in iv and not iv.get("filled"):
                ctx.disagree(dict(case, focus={"root": list(root)}), "every entry with its table file, distribution id and flavor", iv,
                             where="two flavors: updateDependencies left an entry without its table file")
            fails = oracle_manifest(s, g, reach, root, iv)
            # the property: a declared product whose listed dependencies are all declared (or optional) has a manifest
            if "ok" not in iv and "ok" in mm:
                fails.append(("manifest-refused", {"root": list(root), "createDependencies": True}, mm["ok"], iv,
                              "createDependencies(%s %s) raised %s although every required product of its listing is declared"
                              % (root + (iv.get("exc"),))))
            for kind, focus, exp, obs, what in fails:
                ctx.fail(kind, dict(case, focus=focus), expected=exp, observed=obs, what=what)
            closure = reach[root] - {root}
            flv = {stackgen.pkey(q): q.get("flavor", stackgen.FLAVOR) for q in s["products"]}
            shape = "root-%s/%s" % (flv[root], "reaches-generic" if any(flv.get(q) == GENERIC for q in closure) else "one-flavor")
            ctx.count(1, key="manifest/two-flavors/%s" % shape)


def run_flavor_family(ctx, n, **kw):
    specs = flavor_corpus()
    for _ in range(n):
        specs.append(gen_flavor_spec(ctx.rng))
    run_flavor_specs(ctx, specs, **kw)
